"""SHAPE: which open/closed interval does a boolean expression over comparisons denote?

The abstract domain is the finite set of order relations a value x can have to one or two bounds
(x<b, x=b, x>b); it is enumerated completely.  Expressions are ``form.Rat`` boolean atoms produced by
``symeval`` (so local variable names, temporaries and statement order do not matter).
"""
from .form import Rat

REL = ("lt", "eq", "gt")

# positions of x relative to (lower, upper); degenerate lower == upper included
POS2 = {
    "x<l<u": ("lt", "lt"), "x=l<u": ("eq", "lt"), "l<x<u": ("gt", "lt"), "l<x=u": ("gt", "eq"), "l<u<x": ("gt", "gt"),
    "x<l=u": ("lt", "lt"), "x=l=u": ("eq", "eq"), "l=u<x": ("gt", "gt"),
}
POS2_ORDER = ["x<l<u", "x=l<u", "l<x<u", "l<x=u", "l<u<x", "x=l=u"]


class Unknown(Exception):
    pass


class Tolerance(Unknown):
    """np.isclose/np.allclose used where the interval definition asks for an exact comparison: not an order relation at all."""


class Roles(object):
    """Which Rat keys denote the lower bound, the upper bound and the boolean flags."""

    def __init__(self, lower=None, upper=None, flags=None, x=None):
        self.lower = lower        # Rat or None (-inf)
        self.upper = upper        # Rat or None (+inf)
        self.flags = flags or {}  # key -> bool
        self.x = x                # Rat or None (inferred)
        self.x_seen = []

    def bound_of(self, r):
        if self.lower is not None and r.equals(self.lower):
            return "l"
        if self.upper is not None and r.equals(self.upper):
            return "u"
        return None

    def note_x(self, r):
        if self.x is not None and not r.equals(self.x):
            raise Unknown("comparison subject %s differs from %s" % (r, self.x))
        for s in self.x_seen:
            if not s.equals(r):
                raise Unknown("two different comparison subjects: %s and %s" % (s, r))
        self.x_seen.append(r)


def _rel(pos, b):
    return pos[0] if b == "l" else pos[1]


def eval_bool(r, roles, pos):
    """Truth value of boolean Rat r when x has relation pos=(rel to lower, rel to upper)."""
    c = r.const_value()
    if c is not None:
        return c != 0
    if r.key() in roles.flags:
        return roles.flags[r.key()]
    at = r.as_atom()
    if at is None:
        raise Unknown("not a boolean atom: %s" % r)
    f = at.func
    if f == "and":
        return all(eval_bool(a, roles, pos) for a in at.args)
    if f == "or":
        return any(eval_bool(a, roles, pos) for a in at.args)
    if f == "not":
        return not eval_bool(at.args[0], roles, pos)
    if f in ("cmp_lt", "cmp_le"):
        a, b = at.args
        ba, bb = roles.bound_of(a), roles.bound_of(b)
        if bb and not ba:          # x < bound
            roles.note_x(a)
            rel = _rel(pos, bb)
            return rel == "lt" or (f == "cmp_le" and rel == "eq")
        if ba and not bb:          # bound < x
            roles.note_x(b)
            rel = _rel(pos, ba)
            return rel == "gt" or (f == "cmp_le" and rel == "eq")
        raise Unknown("comparison without exactly one bound: %s" % r)
    if f in ("cmp_eq", "cmp_ne"):
        d, z = at.args
        if not z.is_zero():
            raise Unknown("unnormalised equality %s" % r)
        res = None
        # negation of a boolean:  B == 0
        da = d.as_atom()
        if da is not None and (da.func in ("and", "or", "not", "within") or da.func.startswith("cmp_")
                               or d.key() in roles.flags):
            res = not eval_bool(d, roles, pos)
        else:
            for name, bnd in (("l", roles.lower), ("u", roles.upper)):
                if bnd is None:
                    continue
                # d == +-(x - bound): solve for x
                for sign in (1, -1):
                    xcand = (d if sign == 1 else -d) + bnd
                    if roles.bound_of(xcand) is None and not _mentions(xcand, bnd):
                        if roles.x is not None and not xcand.equals(roles.x):
                            continue
                        if roles.x_seen and not roles.x_seen[0].equals(xcand):
                            continue
                        roles.note_x(xcand)
                        res = _rel(pos, name) == "eq"
                        break
                if res is not None:
                    break
            if res is None:
                raise Unknown("equality not between the subject and a bound: %s" % r)
        return res if f == "cmp_eq" else not res
    if f in ("call:numpy.isclose", "call:numpy.allclose"):
        raise Tolerance("tolerance comparison %s is not an order relation" % f[5:])
    raise Unknown("unsupported boolean form %s" % r)


def _mentions(r, sym):
    ks = set(a.key for a in sym.atoms(deep=False))
    return any(a.key in ks for a in r.atoms(deep=False))


def table2(r, roles):
    """Truth table over the positions of x relative to (lower, upper)."""
    out = {}
    for name in POS2_ORDER:
        pos = POS2[name]
        if roles.lower is None:
            pos = ("gt", pos[1])
            if name in ("x<l<u", "x=l<u", "x=l=u"):
                continue
        if roles.upper is None:
            pos = (pos[0], "lt")
            if name in ("l<x=u", "l<u<x", "x=l=u"):
                continue
        roles.x_seen = []
        out[name] = eval_bool(r, roles, pos)
    return out


def expected_table(lower_closed, upper_closed, has_lower=True, has_upper=True):
    out = {}
    for name in POS2_ORDER:
        rl, ru = POS2[name]
        if not has_lower:
            if name in ("x<l<u", "x=l<u", "x=l=u"):
                continue
            rl = "gt"
        if not has_upper:
            if name in ("l<x=u", "l<u<x", "x=l=u"):
                continue
            ru = "lt"
        above = rl == "gt" or (lower_closed and rl == "eq")
        below = ru == "lt" or (upper_closed and ru == "eq")
        out[name] = above and below
    return out


# documented events (property C07 statement; the help sentence of -b is parsed and compared as well)
BIN_TYPES = {
    # name: (has_lower, has_upper, lower_closed, upper_closed)
    "below": (False, True, False, False),
    "below=": (False, True, False, True),
    "above": (True, False, False, False),
    "above=": (True, False, True, False),
    "within": (True, True, False, False),
    "=within": (True, True, True, False),
    "within=": (True, True, False, True),
    "=within=": (True, True, True, True),
}


def describe(has_lower, has_upper, lc, uc):
    lo = ("[" if lc else "(") + ("l" if has_lower else "-inf")
    hi = ("u" if has_upper else "+inf") + ("]" if uc else ")")
    return lo + ", " + hi
