"""Rule harness: obligations, findings, known findings, evidence, exit codes.

exit 0  every obligation discharged (known findings are printed as KNOWN-FINDING lines)
exit 1  at least one finding that /verif/known_findings.json does not list
exit 2  ANALYSIS-ERROR: the analysis could not be carried out (never a silent pass)
"""
import importlib
import json
import os
import sys
import time
import traceback

from . import core
from .core import AnalysisError

VERIF_DIR = os.path.dirname(os.path.dirname(os.path.abspath(__file__)))
EVIDENCE_DIR = os.environ.get("VSA_EVIDENCE_DIR") or os.path.join(VERIF_DIR, "evidence")   # override: self-test runs on scratch copies
REPLAY_DIR = os.path.join(EVIDENCE_DIR, "replay")
KNOWN_FILE = os.path.join(VERIF_DIR, "known_findings.json")

PROPERTY_IDS = ["C%02d" % i for i in range(1, 21)]


class Finding(object):
    def __init__(self, rule, site, construct, message, loc=None, expected=None, found=None):
        self.rule = rule
        self.site = site
        self.construct = construct
        self.message = message
        self.loc = loc
        self.expected = expected
        self.found = found

    @property
    def key(self):
        return "%s | %s | %s" % (self.rule, self.site, self.construct)

    def as_dict(self):
        return {"rule": self.rule, "site": self.site, "construct": self.construct,
                "message": self.message, "loc": self.loc, "expected": self.expected,
                "found": self.found, "key": self.key}


class Ctx(object):
    """Collects what one run of one property's rules examined and concluded."""

    def __init__(self, prog, pid, tier="quick", quiet=False):
        self.prog = prog
        self.pid = pid
        self.tier = tier
        self.quiet = quiet
        self.obligations = []     # (rule, site, what, ok, nontrivial)
        self.findings = []
        self.samples = []
        self.undecided = []
        self.notes = []
        self.rules = {}           # rule id -> description
        self.rule_counts = {}

    @property
    def thorough(self):
        return self.tier == "thorough"

    def rule(self, rid, text):
        self.rules[rid] = text

    def ob(self, rule, site, ok, what, loc=None, msg=None, expected=None, found=None,
           nontrivial=True, sample=None):
        """Record one obligation (a rule instance at a site).  ``ok`` False => a finding."""
        ok = bool(ok)
        self.obligations.append((rule, site, what, ok, nontrivial))
        self.rule_counts[rule] = self.rule_counts.get(rule, 0) + 1
        if sample is not None and len(self.samples) < 400:
            self.samples.append(sample)
        if not ok:
            self.findings.append(Finding(rule, site, what, msg or what, loc, expected, found))
        return ok

    def sample(self, s):
        if len(self.samples) < 400:
            self.samples.append(s)

    def undecided_item(self, rule, site, why):
        self.undecided.append({"rule": rule, "site": site, "why": why})

    def note(self, text):
        self.notes.append(text)

    def need(self, cond, msg):
        if not cond:
            raise AnalysisError(msg)

    def floor(self, rule, minimum):
        n = self.rule_counts.get(rule, 0)
        if n < minimum and self.findings:
            # positively identified violations are reported; the shape change is noted
            self.note("rule %s matched %d instances (floor %d) on a tree with findings" % (rule, n, minimum))
            return
        if n < minimum:
            raise AnalysisError("rule %s matched %d instances, fewer than the confirmed floor %d "
                                "(an anchor moved or changed shape)" % (rule, n, minimum))

    def control(self, rule, fires, what):
        """A built-in positive/negative control of a rule; a misbehaving control breaks the run."""
        self.obligations.append((rule, "<control>", what, True, False))
        if not fires:
            raise AnalysisError("control of rule %s failed: %s" % (rule, what))


def load_known():
    if not os.path.exists(KNOWN_FILE):
        return {"findings": [], "fixed": []}
    with open(KNOWN_FILE) as f:
        return json.load(f)


def run_property(pid, tier="quick", prog=None, quiet=True):
    """Run the rules of one property; returns the Ctx (raises AnalysisError)."""
    report = None
    if prog is None:
        if os.environ.get("VSA_NO_REFSUB"):
            prog = core.Program()
        else:
            from . import refsub
            prog, report = refsub.canonical_program()
    if prog.parse_errors:
        raise AnalysisError("unparsable module(s): %s" % prog.parse_errors)
    mod = importlib.import_module("vsa.rules.%s" % pid.lower())
    ctx = Ctx(prog, pid, tier, quiet)
    ctx.refsub = report
    if report and report["changed"]:
        ctx.note("functions that differ from the reference tree: %d; analysed in their reference form after their summaries were found equal: %s; "
                 "analysed as they are: %s" % (len(report["changed"]), report["substituted"], [x["function"] for x in report["not_substituted"]]))
    try:
        mod.run(ctx)
    except AnalysisError as e:
        # a rule that no longer recognises a shape does not pre-empt violations that other rules identified positively before it
        known_keys = {k["key"] for k in load_known().get("findings", []) if k.get("property") == pid}
        if not any(f.key not in known_keys for f in ctx.findings):
            raise
        ctx.note("the analysis stopped early (%s); the violations identified before that are reported" % e)
    return ctx, mod


def write_evidence(pid, tier, seed, ctx, mod, wall, new, known_hit, audit=None, error=None):
    os.makedirs(EVIDENCE_DIR, exist_ok=True)
    prog = ctx.prog if ctx else None
    distinct = set()
    nobl = 0
    ndis = 0
    if ctx:
        for (rule, site, what, ok, nontrivial) in ctx.obligations:
            nobl += 1
            ndis += 1 if ok else 0
            if nontrivial:
                distinct.add((rule, site, what))
    units = {}
    if prog:
        nfun = sum(1 for _ in prog.all_functions())
        units = {"modules": sorted(prog.modules), "functions": nfun,
                 "classes": sum(len(m.classes) for m in prog.modules.values())}
    explanation = (getattr(mod, "EXPLANATION", "") if mod else "") or ""
    cov = {
        "explanation": explanation,
        "rule": "One evaluation = one rule instance (rule id, site, construct) examined on the "
                "current /repo source; non-trivial = carries a real obligation (built-in controls "
                "excluded); distinct = distinct (rule, site, construct) triples.",
        "evaluations": max(nobl, 1),
        "distinct_nontrivial": len(distinct),
        "obligations": nobl,
        "discharged": ndis,
        "rules": ctx.rules if ctx else {},
        "instances_per_rule": ctx.rule_counts if ctx else {},
        "samples": (ctx.samples[:60] if ctx and ctx.samples else
                    [{"rule": r, "site": s, "construct": w} for (r, s, w, ok, nt) in
                     (ctx.obligations[:40] if ctx else [])]) or ["<none>"],
        "undecided": ctx.undecided if ctx else [],
        "units_analysed": units,
        "findings_new": [f.as_dict() for f in new],
        "findings_known": [f.as_dict() for f in known_hit],
        "notes": ctx.notes if ctx else [],
        "checker_cmd": "./check %s --tier %s" % (pid, tier),
        "trusted_base": ["CPython ast", "vsa engine (/verif/vsa)", "/verif/tables reference tables",
                         "semantics of the numpy/scipy/matplotlib functions given transfer rules",
                         "/verif/reference (the tree on which the obligations were confirmed) and vsa.equiv (summary comparison)"],
        "exhaustive": False,
    }
    if ctx is not None and getattr(ctx, "refsub", None):
        cov["reference_substitution"] = ctx.refsub
    if audit is not None:
        cov["sensitivity_audit"] = audit
    if error:
        cov["analysis_error"] = error
    ev = {
        "property_id": pid,
        "tier": tier,
        "seed": seed,
        "level": "other",
        "coverage": cov,
        "assumptions": getattr(mod, "ASSUMPTIONS", []) if mod else [],
        "wall_s": round(wall, 3),
        "violations": len(new),
    }
    with open(os.path.join(EVIDENCE_DIR, "%s.json" % pid), "w") as f:
        json.dump(ev, f, indent=1, sort_keys=True, default=str)
        f.write("\n")


import signal as _signal
try:
    _signal.signal(_signal.SIGPIPE, _signal.SIG_DFL)      # `./check C01 | head` ends quietly
except (AttributeError, ValueError):
    pass


def main(argv=None):
    argv = list(sys.argv[1:] if argv is None else argv)
    tier = os.environ.get("VERIF_TIER") or "quick"
    seed = int(os.environ.get("VERIF_SEED", "0") or 0)
    replay = None
    pid = None
    i = 0
    while i < len(argv):
        a = argv[i]
        if a == "--tier":
            tier = argv[i + 1]
            i += 1
        elif a == "--replay":
            replay = argv[i + 1]
            i += 1
        elif a.startswith("C"):
            pid = a
        i += 1
    if replay:
        with open(replay) as f:
            rp = json.load(f)
        pid = rp["property"]
        print("REPLAY %s" % json.dumps(rp, indent=1))
    if pid not in PROPERTY_IDS:
        print("usage: check <C01..C20> [--tier quick|thorough] | --replay <file>")
        return 2
    if tier not in ("quick", "thorough"):
        tier = "quick"
    t0 = time.time()
    ctx = mod = None
    try:
        ctx, mod = run_property(pid, tier)
        known = load_known()
        known_keys = {k["key"]: k for k in known.get("findings", []) if k.get("property") == pid}
        new, hit = [], []
        for f in ctx.findings:
            (hit if f.key in known_keys else new).append(f)
        audit = None
        if tier == "thorough" and hasattr(mod, "AUDIT"):
            from . import audit as audit_mod
            audit = audit_mod.run_audit(pid, mod, ctx, seed)
        wall = time.time() - t0
        write_evidence(pid, tier, seed, ctx, mod, wall, new, hit, audit)
        print("%s %s: %d obligations over %d rules, %d discharged, %d known finding(s), %d new; "
              "%.2fs" % (pid, tier, len(ctx.obligations), len(ctx.rule_counts),
                         sum(1 for o in ctx.obligations if o[3]), len(hit), len(new), wall))
        for r in sorted(ctx.rule_counts):
            print("  rule %-8s %4d instance(s)  %s" % (r, ctx.rule_counts[r], ctx.rules.get(r, "")))
        for u in ctx.undecided:
            print("  UNDECIDED %s %s: %s" % (u["rule"], u["site"], u["why"]))
        if audit:
            print("  sensitivity audit: %d mutants applied, %d killed, %d survived" %
                  (audit["applied"], audit["killed"], audit["applied"] - audit["killed"]))
        seen = set()
        for f in hit:
            if f.key in seen:
                continue
            seen.add(f.key)
            print("KNOWN-FINDING: property=%s %s [%s]" % (pid, known_keys[f.key].get("what", f.message),
                                                          f.key))
        if new:
            os.makedirs(REPLAY_DIR, exist_ok=True)
            for n, f in enumerate(new):
                path = os.path.join(REPLAY_DIR, "%s-%d.json" % (pid, n))
                with open(path, "w") as fh:
                    json.dump(dict(f.as_dict(), property=pid, tier=tier), fh, indent=1, default=str)
                print("  %s %s %s: %s" % (f.loc or "", f.rule, f.site, f.message))
                if f.expected is not None or f.found is not None:
                    print("      expected: %s\n      found:    %s" % (f.expected, f.found))
                print("VIOLATION property=%s replay=%s" % (pid, path))
            return 1
        return 0
    except AnalysisError as e:
        wall = time.time() - t0
        print("ANALYSIS-ERROR property=%s %s" % (pid, e))
        try:
            write_evidence(pid, tier, seed, ctx, mod, wall, [], [], error=str(e))
        except Exception:
            pass
        return 2
    except Exception as e:  # a traceback must never look like a violation
        wall = time.time() - t0
        print("ANALYSIS-ERROR property=%s internal error: %r" % (pid, e))
        traceback.print_exc()
        try:
            write_evidence(pid, tier, seed, ctx, mod, wall, [], [], error=repr(e))
        except Exception:
            pass
        return 2
