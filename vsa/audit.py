"""Sensitivity audit (thorough tier): mutation operators are applied in memory, one at a time, at every applicable site of the
anchor functions of a property on the CURRENT tree; the property's rules are re-run on the overlay and must report something.

Nothing is written to /repo and nothing is executed: a mutant is a modified syntax tree, unparsed to source and handed to
``core.Program(overlay=...)``.  A surviving mutant is a weakness of the checker (listed in the evidence), never a violation."""
import ast
import copy
import importlib
import multiprocessing
import os
import random
import time

from . import core
from .core import AnalysisError, dotted

CMP_FLIP = {ast.Lt: ast.LtE, ast.LtE: ast.Lt, ast.Gt: ast.GtE, ast.GtE: ast.Gt, ast.Eq: ast.NotEq, ast.NotEq: ast.Eq}
BIN_FLIP = {ast.BitAnd: ast.BitOr, ast.BitOr: ast.BitAnd, ast.Add: ast.Sub, ast.Sub: ast.Add, ast.Mult: ast.Div, ast.Div: ast.Mult}
NAME_PAIRS = [("obs", "fcst"), ("lat", "lon"), ("lats", "lons"), ("lower", "upper"), ("a", "b"), ("c", "d"), ("b", "c"), ("p0", "p1"), ("q0", "q1"),
              ("i", "j"), ("min_lat", "min_lon"), ("max_lat", "max_lon"), ("lower_eq", "upper_eq"), ("times", "leadtimes"), ("x", "y"),
              ("Itimes", "Ileadtimes"), ("Ileadtimes", "Ilocations"), ("f", "i")]
CALL_SWAP = {"nanmean": "mean", "mean": "nanmean", "nansum": "sum", "isnan": "isinf", "sort": "unique", "min": "max", "max": "min",
             "cumsum": "sum", "utcfromtimestamp": "fromtimestamp", "intersect1d": "union1d", "floor": "ceil"}
ATTR_SWAP = {"lat": "lon", "lon": "lat", "elev": "lat", "lower": "upper", "upper": "lower", "lower_eq": "upper_eq", "upper_eq": "lower_eq",
             "times": "leadtimes", "leadtimes": "times", "thresholds": "quantiles", "quantiles": "thresholds", "obs": "fcst", "fcst": "obs",
             "threshold_scores": "quantile_scores", "month": "day", "hour": "minute"}


def _targets(prog, spec):
    """[(module, function node, qualname)] for an AUDIT spec."""
    out = []
    for qn in spec.get("functions", []):
        f = prog.func(qn, required=False)
        if f is not None:
            modname = ".".join(qn.split(".")[:2])
            out.append((prog.modules[modname], f, qn))
    if "class_methods" in spec:
        base, meth = spec["class_methods"]
        for c in prog.subclasses(base, strict=True):
            if meth in c.methods:
                out.append((c.module, c.methods[meth], c.qual + "." + meth))
    for cq in spec.get("classes", []):
        c = prog.cls(cq, required=False)
        if c is not None:
            for name, f in c.methods.items():
                out.append((c.module, f, c.qual + "." + name))
    return out


def _sites(fnode):
    """Deterministic list of (walk index, operator name, description) of mutation sites inside a function."""
    sites = []
    for k, n in enumerate(ast.walk(fnode)):
        if isinstance(n, ast.Compare) and len(n.ops) == 1 and type(n.ops[0]) in CMP_FLIP:
            sites.append((k, "cmp", "%s -> %s" % (type(n.ops[0]).__name__, CMP_FLIP[type(n.ops[0])].__name__)))
        elif isinstance(n, ast.BinOp) and type(n.op) in BIN_FLIP:
            sites.append((k, "binop", "%s -> %s" % (type(n.op).__name__, BIN_FLIP[type(n.op)].__name__)))
        elif isinstance(n, ast.BoolOp):
            sites.append((k, "boolop", "and <-> or"))
        elif isinstance(n, ast.Constant) and isinstance(n.value, (int, float)) and not isinstance(n.value, bool):
            sites.append((k, "const", "%r -> %r" % (n.value, n.value + 1)))
        elif isinstance(n, ast.Constant) and isinstance(n.value, bool):
            sites.append((k, "bool", "%r -> %r" % (n.value, not n.value)))
        elif isinstance(n, ast.Subscript) and isinstance(n.slice, ast.Tuple) and len(n.slice.elts) >= 2:
            sites.append((k, "subswap", "swap first two subscripts"))
        elif isinstance(n, ast.Call) and isinstance(n.func, ast.Attribute) and n.func.attr in CALL_SWAP:
            sites.append((k, "callswap", "%s -> %s" % (n.func.attr, CALL_SWAP[n.func.attr])))
        elif isinstance(n, ast.Attribute) and n.attr in ATTR_SWAP and not (isinstance(n.value, ast.Name) and n.value.id in ("np", "verif", "mpl")):
            sites.append((k, "attrswap", ".%s -> .%s" % (n.attr, ATTR_SWAP[n.attr])))
        elif isinstance(n, ast.Name) and isinstance(n.ctx, ast.Load):
            for a, b in NAME_PAIRS:
                if n.id == a:
                    sites.append((k, "nameswap", "%s -> %s" % (a, b)))
                    break
                if n.id == b:
                    sites.append((k, "nameswap", "%s -> %s" % (b, a)))
                    break
        elif isinstance(n, ast.Assign) and len(n.targets) == 1 and isinstance(n.targets[0], ast.Name) and isinstance(n.value, ast.BinOp) \
                and isinstance(n.value.left, ast.Name) and n.value.left.id == n.targets[0].id and isinstance(n.value.op, (ast.Add, ast.Sub, ast.Mult, ast.Div)):
            sites.append((k, "inplace", "%s = %s .. -> augmented assignment (in place)" % (n.targets[0].id, n.targets[0].id)))
        elif isinstance(n, ast.If) and len(n.body) == 1 and isinstance(n.body[0], (ast.Return, ast.Expr)) and not n.orelse:
            sites.append((k, "dropguard", "guard `if %s` removed" % ast.unparse(n.test)[:40]))
        elif isinstance(n, ast.Call) and dotted(n.func) in ("np.sort", "np.unique", "verif.util.clean", "self._clean", "self.preaggregate", "copy.deepcopy", "np.nan_to_num",
                                                             "np.array", "np.copy", "list") and n.args:
            sites.append((k, "dropcall", "%s(x) -> x" % dotted(n.func)))
    return sites


def _apply(fnode, k, op):
    """Mutate (in place) node number k of the walk of fnode; returns False when not applicable."""
    for idx, n in enumerate(ast.walk(fnode)):
        if idx != k:
            continue
        if op == "cmp":
            n.ops = [CMP_FLIP[type(n.ops[0])]()]
        elif op == "binop":
            n.op = BIN_FLIP[type(n.op)]()
        elif op == "boolop":
            n.op = ast.Or() if isinstance(n.op, ast.And) else ast.And()
        elif op == "const":
            n.value = n.value + 1
        elif op == "bool":
            n.value = not n.value
        elif op == "subswap":
            n.slice.elts[0], n.slice.elts[1] = n.slice.elts[1], n.slice.elts[0]
        elif op == "callswap":
            n.func.attr = CALL_SWAP[n.func.attr]
        elif op == "attrswap":
            n.attr = ATTR_SWAP[n.attr]
        elif op == "nameswap":
            for a, b in NAME_PAIRS:
                if n.id == a:
                    n.id = b
                    break
                if n.id == b:
                    n.id = a
                    break
        elif op == "inplace":
            new = ast.AugAssign(target=ast.Name(id=n.targets[0].id, ctx=ast.Store()), op=n.value.op, value=n.value.right)
            n.__class__ = ast.AugAssign
            n.__dict__.clear()
            n.__dict__.update(new.__dict__)
        elif op == "dropguard":
            n.test = ast.Constant(value=False)
        elif op == "dropcall":
            first = n.args[0]
            n.__class__ = first.__class__
            n.__dict__.clear()
            n.__dict__.update(first.__dict__)
        return True
    return False


def _locate(tree, lineno, name):
    for n in ast.walk(tree):
        if isinstance(n, (ast.FunctionDef, ast.AsyncFunctionDef)) and n.name == name and n.lineno == lineno:
            return n
    return None


def _run_one(job):
    pid, relpath, source, lineno, fname, k, op, baseline_keys = job
    from . import harness
    try:
        tree = ast.parse(source)
        fnode = _locate(tree, lineno, fname)
        if fnode is None or not _apply(fnode, k, op):
            return "skip"
        ast.fix_missing_locations(tree)
        try:
            new_src = ast.unparse(tree)
            ast.parse(new_src)
        except Exception:
            return "skip"
        # the mutant goes through the same pipeline as a real change: first the comparison with the reference (a mutant that
        # were wrongly judged equivalent would be analysed in reference form and survive), then the rules
        from . import refsub
        prog, _report = refsub.canonical_program(overlay={relpath: new_src}, use_cache=False)
        if prog.parse_errors:
            return "skip"
        mod = importlib.import_module("vsa.rules.%s" % pid.lower())
        ctx = harness.Ctx(prog, pid, "quick", True)
        try:
            mod.run(ctx)
        except AnalysisError:
            return "killed-analysis-error"
        keys = set(f.key for f in ctx.findings)
        if keys - set(baseline_keys):
            return "killed"
        return "survived-as-equivalent" if _report.get("substituted") else "survived"
    except Exception as e:       # an internal error on a mutant is reported, not hidden
        return "killed-internal:%s" % type(e).__name__


def run_audit(pid, mod, ctx, seed, max_mutants=None, procs=None):
    spec = getattr(mod, "AUDIT", None)
    if not spec:
        return None
    t0 = time.time()
    prog = ctx.prog
    max_mutants = max_mutants or int(os.environ.get("VSA_AUDIT_MAX", "320"))
    procs = procs or min(16, os.cpu_count() or 4)
    baseline = sorted(set(f.key for f in ctx.findings))
    jobs = []
    meta = []
    for m, f, qn in _targets(prog, spec):
        for (k, op, desc) in _sites(f):
            jobs.append((pid, m.relpath, m.source, f.lineno, f.name, k, op, baseline))
            meta.append((qn, op, desc, f.lineno))
    total_sites = len(jobs)
    rnd = random.Random(seed)
    order = list(range(len(jobs)))
    if len(order) > max_mutants:
        # stratified by operator so that every kind is represented
        byop = {}
        for i in order:
            byop.setdefault(meta[i][1], []).append(i)
        pick = []
        per = max(1, max_mutants // max(1, len(byop)))
        for op, lst in sorted(byop.items()):
            rnd.shuffle(lst)
            pick.extend(lst[:per])
        rest = [i for i in order if i not in set(pick)]
        rnd.shuffle(rest)
        pick.extend(rest[:max(0, max_mutants - len(pick))])
        order = sorted(pick)
    sel = [jobs[i] for i in order]
    if sel:
        # workers are re-forked from this process every few mutants: the interning tables of form.py then stay at baseline size
        with multiprocessing.get_context("fork").Pool(procs, maxtasksperchild=2) as pool:
            results = pool.map(_run_one, sel, chunksize=3)
    else:
        results = []
    applied = killed = 0
    survivors = []
    byop = {}
    for i, r in zip(order, results):
        if r == "skip":
            continue
        applied += 1
        qn, op, desc, line = meta[i]
        d = byop.setdefault(op, {"applied": 0, "killed": 0})
        d["applied"] += 1
        if r.startswith("killed"):
            killed += 1
            d["killed"] += 1
        else:
            survivors.append({"function": qn, "operator": op, "mutation": desc, "judged_equivalent_to_reference": r == "survived-as-equivalent"})
    n_equiv = sum(1 for s_ in survivors if s_["judged_equivalent_to_reference"])
    return {"judged_equivalent": n_equiv, "sites_found": total_sites, "applied": applied, "killed": killed, "kill_ratio": round(killed / applied, 3) if applied else None,
            "by_operator": byop, "survivors_sample": ([s_ for s_ in survivors if s_["judged_equivalent_to_reference"]][:25] + [s_ for s_ in survivors if not s_["judged_equivalent_to_reference"]][:25]), "n_survivors": len(survivors), "wall_s": round(time.time() - t0, 1),
            "note": "mutants are applied in memory to the current /repo sources (overlay), one at a time; killed = the property's rules report a new "
                    "finding or an analysis error; survivors are weaknesses of the checker or equivalent/irrelevant mutants, not violations"}
