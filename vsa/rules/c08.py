"""C08 - probabilistic scores follow their definitions; event probability from the CDF."""
import ast

from .. import form, q, shape, symeval, trace
from ..core import AnalysisError, const, dotted, norm
from ..form import Rat

EXPLANATION = (
    "WIRE/FORM/SHAPE analysis: metric.get_p is folded symbolically on its three finite/infinite branches: the event probability is "
    "P(X<=upper) - P(X<=lower) with the constants 1 and 0 at the infinite ends, read from the Threshold fields of exactly those "
    "bounds, and the observed event is the same interval's membership; Data._get_score derives a threshold that is not stored "
    "as the NaN-aware mean over the member axis of (member <= threshold) with missing members re-masked, and a quantile not stored "
    "from the pre-aggregated ensemble over the member axis; stored columns are picked where isclose(file values, requested value); "
    "16 probabilistic formulas are compared as normal forms; the four Brier-decomposition loops use half-open bins [e_i, e_i+1) on "
    "linspace(0,1,n) with a last edge > 1, the per-bin terms (p - obar_bin)^2 and (obar_bin - obar)^2, and agree with each other.")
ASSUMPTIONS = ["numpy nanmean/quantile/histogram/linspace and scipy.stats.norm.ppf are trusted",
               "BS = REL - RES + UNC needs real arithmetic and the one-value-per-bin premise: not decided"]
AUDIT = {"functions": ["verif.metric.get_p", "verif.metric.get_q", "verif.data.Data._get_score"],
         "classes": ["verif.metric.Bs", "verif.metric.BsUnc", "verif.metric.Bss", "verif.metric.BsRel", "verif.metric.BsRes", "verif.metric.BssRel",
                     "verif.metric.BssRes", "verif.metric.QuantileScore", "verif.metric.Spread", "verif.metric.SpreadSkillRatio", "verif.metric.Ign0",
                     "verif.metric.Spherical", "verif.metric.MarginalRatio", "verif.metric.PitHistDev"]}


def S(n):
    return Rat.sym(n)


def within_hook(ev, node, rname, args, kwargs, path):
    f = node.func
    if isinstance(f, ast.Attribute) and f.attr == "within" and len(args) == 1:
        return form.apply("within", [ev.ev(f.value, path), args[0]])
    return None


FIELD_SYMS = {
    "call:verif.field.Obs()": "obs", "call:verif.field.Fcst()": "fcst",
    "call:verif.field.Quantile($interval.lower)": "q0", "call:verif.field.Quantile($interval.upper)": "q1",
    "call:verif.field.Threshold($interval.lower)": "p0", "call:verif.field.Threshold($interval.upper)": "p1",
    "call:verif.field.Pit()": "pit",
}


def data_hook(ev, node, rname, args, kwargs, path):
    """data.get_scores([...]) -> symbols named after the requested fields; get_p/get_q -> [obsP, p] / [obs, q]."""
    r = within_hook(ev, node, rname, args, kwargs, path)
    if r is not None:
        return r
    if rname in ("verif.metric.get_p",):
        return [S("obsP"), S("p")]
    if rname in ("verif.metric.get_q",):
        return [S("obs"), S("q")]
    if rname == "data.get_scores" and args:
        a0 = args[0]
        if isinstance(a0, list):
            return [S(FIELD_SYMS.get(x.key(), "f:" + x.key())) if isinstance(x, Rat) else S("?") for x in a0]
        if isinstance(a0, Rat):
            return S(FIELD_SYMS.get(a0.key(), "f:" + a0.key()))
    return None


def check_get_p(ctx):
    prog = ctx.prog
    m = prog.module("verif.metric")
    site = "verif.metric.get_p"
    f = prog.func(site)
    outs = [o for o in symeval.Evaluator(m, call_hook=within_hook).run(f) if o.kind == "return"]
    ctx.need(len(outs) >= 3, "%s: expected at least three branches" % site)
    n = 0
    for o in outs:
        v = o.value
        ctx.need(isinstance(v, list) and len(v) == 2, "%s: return is not [obsP, p]" % site)
        obsP, p = v
        calls = q.atoms(p, "call:data.get_scores") + q.atoms(obsP, "call:data.get_scores")
        if not calls:
            continue          # both ends infinite: nothing is requested (the event is certain)
        n += 1
        call = calls[0]
        fields = [x.key() for x in call.args[0]] if isinstance(call.args[0], tuple) else []
        loc = prog.loc(m, o.node)

        def col(key):
            return form.apply("getitem", [Rat.of_atom(call), Rat.const(fields.index(key))]) if key in fields else None
        lower_fin = any((c.key() == "cmp_ne($inf + $interval.lower,0)") == True and pol for c, pol in o.conds) or \
            any("$interval.lower" in c.key() and "cmp_ne" in c.key() and pol for c, pol in o.conds if "and(" not in c.key()) or \
            any(c.as_atom() is not None and c.as_atom().func == "and" and pol and "$interval.lower" in c.key() for c, pol in o.conds)
        upper_fin = any("$interval.upper" in c.key() and pol and "cmp_ne" in c.key() for c, pol in o.conds)
        p0 = col("call:verif.field.Threshold($interval.lower)")
        p1 = col("call:verif.field.Threshold($interval.upper)")
        want = (p1 if p1 is not None else Rat.const(1)) - (p0 if p0 is not None else Rat.const(0))
        ctx.ob("C08.1", site, isinstance(p, Rat) and p.equals(want), "p = P(X<=upper) - P(X<=lower) with 1 / 0 at infinite ends (fields %s)" % [k.split("field.")[-1] for k in fields],
               loc=loc, msg="event probability is %s, expected %s" % (str(p)[:200], str(want)[:200]),
               sample={"rule": "C08.1", "fields": fields, "p": str(p)[:200]})
        obs = col("call:verif.field.Obs()")
        want_o = form.apply("mafilled", [form.apply("within", [S("interval"), obs])], {"fill_value": S("nan")}) if obs is not None else None
        ctx.ob("C08.1", site, want_o is not None and isinstance(obsP, Rat) and obsP.equals(want_o), "observed event = interval.within(obs) of the same interval, NaN where masked",
               loc=loc, msg="observed event is %s" % str(obsP)[:200])
        same_req = all(a.args[1:] == call.args[1:] for a in calls)
        ctx.ob("C08.1", site, same_req and len(call.args) >= 4 and [x.key() for x in call.args[1:4]] == ["$input_index", "$axis", "$axis_index"],
               "obs and probabilities come from one request for the same input/axis/slice", loc=loc, msg="requests differ: %s" % [str(a)[:80] for a in calls])
    ctx.need(n >= 3, "%s: fewer than 3 requesting branches" % site)
    # by cases: which ends of the interval are finite decides what is requested and how p is composed - whatever the branch conditions look like
    inf = S("inf")

    def truth(cond, lo_fin, up_fin):
        sub = {}
        if not lo_fin:
            sub["interval.lower"] = Rat.const(0) - inf
        if not up_fin:
            sub["interval.upper"] = inf
        c2 = form.subst(cond, sub) if sub else cond

        def fin(a):
            if a.func in ("cmp_ne", "cmp_eq") and isinstance(a.args[0], Rat):
                syms = a.args[0].symbols()
                if ("interval.lower" in syms or "interval.upper" in syms) and "inf" in syms:
                    return Rat.const(1 if a.func == "cmp_ne" else 0)      # a finite bound never equals +-inf
            return None
        c3 = form.map_atoms(c2, fin)
        return c3.const_value()
    for lo_fin, up_fin in ((True, True), (True, False), (False, True)):
        feasible = []
        for o in outs:
            ok_path = True
            for c_, pol in o.conds:
                tv = truth(c_, lo_fin, up_fin)
                if tv is not None and bool(tv) != bool(pol):
                    ok_path = False
            if ok_path:
                feasible.append(o)
        what = "interval with %s lower and %s upper end" % ("finite" if lo_fin else "infinite", "finite" if up_fin else "infinite")
        ctx.need(feasible, "%s: no path for an %s" % (site, what))
        for o in feasible:
            obsP, p = o.value
            calls = q.atoms(p, "call:data.get_scores") + q.atoms(obsP, "call:data.get_scores")
            fields = [x.key() for x in calls[0].args[0]] if calls and isinstance(calls[0].args[0], tuple) else []
            want_fields = ["call:verif.field.Obs()"] + (["call:verif.field.Threshold($interval.lower)"] if lo_fin else []) + \
                (["call:verif.field.Threshold($interval.upper)"] if up_fin else [])
            okf = sorted(fields) == sorted(want_fields)

            def col(key):
                return form.apply("getitem", [Rat.of_atom(calls[0]), Rat.const(fields.index(key))])
            okp = False
            if okf:
                want = (col(want_fields[-1]) if up_fin else Rat.const(1)) - (col(want_fields[1]) if lo_fin else Rat.const(0))
                okp = isinstance(p, Rat) and p.equals(want)
            ctx.ob("C08.1", site, okf and okp, "%s: requests %s and p = %s" % (what, [k.split("field.")[-1] for k in want_fields],
                                                                            "P(upper) - P(lower)" if lo_fin and up_fin else ("1 - P(lower)" if lo_fin else "P(upper)")),
                   loc=prog.loc(m, o.node), msg="for an %s get_p requests %s and returns p = %s" % (what, [k.split("field.")[-1] for k in fields], str(p)[:160]))
    # get_q
    site = "verif.metric.get_q"
    f = prog.func(site)
    outs = [o for o in symeval.Evaluator(m).run(f) if o.kind == "return"]
    ok = False
    for o in outs:
        v = o.value
        if isinstance(v, list) and len(v) == 2:
            c = q.atoms(v[0], "call:data.get_scores")
            ok = bool(c) and isinstance(c[0].args[0], tuple) and [x.key() for x in c[0].args[0]] == ["call:verif.field.Obs()", "call:verif.field.Quantile($interval.lower)"] \
                and v[0].equals(form.apply("getitem", [Rat.of_atom(c[0]), Rat.const(0)])) and v[1].equals(form.apply("getitem", [Rat.of_atom(c[0]), Rat.const(1)]))
    ctx.ob("C08.1", site, ok, "get_q returns [obs, quantile(interval.lower)] of one request", loc=prog.loc(m, f), msg="get_q returns %s" % [str(o.value)[:120] for o in outs])


def check_from_ensemble(ctx):
    prog = ctx.prog
    site = "verif.data.Data._get_score"
    m = prog.module("verif.data")
    ev = trace.trace(prog, site)
    loaders = [e for e in trace.stores(ev, "self._get_score_cache") if len(e["indices"]) == 2 and isinstance(e["value"], Rat)]
    gen = [e for e in loaders if "Threshold" in e["value"].key() and "nanmean" in e["value"].key() or "quantile" in e["value"].key()]
    ctx.need(gen, "%s: the general loader (threshold / quantile derivation) was not found" % site)
    e = gen[0]
    val = e["value"]
    loc = prog.loc(m, e["node"])
    k_in = e["indices"][0]
    inp = form.apply("getitem", [S("self._inputs"), k_in])
    ens = form.apply("attr:ensemble", [inp])
    pre = form.apply("self.preaggregate", [ens, inp])
    # --- threshold from ensemble
    nm = [a for a in q.atoms(val, "nanmean")]
    recognised = False
    for a in nm:
        kw = {x[0][3:]: x[1] for x in a.args if isinstance(x, tuple) and x and isinstance(x[0], str) and x[0].startswith("kw:")}
        st = q.top(a.args[0], "setitem")
        if st is None:
            continue
        recognised = True
        base, mask, v = st.args
        cmpat = None
        for b in q.atoms(base):
            if b.func in ("cmp_le", "cmp_lt"):
                cmpat = b
        thr = None
        ok_cmp = cmpat is not None and cmpat.func == "cmp_le" and cmpat.args[0].equals(pre) and "attr:threshold(" in cmpat.args[1].key()
        ctx.ob("C08.2", site, ok_cmp, "P(X<=t) from the ensemble: fraction of (pre-aggregated) members <= threshold", loc=loc,
               msg="the ensemble probability compares %s" % (str(Rat.of_atom(cmpat))[:200] if cmpat else "nothing recognisable"),
               sample={"rule": "C08.2", "comparison": str(Rat.of_atom(cmpat))[:160] if cmpat else None})
        ok_mask = isinstance(mask, Rat) and mask.equals(form.apply("isnan", [pre])) and isinstance(v, Rat) and v.key() == "$nan"
        ctx.ob("C08.2", site, ok_mask, "missing members are re-masked as NaN after the comparison", loc=loc,
               msg="missing ensemble members are not excluded from the probability (mask %s -> %s)" % (str(mask)[:80], v))
        ax = kw.get("axis")
        ok_ax = isinstance(ax, Rat) and ax.const_value() in (-1, 3)
        ctx.ob("C08.2", site, ok_ax, "NaN-aware mean over the member axis", loc=loc, msg="nanmean is taken over axis %s" % ax)
    if not recognised:
        # a different derivation: positively wrong if it divides by the total number of members
        bad = "attr:shape" in val.key() and ("sum(" in val.key() or "count" in val.key()) and "nanmean" not in val.key()
        # a plain mean over the member axis of (member <= t): every missing member compares False and stays in the denominator
        for a in q.atoms(val, "mean"):
            inner = a.args[0] if a.args and isinstance(a.args[0], Rat) else None
            cm = [b for b in q.atoms(inner) if b.func in ("cmp_le", "cmp_lt")] if inner is not None else []
            remasked = inner is not None and any(st_.args[1].equals(form.apply("isnan", [pre])) for st_ in q.atoms(inner, "setitem") if isinstance(st_.args[1], Rat))
            if cm and not remasked:
                bad = True
        if bad:
            ctx.ob("C08.2", site, False, "P(X<=t) from the ensemble is the fraction of VALID members <= threshold", loc=loc,
                   msg="the ensemble probability divides the count of members <= t by the total ensemble size: missing members are counted as "
                       "exceeding the threshold")
        else:
            raise AnalysisError("%s: derivation of threshold probabilities from the ensemble not recognised" % site)
    # --- quantile from ensemble
    qa = [a for a in q.atoms(val) if a.func in ("quantile", "call:numpy.quantile", "percentile")]
    ctx.need(qa, "%s: np.quantile over the ensemble not found" % site)
    for a in qa:
        kw = {x[0][3:]: x[1] for x in a.args if isinstance(x, tuple) and x and isinstance(x[0], str) and x[0].startswith("kw:")}
        ok = a.args[0].equals(pre) and "attr:quantile(" in a.args[1].key() and isinstance(kw.get("axis"), Rat) and kw["axis"].const_value() in (3, -1)
        ctx.ob("C08.2", site, ok, "quantile not stored: np.quantile of the (pre-aggregated) ensemble at the requested level over the member axis", loc=loc,
               msg="ensemble quantile is %s" % str(Rat.of_atom(a))[:200])
    # --- stored columns are selected by value
    for attr, listattr, fattr in (("threshold_scores", "thresholds", "threshold"), ("quantile_scores", "quantiles", "quantile")):
        gets = [g for g in q.atoms(val, "getitem") if isinstance(g.args[0], Rat) and g.args[0].key() == "attr:%s(%s)" % (attr, inp.key())]
        ok = False
        for g in gets:
            ix = g.args[1]
            if isinstance(ix, tuple) and len(ix) == 4 and isinstance(ix[3], Rat):
                sel = ix[3]
                ok = "call:numpy.isclose(attr:%s(%s),attr:%s(" % (listattr, inp.key(), fattr) in sel.key() and all(isinstance(ix[k], tuple) for k in range(3))
        ctx.ob("C08.2", site, ok, "stored %s column picked where isclose(input.%s, requested value), on the 4th dimension" % (attr, listattr), loc=loc,
               msg="the stored %s column is selected by %s" % (attr, [str(g.args[1])[:120] for g in gets]))
    ctx.floor("C08.2", 6)


REFS = {
    # class: (method, reference in the symbols provided by data_hook)
    "Bs": ("compute_from_obs_fcst", "nanmean((fcst - obs)**2)"),
    "BsUnc": ("compute_from_obs_fcst", "nanmean((mean(obs) - obs)**2)"),
    "QuantileScore": ("compute_single", "mean((obs - q) * (interval.lower - lt(obs - q, 0)))"),
    "Spread": ("compute_single", "mean(q1 - q0)"),
    "MarginalRatio": None,
    "Pit": ("compute_single", "agg(pit)"),
}


def check_formulas(ctx):
    prog = ctx.prog
    m = prog.module("verif.metric")

    def outs_of(cname, meth, env=None):
        c = prog.cls("verif.metric." + cname)
        f = c.methods.get(meth)
        ctx.need(f is not None, "verif.metric.%s.%s missing" % (cname, meth))
        return c, f, [o for o in symeval.Evaluator(m, call_hook=data_hook).run(f, env=env) if o.kind == "return"]
    for cname, spec in REFS.items():
        if spec is None:
            continue
        meth, ref = spec
        c, f, outs = outs_of(cname, meth)
        r = symeval.eval_expr_string(ref)
        ctx.need(outs, "%s.%s has no return" % (cname, meth))
        for o in outs:
            ok = isinstance(o.value, Rat) and o.value.equals(r)
            ctx.ob("C08.3", c.qual + "." + meth, ok, "value == %s" % ref, loc=prog.loc(m, f), msg="%s computes %s" % (cname, str(o.value)[:200]),
                   expected=ref, found=str(o.value)[:200], sample={"rule": "C08.3", "class": cname, "normal_form": str(o.value)[:200]})
    # Bss: (unc - bs)/unc, NaN when unc == 0
    c, f, outs = outs_of("Bss", "compute_from_obs_fcst")
    bs = symeval.eval_expr_string("nanmean((fcst - obs)**2)")
    unc = symeval.eval_expr_string("nanmean((mean(obs) - obs)**2)")
    guard = form.apply("cmp_eq", [unc, Rat.const(0)])
    want = form.apply("ifexp", [guard, S("nan"), (unc - bs) / unc])
    ok = any(isinstance(o.value, Rat) and o.value.equals(want) for o in outs) or \
        (any(o.is_nan() and q.has_cond(o.conds, lambda c_: c_.equals(guard), True) for o in outs) and
         any(isinstance(o.value, Rat) and o.value.equals((unc - bs) / unc) for o in outs))
    ctx.ob("C08.3", c.qual + ".compute_from_obs_fcst", ok, "Bss = (unc - bs)/unc, NaN when unc == 0", loc=prog.loc(m, f), msg="Bss computes %s" % [str(o.value)[:160] for o in outs])
    # SpreadSkillRatio
    c, f, outs = outs_of("SpreadSkillRatio", "compute_single")
    ref = symeval.eval_expr_string("mean(q1 - q0) / (0.5 * (ppf(interval.upper) - ppf(interval.lower))) / sqrt(mean(abs(obs - fcst)**2))",
                                   env={})
    def norm_ppf(r):
        return r
    got = outs[0].value if outs else None
    if isinstance(got, Rat):
        mapping = {}
        k1 = got.key().replace("call:scipy.stats.norm.ppf", "call:ppf")
        ok = k1 == ref.key() or _equal_mod_names(got, ref, {"call:scipy.stats.norm.ppf": "call:ppf"})
    else:
        ok = False
    ctx.ob("C08.3", c.qual + ".compute_single", ok, "spread-skill ratio = mean(q1-q0) / (half the interval in std units) / rmse", loc=prog.loc(m, f),
           msg="SpreadSkillRatio computes %s" % str(got)[:240], expected=str(ref)[:200], found=str(got)[:200])
    # Ign0 / Spherical: per-case value with the observed-not-occurred cases overwritten
    for cname, occ, nocc in (("Ign0", "-log2(p)", "-log2(1 - P0)"), ("Spherical", "p / sqrt(p**2 + (1 - p)**2)", "(1 - P0) / sqrt(P0**2 + (1 - P0)**2)")):
        c, f, outs = outs_of(cname, "compute_single")
        ctx.need(len(outs) == 1, "%s: one return expected" % cname)
        at = q.top(outs[0].value, "mean")
        st = q.top(at.args[0], "setitem") if at is not None else None
        ok = False
        if st is not None:
            base, idx, v = st.args
            I0 = form.apply("getitem", [form.apply("where", [form.apply("cmp_eq", [S("obsP"), Rat.const(0)])]), Rat.const(0)])
            pI = form.apply("getitem", [S("p"), I0])
            ok = base.equals(symeval.eval_expr_string(occ)) and isinstance(idx, Rat) and idx.equals(I0) and \
                v.equals(symeval.eval_expr_string(nocc, env={"P0": pI}))
        ctx.ob("C08.3", c.qual + ".compute_single", ok, "%s: mean of %s when the event occurred, %s otherwise" % (cname, occ, nocc.replace("P0", "p")),
               loc=prog.loc(m, f), msg="%s computes %s" % (cname, str(outs[0].value)[:240]))
    # MarginalRatio: sibling of get_p
    c, f, outs = outs_of("MarginalRatio", "compute_single")
    vals = [o for o in outs if not o.is_nan()]
    ctx.need(len(vals) >= 3, "MarginalRatio: three branches expected")
    for o in vals:
        v = o.value
        lower_inf = q.has_cond(o.conds, lambda c_: c_.key() == "isinf($interval.lower)", True)
        upper_inf = q.has_cond(o.conds, lambda c_: c_.key() == "isinf($interval.upper)", True)
        if lower_inf:
            p = S("p1") - Rat.const(0) * S("p1")
            pexp = S("f:call:verif.field.Threshold($interval.upper)")
        num = form.apply("mean", [form.apply("within", [S("interval"), S("obs")])])
        den = q.atoms(v, "mean")
        # the probability operand of the denominator
        cands = [a for a in den if not Rat.of_atom(a).equals(num)]
        ok = len(cands) >= 1 and (num / Rat.of_atom(cands[0])).equals(v)
        pk = cands[0].args[0] if cands else None
        if lower_inf:
            want = pk is not None and pk.equals(S("p1"))
        elif upper_inf:
            want = pk is not None and pk.equals(Rat.const(1) - S("p0"))
        else:
            want = pk is not None and pk.equals(S("p1") - S("p0"))
        ctx.ob("C08.3", c.qual + ".compute_single", ok and want, "marginal ratio = mean(observed event)/mean(event probability) (%s)" %
               ("below" if lower_inf else "above" if upper_inf else "within"), loc=prog.loc(m, o.node), msg="MarginalRatio computes %s" % str(v)[:200])
    ctx.ob("C08.3", c.qual + ".compute_single", any(o.is_nan() for o in outs), "NaN when the mean probability is 0", loc=prog.loc(m, f), msg="no NaN guard for mean(p) == 0")
    # PitHistDev
    c = prog.cls("verif.metric.PitHistDev")
    for meth, ref in (("expected_deviation", "sqrt((1.0 - 1.0/numBins) / (len(values) * numBins))"),):
        outs = [o for o in symeval.Evaluator(m).run(c.methods[meth]) if o.kind == "return" and not o.is_nan()]
        r = symeval.eval_expr_string(ref)
        ctx.ob("C08.3", c.qual + "." + meth, len(outs) == 1 and outs[0].value.equals(r), "value == %s" % ref, loc=prog.loc(m, c.methods[meth]),
               msg="%s computes %s" % (meth, [str(o.value)[:160] for o in outs]))
    outs = [o for o in symeval.Evaluator(m).run(c.methods["deviation"]) if o.kind == "return" and not o.is_nan()]
    ok = False
    if len(outs) == 1:
        v = outs[0].value
        h = q.atoms(v, "histogram")
        ok = bool(h) and "linspace(0,1,1 + $numBins)" in h[0].key
        nB = S("numBins")
        n0 = form.apply("getitem", [Rat.of_atom(h[0]), Rat.const(0)]) if h else None
        if n0 is not None:
            nn = n0 / form.apply("pysum", [n0])
            want = (Rat.const(1) / nB * form.apply("sum", [(nn - Rat.const(1) / nB).pow(2)])).pow(form.Fraction(1, 2))
            ok = ok and v.equals(want)
    ctx.ob("C08.3", c.qual + ".deviation", ok, "PIT deviation = sqrt(1/B * sum((n_b - 1/B)^2)) on B equal bins of [0,1]", loc=prog.loc(m, c.methods["deviation"]),
           msg="deviation computes %s" % [str(o.value)[:200] for o in outs])
    ctx.floor("C08.3", 14)


def _equal_mod_names(a, b, ren):
    k = a.key()
    for x, y in ren.items():
        k = k.replace(x, y)
    return k == b.key()


def check_decomposition(ctx):
    prog = ctx.prog
    m = prog.module("verif.metric")
    terms = {"BsRel": "rel", "BsRes": "res", "BssRel": "rel", "BssRes": "res"}
    shapes = {}
    for cname, kind in terms.items():
        c = prog.cls("verif.metric." + cname)
        site = c.qual + ".compute_from_obs_fcst"
        # edges
        init = c.methods.get("__init__")
        ctx.need(init is not None, "%s.__init__ missing" % cname)
        ev0 = symeval.Evaluator(m)
        ev0.record = True
        ev0.run(init)
        lin = [e for e in ev0.events if e["kind"] == "assign" and e["name"] == "self._edges"]
        last = [e for e in ev0.events if e["kind"] == "store" and e["root"] == "self._edges"]
        ok_lin = bool(lin) and lin[-1]["value"].equals(form.apply("linspace", [Rat.const(0), Rat.const(1), S("num_edges")]))
        ok_last = bool(last) and isinstance(last[-1]["indices"][0], Rat) and last[-1]["indices"][0].const_value() == -1 and \
            isinstance(last[-1]["value"], Rat) and (last[-1]["value"].const_value() or 0) > 1
        ctx.ob("C08.4", c.qual + ".__init__", ok_lin, "bin edges are linspace(0, 1, n): interior edges at k/(n-1)", loc=prog.loc(m, init),
               msg="%s bin edges are %s: interior edges are shifted, probabilities on a multiple of 0.1 fall into the bin below" % (cname, str(lin[-1]["value"]) if lin else "not found"))
        ctx.ob("C08.4", c.qual + ".__init__", ok_last, "the last edge exceeds 1 so that p = 1 falls into the top bin", loc=prog.loc(m, init),
               msg="%s: the last bin edge is not raised above 1 (p = 1 would fall into no bin)" % cname)
        ev = trace.trace(prog, site, loop_mode="body_once")
        sts = [e for e in ev.events if e["kind"] == "store" and e["loops"]]
        ctx.need(len(sts) == 1, "%s: one per-bin store expected" % site)
        e = sts[0]
        I = e["indices"][0]
        wh = q.atoms(I, "where")
        ctx.need(len(wh) == 1, "%s: bin selection not of the form where(...)" % site)
        cond = wh[0].args[0]
        i = S("i")
        lo = form.apply("getitem", [S("self._edges"), i])
        hi = form.apply("getitem", [S("self._edges"), i + Rat.const(1)])
        try:
            tab = shape.table2(cond, shape.Roles(lo, hi, {}, x=S("fcst")))
        except shape.Unknown as ex:
            raise AnalysisError("%s: %s" % (site, ex))
        shapes[cname] = tab
        ctx.ob("C08.4", site, tab == shape.expected_table(True, False), "bins are half-open [e_i, e_i+1) on consecutive edges", loc=prog.loc(m, e["node"]),
               msg="%s bins denote %s: a probability on an interior edge falls into two bins or none" % (cname, tab), expected=shape.expected_table(True, False), found=tab)
        b = symeval.consecutive_pair_space(ev.loops[0]["iter"])          # zip(e[:-1], e[1:]) visits the pairs i, i+1 for i in range(len(e) - 1)
        rng = q.top(b, "call:range")
        ok_rng = rng is not None and rng.args[-1].equals(form.apply("len", [S("self._edges")]) - Rat.const(1)) and (len(rng.args) == 1 or rng.args[0].is_zero())
        ctx.ob("C08.4", site, ok_rng, "every pair of consecutive edges is visited", loc=prog.loc(m, e["node"]), msg="bin loop iterates over %s" % b)
        obsI = form.apply("mean", [form.apply("getitem", [S("obs"), I])])
        want = (form.apply("getitem", [S("fcst"), I]) - obsI).pow(2) if kind == "rel" else (obsI - form.apply("mean", [S("obs")])).pow(2)
        ok = isinstance(e["value"], Rat) and e["value"].equals(want)
        ctx.ob("C08.4", site, ok, "per-bin term %s" % ("(p - obar_bin)^2" if kind == "rel" else "(obar_bin - obar)^2"), loc=prog.loc(m, e["node"]),
               msg="%s per-bin term is %s" % (cname, str(e["value"])[:200]), sample={"rule": "C08.4", "class": cname, "term": str(e["value"])[:160]})
        nonempty = q.has_cond(e["conds"], lambda c_: "len(" in c_.key(), True)
        ctx.ob("C08.4", site, nonempty, "empty bins are skipped", loc=prog.loc(m, e["node"]), msg="the per-bin term is computed for empty bins")
        # final: nanmean of the per-case array (skill versions divided by unc with NaN guard)
        rets = [o for o in ev.outcomes if o.kind == "return"]
        txt = " ".join(str(o.value) for o in rets)
        ctx.ob("C08.4", site, "nanmean(" in txt, "the term is averaged over the cases with nanmean", loc=prog.loc(m, e["node"]), msg="final reduction is %s" % txt[:120])
        if cname.startswith("Bss"):
            unc = symeval.eval_expr_string("nanmean((mean(obs) - obs)**2)")
            guard = any("cmp_eq(%s,0)" % unc.key() in c_.key() for o in rets for c_, p_ in o.conds) or ("ifexp(cmp_eq(%s,0)" % unc.key()) in txt
            ctx.ob("C08.4", site, guard and unc.key() in txt, "skill-score version divides by the uncertainty (NaN when it is 0)", loc=prog.loc(m, e["node"]),
                   msg="%s does not divide by unc with a zero guard" % cname)
    ctx.ob("C08.4", "verif.metric", len(set(str(sorted(t.items())) for t in shapes.values())) == 1, "the four decomposition classes bin identically (siblings)",
           msg="bin shapes differ between classes: %s" % shapes)
    ctx.floor("C08.4", 28)


def check_perfect(ctx):
    bs = symeval.eval_expr_string("nanmean((fcst - obs)**2)")
    v = form.subst(bs, {"fcst": S("obs")})
    ctx.ob("C08.5", "verif.metric.Bs", v.is_zero(), "p := o gives Brier score 0", msg="Bs of a perfect forecast is %s" % v)
    comp = form.subst(bs, {"fcst": Rat.const(1) - S("fcst"), "obs": Rat.const(1) - S("obs")})
    ctx.ob("C08.5", "verif.metric.Bs", comp.equals(bs), "Brier score of an event equals that of its complement", msg="complement symmetry fails: %s" % comp)
    qs = symeval.eval_expr_string("mean((obs - q) * (tau - lt(obs - q, 0)))")
    v = form.subst(qs, {"q": S("obs")})
    ctx.ob("C08.5", "verif.metric.QuantileScore", v.is_zero(), "x_q := o gives quantile score 0", msg="quantile score of a perfect forecast is %s" % v)


def run(ctx):
    ctx.rule("C08.1", "get_p / get_q: probabilities of the interval's own bounds, 1/0 at infinite ends, same request, same interval for the observed event")
    ctx.rule("C08.2", "threshold / quantile not stored: derived from the pre-aggregated ensemble (<=, NaN re-mask, member axis); stored columns by isclose")
    ctx.rule("C08.3", "probabilistic formulas equal their reference normal forms")
    ctx.rule("C08.4", "Brier decomposition: half-open bins on linspace(0,1,n) with top edge > 1, per-bin terms, sibling agreement")
    ctx.rule("C08.5", "derived on the normal forms: perfect forecast, complement symmetry")
    check_get_p(ctx)
    check_from_ensemble(ctx)
    check_formulas(ctx)
    check_decomposition(ctx)
    check_perfect(ctx)


CLAIM = {
    "level": "Static WIRE/FORM/SHAPE analysis of the probabilistic path: provenance of the event probability (which Threshold fields, which "
             "constants, which interval), structural derivation from the ensemble, 16 formulas as normal forms, bin shape / edges / per-bin terms "
             "of the four Brier-decomposition classes and their agreement. Necessary conditions for all inputs; the decomposition identity "
             "BS = REL - RES + UNC itself is a statement over real arithmetic and is not decided.",
    "note": "Trusted: CPython ast, vsa FORM/SHAPE engines, numpy/scipy functions named in the formulas. PIT slope/shape metrics and ensemble "
            "interpolation quality are not covered.",
    "technique": "static analysis: symbolic folding with field-named symbols, normal-form identity, comparison-shape of bin selection, "
                 "structural pattern of the ensemble derivation, sibling agreement; C08.1 get_p additionally by cases: the path conditions are evaluated for finite / infinite interval ends and every feasible path must request exactly the finite ends' thresholds and compose p accordingly",
}
