"""C19 - documented metric/axis/output combinations never crash (structural causes of crashes)."""
import ast
import re
import importlib

from .. import q, symeval, boolq
from ..form import Rat
from .. import trace as T
from ..core import AnalysisError, const, dotted, norm, calls_in, call_name, parent_map

EXPLANATION = (
    "API/EXH/rank analysis of the structural causes of unhandled exceptions: (1) every attribute chain rooted at an imported "
    "third-party module (numpy, scipy, matplotlib, netCDF4, datetime, ...) in verif/ and scripts/ is resolved against the INSTALLED "
    "library with importlib/getattr - the library is only inspected, the program is not run; (2) no 1-D result of Metric.compute "
    "is stored into a scalar slot or %-formatted (NumPy >= 2 raises); (3) every valid metric class reaches an implemented "
    "compute_single / _compute_from_obs_fcst / compute_from_abcd through its MRO, every aggregator implements __call__, and the "
    "default virtuals of Output are explanatory no-return errors (unsupported output types exit non-zero instead of crashing); "
    "(4) the capability flags the driver gates on exist on every Output and metric class; (5) a variable that may be None (the "
    "metric object for special diagrams) is only dereferenced under a not-None guard; a block guarded by len(X) > 0 uses X "
    "(guard/use contradiction); (6) text and csv writers handle the same axis cases.")
ASSUMPTIONS = ["the libraries installed in /venv are the ones the program runs against", "data-dependent exceptions and the full 15 000-combination "
               "matrix are not decided"]
AUDIT = {"functions": ["verif.driver.run", "verif.util.nanpercentile", "verif.output.Standard._get_x_y", "verif.output.Output.csv", "verif.output.Output.text"]}

THIRD_PARTY = {"numpy", "scipy", "matplotlib", "netCDF4", "datetime", "calendar", "copy", "re", "os", "sys", "inspect", "textwrap", "argparse",
               "time", "csv", "six", "past", "builtins"}
OPTIONAL = {"cartopy"}


def resolve_chain(chain):
    """Resolve 'numpy.ma.sum' against the installed libraries. Returns (ok, detail)."""
    parts = chain.split(".")
    try:
        obj = importlib.import_module(parts[0])
    except Exception as e:
        return False, "module %s cannot be imported (%s)" % (parts[0], e)
    cur = parts[0]
    for p in parts[1:]:
        if hasattr(obj, p):
            obj = getattr(obj, p)
            cur += "." + p
            continue
        try:
            obj = importlib.import_module(cur + "." + p)
            cur += "." + p
            continue
        except Exception:
            return False, "%s has no attribute %s" % (cur, p)
    return True, cur


def check_api(ctx):
    prog = ctx.prog
    n = 0
    cache = {}
    for mn, m in sorted(prog.modules.items()):
        roots = {}
        for alias, target in m.aliases.items():
            root = target.split(".")[0]
            if root in THIRD_PARTY or root in OPTIONAL:
                roots[alias] = target
        # attribute chains: maximal Name.Attribute... rooted at an alias
        pm = parent_map(m.tree)
        for node in ast.walk(m.tree):
            if not isinstance(node, ast.Attribute) or isinstance(pm.get(node), ast.Attribute):
                continue
            d = dotted(node)
            if d is None:
                continue
            head = d.split(".")[0]
            if head not in roots:
                continue
            # a local variable shadowing the alias?  (function parameters / assignments named like the alias)
            chain = roots[head] + d[len(head):]
            root = chain.split(".")[0]
            if root in OPTIONAL:
                try:
                    importlib.import_module(root)
                except Exception:
                    continue
            # attribute chains continue into instance attributes (np.zeros(..).shape is not a Name chain, so fine); datetime objects:
            # datetime.datetime.utcfromtimestamp is a chain; `datetime.datetime(y, m, d).timetuple` is not (Call in between)
            if chain not in cache:
                cache[chain] = resolve_chain(chain)
            ok, detail = cache[chain]
            n += 1
            ctx.ob("C19.1", mn, ok, "library reference %s exists" % chain, loc=prog.loc(m, node),
                   msg="%s does not exist in the installed library (%s): every run that reaches this line ends in AttributeError" % (chain, detail),
                   nontrivial=ok is False or n % 40 == 0, sample={"rule": "C19.1", "reference": chain, "exists": ok} if n % 100 == 0 else None)
    ctx.floor("C19.1", 1200)
    ok, _ = resolve_chain("numpy.in1d")
    ok2, _ = resolve_chain("numpy.isin")
    ctx.control("C19.1", (not ok) and ok2, "control: numpy.in1d is absent and numpy.isin present in the installed NumPy")


def check_rank(ctx):
    """A 1-D array (Metric.compute result) must not be stored into an element slot or %-formatted."""
    prog = ctx.prog
    n = 0
    for qual, m, c, f in prog.all_functions(["verif.output", "verif.driver", "verif.metric"]):
        one_d = set()
        for st in ast.walk(f):
            if isinstance(st, ast.Assign) and len(st.targets) == 1 and isinstance(st.targets[0], ast.Name):
                src = norm(st.value)
                if ("np.zeros(" in src and "np.zeros([" not in src):
                    one_d.add(st.targets[0].id)
        for st in ast.walk(f):
            if isinstance(st, ast.Assign) and len(st.targets) == 1 and isinstance(st.targets[0], ast.Subscript):
                t = st.targets[0]
                if isinstance(t.value, ast.Name) and t.value.id in one_d and isinstance(t.slice, (ast.Name, ast.Constant)):
                    v = st.value
                    is_compute = isinstance(v, ast.Call) and isinstance(v.func, ast.Attribute) and v.func.attr == "compute"
                    n += 1
                    ctx.ob("C19.2", qual, not is_compute, "element store %s receives a scalar" % norm(t), loc=prog.loc(m, st),
                           msg="%s = %s stores the 1-D result of Metric.compute into a scalar slot: NumPy >= 2 raises 'setting an array element with a sequence'"
                               % (norm(t), norm(v)[:60]), nontrivial=is_compute or n % 10 == 0)
            if isinstance(st, ast.BinOp) and isinstance(st.op, ast.Mod) and isinstance(st.left, ast.Constant) and isinstance(st.left.value, str):
                names = [nm.id for nm in ast.walk(st.right) if isinstance(nm, ast.Name)]
                for nm in names:
                    defs = [a for a in ast.walk(f) if isinstance(a, ast.Assign) and len(a.targets) == 1 and dotted(a.targets[0]) == nm]
                    bad = [a for a in defs if isinstance(a.value, ast.Call) and isinstance(a.value.func, ast.Attribute) and a.value.func.attr == "compute"]
                    if bad and len(bad) == len(defs):
                        ctx.ob("C19.2", qual, False, "%%-format of %s receives a scalar" % nm, loc=prog.loc(m, st),
                               msg="'%s' %% %s formats the 1-D result of Metric.compute: TypeError under NumPy >= 2" % (st.left.value[:20], nm))
    ctx.floor("C19.2", 20)


def _is_stub(fdef):
    body = [s for s in fdef.body if not (isinstance(s, ast.Expr) and isinstance(s.value, ast.Constant))]
    return len(body) == 1 and isinstance(body[0], ast.Raise)


def check_hooks(ctx):
    prog = ctx.prog
    mm = prog.module("verif.metric")
    for c in sorted(mm.classes.values(), key=lambda c: c.name):
        if not prog.is_subclass(c, "verif.metric.Metric") or prog.attr_const(c, "description") is None:
            continue
        hit = prog.lookup_method(c, "compute_single")
        ok = hit is not None and not _is_stub(hit[1])
        ctx.ob("C19.3", c.qual, ok, "metric %s implements compute_single (via %s)" % (c.name, hit[0].name if hit else "-"), loc=prog.loc(mm, c.node),
               msg="valid metric %s has no implemented compute_single: -m %s raises NotImplementedError" % (c.name, c.name.lower()))
        for base, hook in (("verif.metric.ObsFcstBased", "_compute_from_obs_fcst"), ("verif.metric.Contingency", "compute_from_abcd")):
            if prog.is_subclass(c, base):
                h = prog.lookup_method(c, hook)
                ctx.ob("C19.3", c.qual, h is not None and not _is_stub(h[1]), "%s implements %s" % (c.name, hook), loc=prog.loc(mm, c.node),
                       msg="%s inherits the NotImplementedError stub of %s" % (c.name, hook))
    am = prog.module("verif.aggregator")
    for c in am.classes.values():
        if prog.is_subclass(c, "verif.aggregator.Aggregator") and c.name != "Aggregator":
            h = prog.lookup_method(c, "__call__")
            ctx.ob("C19.3", c.qual, h is not None and not _is_stub(h[1]), "aggregator %s implements __call__" % c.name, msg="aggregator %s has no __call__" % c.name)
    om = prog.module("verif.output")
    base = prog.cls("verif.output.Output")
    for name in ("_plot_core", "_map_core", "_plot_rank_core", "_plot_impact_core", "_plot_mapimpact_core", "_get_x_y"):
        f = base.methods.get(name)
        ok = f is not None and any(call_name(om, k) == "verif.util.error" for k in calls_in(f)) and not any(isinstance(s, ast.Raise) for s in ast.walk(f))
        ctx.ob("C19.3", "verif.output.Output." + name, ok, "default %s is an explanatory no-return error" % name, loc=prog.loc(om, f or base.node),
               msg="Output.%s is not a verif.util.error(...) stub: an unsupported output type would crash or do nothing silently" % name)
    # the five entry points call the virtuals
    for entry, virt in (("plot", "_plot_core"), ("map", "_map_core"), ("plot_rank", "_plot_rank_core"), ("plot_impact", "_plot_impact_core"), ("plot_mapimpact", "_plot_mapimpact_core"),
                        ("text", "_get_x_y"), ("csv", "_get_x_y")):
        f = base.methods.get(entry)
        ok = False
        if f is not None:
            # by value: on every path to a normal exit the folded entry point makes the call self.<virtual>(...) - directly, through a
            # helper that did not exist on the reference tree (inlined), or through a local name bound to the bound method
            ev = T.trace(prog, "verif.output.Output." + entry)
            cs = [e for e in T.calls(ev) if e["name"] == "self." + virt]
            ok = bool(cs)
        ctx.ob("C19.3", "verif.output.Output." + entry, ok, "%s() dispatches to %s" % (entry, virt), msg="Output.%s no longer calls %s" % (entry, virt))


def check_flags(ctx):
    prog = ctx.prog
    om = prog.module("verif.output")
    mm = prog.module("verif.metric")
    for c in om.classes.values():
        if prog.is_subclass(c, "verif.output.Output"):
            for flag in ("supports_x", "supports_threshold", "supports_field", "supports_acc", "require_threshold_type", "default_axis", "default_bin_type"):
                ctx.ob("C19.4", c.qual, prog.lookup_attr(c, flag) is not None, "%s defines %s" % (c.name, flag), msg="%s lacks the capability flag %s the driver reads" % (c.name, flag),
                       nontrivial=False)
    for c in mm.classes.values():
        if prog.is_subclass(c, "verif.metric.Metric"):
            for flag in ("supports_threshold", "supports_field", "supports_aggregator", "require_threshold_type", "default_axis", "perfect_score", "orientation",
                         "min_num_thresholds", "max_num_thresholds"):
                ctx.ob("C19.4", c.qual, prog.lookup_attr(c, flag) is not None, "%s defines %s" % (c.name, flag), msg="%s lacks %s" % (c.name, flag), nontrivial=False)
    # the gates of the driver, by value: the statements of run() that read the capability flag are folded with the requested axis
    # fixed; the axis that survives must be `None if <gate> else <the requested axis>` with <gate> propositionally equal to the
    # documented one - however the test is spelled (one condition, nested ifs, De Morgan'd)
    run_f = prog.func("verif.driver.run")
    run = norm(run_f)
    dm = prog.module("verif.driver")
    last_pl = max([i for i, st in enumerate(run_f.body) if any(isinstance(n, ast.Name) and n.id == "pl" and isinstance(n.ctx, ast.Store) for n in ast.walk(st))] or [-1])
    for attr, axis_src, want, what in (
            ("supports_x", "axis0", "axis0 is not None and not pl.supports_x", "-x is ignored for outputs that do not support it"),
            ("supports_threshold", "verif.axis.Threshold()", "not pl.supports_threshold or (m is not None and not m.supports_threshold)", "-x threshold is gated by supports_threshold"),
            ("supports_field", "verif.axis.Obs()", "not pl.supports_field or (m is not None and not m.supports_field)", "-x obs is gated by supports_field"),
            ("supports_field", "verif.axis.Fcst()", "not pl.supports_field or (m is not None and not m.supports_field)", "-x fcst is gated by supports_field")):
        keep = [st for st in run_f.body[last_pl + 1:] if any(isinstance(n, ast.Attribute) and n.attr == attr for n in ast.walk(st))]
        ok, found = False, "no statement of run() reads %s" % attr
        if keep:
            ev = symeval.Evaluator(dm)
            ev.merge_ifs = True
            try:
                axv = ev.ev(ast.parse(axis_src, mode="eval").body, symeval.Path({"axis0": Rat.sym("axis0")}, []))
                env = {"axis": axv, "axis0": Rat.sym("axis0")}
                live = ev.run_stmts(keep, env=dict(env))
                wantv = ev.ev(ast.parse(want, mode="eval").body, symeval.Path(dict(env), []))
                if len(live) == 1 and isinstance(live[0].env.get("axis"), Rat):
                    got = live[0].env["axis"]
                    found = got.key()[:300]
                    at = got.as_atom()
                    if at is not None and at.func == "ifexp" and len(at.args) == 3 and at.args[1].key() == "$None" and at.args[2].equals(axv):
                        ok = boolq.equivalent(boolq.prop(at.args[0]), boolq.prop(wantv))
                    elif at is not None and at.func == "ifexp" and len(at.args) == 3 and at.args[2].key() == "$None" and at.args[1].equals(axv):
                        ok = boolq.equivalent(("not", boolq.prop(at.args[0])), boolq.prop(wantv))
            except (symeval.Undecided, AnalysisError, boolq.TooBig, RecursionError) as e:
                found = "not foldable: %r" % (e,)
        ctx.ob("C19.4", "verif.driver.run", ok, what, msg="the capability gate `%s` is gone or changed: with axis %s the axis becomes %s" % (want, axis_src, found),
               expected="None if %s else %s" % (want, axis_src), found=found)
    ctx.ob("C19.4", "verif.driver.run", "if pl.supports_acc:" in run, "-acc is gated by supports_acc", msg="the capability gate `if pl.supports_acc:` is gone or changed")
    ctx.ob("C19.4", "verif.driver.run", "verif.util.error('Type not understood')" in run, "an unknown -type stops with an error", msg="unknown -type is no longer rejected")


def check_none_deref(ctx):
    """`m` (the metric object) is None for the special diagrams: attribute access only under a not-None guard or in the branch that created it."""
    prog = ctx.prog
    site = "verif.driver.run"
    mod = prog.module("verif.driver")
    f = prog.func(site)
    pm = parent_map(f)
    none_assign = [st for st in ast.walk(f) if isinstance(st, ast.Assign) and dotted(st.targets[0]) == "m" and const(st.value, 0) is None and isinstance(st.value, ast.Constant)]
    if not none_assign:
        ctx.note("driver.run: `m = None` not found; None-dereference rule not applicable")
        return
    start = none_assign[0].lineno
    n = 0
    for node in ast.walk(f):
        if isinstance(node, ast.Attribute) and isinstance(node.value, ast.Name) and node.value.id == "m" and node.lineno > start:
            # guarded?
            guarded = False
            cur = node
            while cur in pm:
                par = pm[cur]
                if isinstance(par, ast.If):
                    t = norm(par.test)
                    in_body = any(cur is s or any(cur is x for x in ast.walk(s)) for s in par.body)
                    if in_body and ("m is not None" in t):
                        guarded = True
                    if in_body and "m is None" in t and "m is not None" not in t:
                        # `if m is None: m = ...` re-binds
                        guarded = guarded or any(isinstance(s, ast.Assign) and dotted(s.targets[0]) == "m" for s in par.body)
                    if not in_body and any(isinstance(s, ast.Assign) and dotted(s.targets[0]) == "m" and not (isinstance(s.value, ast.Constant) and s.value.value is None)
                                           for s in par.body) is False:
                        pass
                if isinstance(par, ast.BoolOp) and isinstance(par.op, ast.And):
                    idx = par.values.index(cur) if cur in par.values else None
                    if idx is not None and any("m is not None" in norm(v) for v in par.values[:idx]):
                        guarded = True
                if isinstance(par, ast.BoolOp) and isinstance(par.op, ast.Or):
                    idx = par.values.index(cur) if cur in par.values else None
                    if idx is not None and any(norm(v) == "m is None" for v in par.values[:idx]):
                        guarded = True
                cur = par
            # inside the branch where m was created (the standard-plot else branch)
            if not guarded:
                cur = node
                while cur in pm:
                    par = pm[cur]
                    for blk in ("body", "orelse"):
                        stmts = getattr(par, blk, None)
                        if isinstance(stmts, list) and any(cur is s or any(cur is x for x in ast.walk(s)) for s in stmts):
                            before = [s for s in stmts if s.lineno <= node.lineno]
                            if any(isinstance(a, ast.Assign) and dotted(a.targets[0]) == "m" and not (isinstance(a.value, ast.Constant) and a.value.value is None)
                                   for s in before for a in ast.walk(s)) and not isinstance(par, ast.FunctionDef):
                                guarded = True
                    cur = par
            n += 1
            ctx.ob("C19.5", site, guarded, "m.%s is only evaluated when the metric object exists" % node.attr, loc=prog.loc(mod, node),
                   msg="m.%s is evaluated although m is None for every special diagram (-m obsfcst, qq, scatter, ...): AttributeError instead of output or an error message" % node.attr)
    ctx.need(n >= 8, "driver.run: fewer than 8 uses of the metric object found")


def check_guard_use(ctx):
    """`if len(X) > 0:` guards a computation on X; a guard on another variable leaves the empty case unprotected."""
    prog = ctx.prog
    n = 0
    for qual, m, c, f in prog.all_functions(["verif.util", "verif.metric", "verif.data"]):
        for node in ast.walk(f):
            if isinstance(node, ast.If) and isinstance(node.test, ast.Compare) and isinstance(node.test.left, ast.Call) and dotted(node.test.left.func) == "len" \
                    and len(node.test.ops) == 1 and isinstance(node.test.ops[0], (ast.Gt, ast.GtE, ast.NotEq)) and const(node.test.comparators[0]) in (0, 1):
                arg = node.test.left.args[0]
                if not isinstance(arg, ast.Name):
                    continue
                used = any(isinstance(x, ast.Name) and x.id == arg.id for s in node.body for x in ast.walk(s))
                reducers = any(isinstance(k, ast.Call) and (call_name(m, k) or "") in ("numpy.percentile", "numpy.median", "numpy.min", "numpy.max", "numpy.mean")
                               for s in node.body for k in ast.walk(s))
                if reducers:
                    n += 1
                    # the emptiness of X[J] is decided by the index array J (from np.where), not by X
                    where_defs = set()
                    for a_ in ast.walk(f):
                        if isinstance(a_, ast.Assign) and len(a_.targets) == 1 and isinstance(a_.targets[0], ast.Name) and "np.where(" in norm(a_.value):
                            where_defs.add(a_.targets[0].id)
                    for s_ in node.body:
                        for k in ast.walk(s_):
                            if isinstance(k, ast.Call) and (call_name(m, k) or "") in ("numpy.percentile", "numpy.median", "numpy.min", "numpy.max", "numpy.mean") and k.args:
                                op = k.args[0]
                                if isinstance(op, ast.Subscript) and isinstance(op.slice, ast.Name) and op.slice.id in where_defs and op.slice.id != arg.id:
                                    used = False
                    ctx.ob("C19.5", qual, used, "the block guarded by len(%s) > 0 operates on %s" % (arg.id, arg.id), loc=prog.loc(m, node),
                           msg="the guard tests len(%s) but the guarded reduction does not use %s: the really empty case is unprotected (IndexError on an all-missing field)" % (arg.id, arg.id))
    ctx.need(n >= 1, "no len()-guarded reductions found")


EMPTY_RAISING = {"numpy.nanmax", "numpy.nanmin", "numpy.max", "numpy.min", "numpy.amax", "numpy.amin", "numpy.argmax", "numpy.argmin",
                 "numpy.nanargmax", "numpy.nanargmin", "max", "min"}
SCALAR_MAKERS = ("nanmax", "nanmin", "max", "min", "mean", "nanmean", "sum", "nansum", "len", "median", "nanmedian")


def diff_reductions(tree, resolve):
    """[(call node, guarded)] for min/max-like reductions whose operand contains np.diff(X) (directly or through a local bound to it):
    np.diff of a one-element dimension list is empty and the reduction raises ValueError.  Guarded = enclosed in (or preceded by an exit
    under) a test of len(...) / .size that mentions X or the diff."""
    out = []
    for f in [n for n in ast.walk(tree) if isinstance(n, (ast.FunctionDef, ast.Lambda))] or [tree]:
        diffs = {}
        for a in ast.walk(f):
            if isinstance(a, ast.Assign) and len(a.targets) == 1 and isinstance(a.targets[0], ast.Name):
                for k in ast.walk(a.value):
                    if isinstance(k, ast.Call) and resolve(k) == "numpy.diff" and k.args:
                        diffs.setdefault(a.targets[0].id, set()).update(x.id for x in ast.walk(k.args[0]) if isinstance(x, ast.Name))
        pm = parent_map(f)
        for k in ast.walk(f):
            if not (isinstance(k, ast.Call) and resolve(k) in EMPTY_RAISING and k.args):
                continue
            names = set()
            for x in ast.walk(k.args[0]):
                if isinstance(x, ast.Call) and resolve(x) == "numpy.diff" and x.args:
                    names |= {y.id for y in ast.walk(x.args[0]) if isinstance(y, ast.Name)} | {"<diff>"}
                if isinstance(x, ast.Name) and x.id in diffs:
                    names |= diffs[x.id] | {x.id}
            if not names:
                continue

            def tests(test):
                for c_ in ast.walk(test):
                    if isinstance(c_, ast.Call) and dotted(c_.func) == "len" and c_.args and any(isinstance(y, ast.Name) and y.id in names for y in ast.walk(c_.args[0])):
                        return True
                    if isinstance(c_, ast.Attribute) and c_.attr in ("size", "shape") and isinstance(c_.value, ast.Name) and c_.value.id in names:
                        return True
                return False
            guarded = False
            cur = k
            while cur is not None and not guarded:
                par = pm.get(cur)
                if isinstance(par, (ast.If, ast.IfExp)) and tests(par.test):
                    guarded = True
                if isinstance(par, ast.Try):
                    guarded = guarded or any(h.type is None or "ValueError" in norm(h.type) or norm(h.type) == "Exception" for h in par.handlers)
                for fld in ("body", "orelse"):
                    b = getattr(par, fld, None)
                    if isinstance(b, list) and cur in b:
                        for st in b[:b.index(cur)]:
                            if isinstance(st, ast.If) and tests(st.test) and st.body and isinstance(st.body[-1], (ast.Return, ast.Continue, ast.Raise, ast.Expr)):
                                guarded = True
                cur = par
            out.append((k, guarded))
    return out


def check_diff_reductions(ctx):
    prog = ctx.prog
    ctl = ast.parse("def f(lt):\n    a = np.min(np.diff(lt))\n    d = np.diff(lt)\n    b = max(d)\n    if len(lt) > 1:\n        c = np.min(np.diff(lt))\n    return a\n")
    r = diff_reductions(ctl, lambda k: {"np.min": "numpy.min", "np.diff": "numpy.diff", "max": "max"}.get(dotted(k.func)))
    ctx.control("C19.5", [g for _, g in r] == [False, False, True], "a min/max over np.diff(list) is reported unless a length test on the list guards it")
    n = 0
    for name in sorted(prog.modules):
        m = prog.modules[name]
        hits = diff_reductions(m.tree, lambda k, m=m: call_name(m, k) or dotted(k.func))
        bad = [k for k, g in hits if not g]
        n += 1
        ctx.ob("C19.5", name, not bad, "no min/max-like reduction over np.diff(...) of a list that may have a single element (%d site(s))" % len(hits),
               loc=prog.loc(m, bad[0]) if bad else None,
               msg="%s raises ValueError when the differenced list has one element (one lead time, one date, one threshold - all legitimate): "
                   "np.diff is then empty and no length test guards the call" % (norm(bad[0])[:80] if bad else ""))


def input_column_sites(tree):
    """[(node, k, guarded)]: subscripts M[:, k] / M[..., k] with a literal k >= 1 of a matrix M that has one column per input (element 1 of
    what self._get_x_y(...) returns).  Column k exists only when the dataset has more than k inputs; guarded = inside an `if` (or after an
    exit under an `if`) whose test mentions the number of inputs (F, num_inputs)."""
    out = []
    for f in [n for n in ast.walk(tree) if isinstance(n, ast.FunctionDef)]:
        mats = set()
        n_names = {"F", "num_inputs"}
        for a in ast.walk(f):
            if isinstance(a, ast.Assign) and isinstance(a.value, ast.Call) and isinstance(a.value.func, ast.Attribute) and a.value.func.attr == "_get_x_y":
                for t in a.targets:
                    if isinstance(t, (ast.Tuple, ast.List)) and len(t.elts) >= 2 and isinstance(t.elts[1], ast.Name):
                        mats.add(t.elts[1].id)
            if isinstance(a, ast.Assign) and len(a.targets) == 1 and isinstance(a.targets[0], ast.Name) and \
                    any(isinstance(x, ast.Attribute) and x.attr == "num_inputs" for x in ast.walk(a.value)):
                n_names.add(a.targets[0].id)
        if not mats:
            continue
        pm = parent_map(f)

        def mentions_n(test):
            return any((isinstance(x, ast.Name) and x.id in n_names) or (isinstance(x, ast.Attribute) and x.attr == "num_inputs") for x in ast.walk(test))
        for n in ast.walk(f):
            if not (isinstance(n, ast.Subscript) and isinstance(n.value, ast.Name) and n.value.id in mats and isinstance(n.slice, ast.Tuple) and len(n.slice.elts) == 2):
                continue
            k = const(n.slice.elts[1])
            if not (isinstance(k, int) and not isinstance(k, bool) and k >= 1):
                continue
            guarded = False
            cur = n
            while cur is not None and not guarded:
                par = pm.get(cur)
                if isinstance(par, (ast.If, ast.IfExp)) and mentions_n(par.test):
                    guarded = True
                for fld in ("body", "orelse"):
                    b = getattr(par, fld, None)
                    if isinstance(b, list) and cur in b:
                        for st in b[:b.index(cur)]:
                            if isinstance(st, ast.If) and mentions_n(st.test) and st.body and isinstance(st.body[-1], (ast.Return, ast.Raise, ast.Expr, ast.Continue)):
                                guarded = True
                cur = par
            out.append((n, k, guarded))
    return out


def check_input_columns(ctx):
    """C19.8: -type rank / impact style code that addresses the column of the SECOND input literally must not run for a single input."""
    prog = ctx.prog
    ctl = ast.parse("class A:\n def f(self, data):\n  F = data.num_inputs\n  x, y, a, b, c = self._get_x_y(data, ax)\n  d = y[:, 0] - y[:, 1]\n  if F > 1:\n   e = y[:, 1]\n  return d\n")
    r = input_column_sites(ctl)
    ctx.control("C19.8", [g for _, _, g in r] == [False, True], "a literal second column of the per-input matrix is reported unless a test on the number of inputs guards it")
    m = prog.module("verif.output")
    sites = input_column_sites(m.tree)
    bad = [(n, k) for n, k, g in sites if not g]
    ctx.ob("C19.8", "verif.output", not bad, "every literal column k >= 1 of a per-input score matrix is addressed only when there are more than k inputs (%d site(s))" % len(sites),
           loc=prog.loc(m, bad[0][0]) if bad else None,
           msg="%s addresses the column of input %d of the matrix returned by _get_x_y without a test on the number of inputs: with a single input file the "
               "program ends in an unhandled IndexError" % (norm(bad[0][0]) if bad else "", bad[0][1] if bad else 0))


def check_empty_reductions(ctx):
    """np.nanmax/np.max/... raise ValueError on an empty array.  When their operand was subset by an np.where selection I, the call
    must be protected by an emptiness test on I (or on something subset by I) that exits or encloses the call; a test on the
    unselected array does not protect it."""
    prog = ctx.prog
    n = 0
    for qual, m, c, f in prog.all_functions(["verif.output", "verif.metric", "verif.util", "verif.data"]):
        where_defs = set()
        for a in ast.walk(f):
            if isinstance(a, ast.Assign) and len(a.targets) == 1 and isinstance(a.targets[0], ast.Name) and \
                    any(isinstance(k, ast.Call) and call_name(m, k) == "numpy.where" for k in ast.walk(a.value)):
                where_defs.add(a.targets[0].id)
        if not where_defs:
            continue
        assigns = sorted((a for a in ast.walk(f) if isinstance(a, ast.Assign) and len(a.targets) == 1 and isinstance(a.targets[0], ast.Name)), key=lambda a: a.lineno)
        derived = {}
        derived_at = {}           # name -> line of the first statement that makes it a subset
        for _ in range(3):
            for a in assigns:
                t = a.targets[0].id
                if isinstance(a.value, ast.Call) and (call_name(m, a.value) or dotted(a.value.func) or "").split(".")[-1] in SCALAR_MAKERS:
                    continue
                srcs = set()
                for x in ast.walk(a.value):
                    if isinstance(x, ast.Subscript):
                        srcs |= {y.id for y in ast.walk(x.slice) if isinstance(y, ast.Name) and y.id in where_defs}
                    if isinstance(x, ast.Name) and x.id in derived and x.id != t:
                        srcs |= derived[x.id]
                if srcs:
                    derived.setdefault(t, set()).update(srcs)
                    derived_at.setdefault(t, a.lineno)
        pm = parent_map(f)
        for k in ast.walk(f):
            if not (isinstance(k, ast.Call) and (call_name(m, k) or dotted(k.func) or "") in EMPTY_RAISING and k.args):
                continue
            srcs = set()
            for x in ast.walk(k.args[0]):
                if isinstance(x, ast.Name) and x.id in derived:
                    srcs |= derived[x.id]
                if isinstance(x, ast.Subscript):
                    srcs |= {y.id for y in ast.walk(x.slice) if isinstance(y, ast.Name) and y.id in where_defs}
            if not srcs:
                continue
            names = set(srcs) | {d for d, s_ in derived.items() if s_ & srcs}

            def is_sel(x, line):
                # the name denotes the selection (or an array already subset by it) at that line
                return isinstance(x, ast.Name) and x.id in names and (x.id in where_defs or derived_at.get(x.id, 10 ** 9) < line)

            def tests_selection(test):
                for cmp_ in ast.walk(test):
                    if isinstance(cmp_, ast.Call) and dotted(cmp_.func) == "len" and cmp_.args and any(is_sel(x, test.lineno) for x in ast.walk(cmp_.args[0])):
                        return True
                    if isinstance(cmp_, ast.Attribute) and cmp_.attr == "size" and is_sel(cmp_.value, test.lineno):
                        return True
                return False
            guarded = False
            cur = k
            while cur is not None and not guarded:
                par = pm.get(cur)
                if isinstance(par, ast.If) and cur in par.body and tests_selection(par.test):
                    guarded = True
                for fld in ("body", "orelse"):
                    b = getattr(par, fld, None)
                    if isinstance(b, list) and cur in b:
                        for st in b[:b.index(cur)]:
                            if isinstance(st, ast.If) and tests_selection(st.test) and st.body:
                                last = st.body[-1]
                                if isinstance(last, (ast.Return, ast.Continue, ast.Raise)) or \
                                        (isinstance(last, ast.Expr) and isinstance(last.value, ast.Call) and (call_name(m, last.value) or "").endswith("util.error")):
                                    guarded = True
                cur = par
            n += 1
            ctx.ob("C19.5", qual, guarded, "%s over a subset selected by %s is protected by an emptiness test on that selection" % (norm(k.func), sorted(srcs)),
                   loc=prog.loc(m, k),
                   msg="%s raises ValueError on an empty array; its operand is subset by %s, but no test of len(%s) exits or encloses the call (a test on the "
                       "unselected array does not help): when nothing is selected (e.g. a score that is NaN at every location) the program ends in an "
                       "unhandled exception" % (norm(k)[:50], sorted(srcs), "/".join(sorted(srcs))))
    ctx.need(n >= 1, "no empty-raising reduction over a selected subset found (confirmed site: Standard._plot_mapimpact_core)")


def check_writers(ctx):
    prog = ctx.prog
    om = prog.module("verif.output")
    base = prog.cls("verif.output.Output")
    cases = {}
    def axis_cases(f, depth=0):
        """axis cases compared in the writer itself or in the helper methods of the class it calls (two levels)"""
        found = set()
        for n in ast.walk(f):
            if isinstance(n, ast.Compare) and dotted(n.left) == "self.axis" and isinstance(n.ops[0], ast.Eq):
                found.add(norm(n.comparators[0]))
            elif depth < 2 and isinstance(n, ast.Call) and isinstance(n.func, ast.Attribute) and dotted(n.func.value) == "self" \
                    and n.func.attr in base.methods and n.func.attr not in ("text", "csv", "_get_x_y"):
                found |= axis_cases(base.methods[n.func.attr], depth + 1)
        return found
    for name in ("text", "csv"):
        cases[name] = axis_cases(base.methods[name])
        if len(cases[name]) < 3:
            # a table of (axis, column name) rows, a helper chain: read the cases from the folded writer
            try:
                from . import c12
                found_, _default = c12.descriptor_cases(prog, name)
                cases[name] |= set("verif.axis.%s()" % k_ for k_ in found_)
            except Exception:
                pass
    want = {"verif.axis.Threshold()", "verif.axis.Obs()", "verif.axis.Fcst()"}
    missing = {n_: sorted(want - cases[n_]) for n_ in ("text", "csv")}
    ctx.ob("C19.6", "verif.output.Output", cases["text"] == cases["csv"] and len(cases["text"]) >= 3, "text() and csv() handle the same axis cases %s" % sorted(cases["text"]),
           msg=("text() handles %s but csv() handles %s: one of the two output types crashes for the missing axis" % (sorted(cases["text"]), sorted(cases["csv"])))
           if cases["text"] != cases["csv"] else
           ("text() and csv() no longer build the row descriptors of %s themselves (one row per -r threshold): those axes fall through to "
            "get_axis_descriptions, whose single entry is indexed past its end" % (missing["text"] or "the threshold-like axes")))
    for name in ("text", "csv"):
        src = norm(base.methods[name])
        ctx.ob("C19.6", "verif.output.Output." + name, "is None" in src and "'All'" in src, "%s() prints 'All' for a descriptor without values" % name,
               msg="%s() indexes a descriptor that can be None (-x obs/fcst without -r)" % name)


_DIRECTIVE = re.compile(r"%(\([^)]*\))?([-+ #0]*)(\*|\d+)?(?:\.(\*|\d+))?[hlL]?([a-zA-Z%])")
_NUMERIC_CONV = set("gGfFeEdiouxXc")
_STRING_TYPES = {"basestring", "str", "unicode", "bytes", "six.string_types", "string_types"}


def _percent_args(fmt, right):
    """(conversion character, argument node) for each directive of a %-format, '*' widths consuming their own argument."""
    args = list(right.elts) if isinstance(right, ast.Tuple) else [right]
    pos = 0
    out = []
    for m_ in _DIRECTIVE.finditer(fmt):
        if m_.group(5) == "%":
            continue
        if m_.group(1):
            return []           # mapping keys: not used by the writers
        pos += (m_.group(3) == "*") + (m_.group(4) == "*")
        if pos < len(args):
            prec = m_.group(4)
            out.append((m_.group(5), args[pos], int(prec) if prec and prec.isdigit() else None))
        pos += 1
    return out


def _mentions_element(node, names, elem_names=()):
    """Does the expression use an ELEMENT of one of the descriptor tables (a subscript rooted at it; len(...) does not count), or a
    variable known to hold such an element (``elem_names``: the parameter of a helper that is handed one)?"""
    if elem_names and any(isinstance(n, ast.Name) and n.id in elem_names for n in ast.walk(node)):
        return True
    skip = set()
    for n in ast.walk(node):
        if isinstance(n, ast.Call) and dotted(n.func) == "len":
            skip.update(id(x) for x in ast.walk(n))
    for n in ast.walk(node):
        if id(n) in skip:
            continue
        if isinstance(n, ast.Subscript):
            base = n
            while isinstance(base, ast.Subscript):
                base = base.value
            if isinstance(base, ast.Name) and base.id in names:
                return True
    return False


def _string_guarded(node, pm, names, elem_names=()):
    """Is the node only reached when the descriptor element is known not to be a string (else-branch of isinstance(elem, str-type),
    body of a numeric isinstance test, or inside a try that catches TypeError/ValueError)?"""
    child = node
    while child in pm:
        par = pm[child]
        if isinstance(par, (ast.If, ast.IfExp)):
            test = par.test
            neg = False
            if isinstance(test, ast.UnaryOp) and isinstance(test.op, ast.Not):
                test, neg = test.operand, True
            if isinstance(test, ast.Call) and dotted(test.func) == "isinstance" and len(test.args) == 2 and _mentions_element(test.args[0], names, elem_names):
                tys = [dotted(t) for t in (test.args[1].elts if isinstance(test.args[1], ast.Tuple) else [test.args[1]])]
                is_str_test = all(t in _STRING_TYPES for t in tys)
                body = par.body if isinstance(par.body, list) else [par.body]
                orelse = par.orelse if isinstance(par.orelse, list) else [par.orelse]
                in_body = any(child is b for b in body)
                in_else = any(child is b for b in orelse)
                if is_str_test and ((in_else and not neg) or (in_body and neg)):
                    return True
                if not is_str_test and not any(t in _STRING_TYPES for t in tys) and ((in_body and not neg) or (in_else and neg)):
                    return True
        # an earlier sibling `if isinstance(elem, str): return/continue/raise` leaves only non-strings for what follows
        for fld in ("body", "orelse", "finalbody"):
            blk = getattr(par, fld, None)
            if isinstance(blk, list) and any(child is b for b in blk):
                for prev in blk[:[i for i, b in enumerate(blk) if b is child][0]]:
                    if isinstance(prev, ast.If) and not prev.orelse and prev.body and isinstance(prev.body[-1], (ast.Return, ast.Continue, ast.Raise, ast.Break)):
                        t_ = prev.test
                        if isinstance(t_, ast.Call) and dotted(t_.func) == "isinstance" and len(t_.args) == 2 and _mentions_element(t_.args[0], names, elem_names):
                            tys_ = [dotted(t) for t in (t_.args[1].elts if isinstance(t_.args[1], ast.Tuple) else [t_.args[1]])]
                            if all(t in _STRING_TYPES for t in tys_):
                                return True
        if isinstance(par, ast.Try) and any(child is b for b in par.body):
            for h in par.handlers:
                caught = [dotted(t) for t in (h.type.elts if isinstance(h.type, ast.Tuple) else [h.type])] if h.type is not None else ["BaseException"]
                if any(c in ("TypeError", "ValueError", "Exception", "BaseException") for c in caught):
                    return True
        child = par
    return False


def descriptor_conversions(prog):
    """Every numeric conversion applied to an element of the row-descriptor table (Data.get_axis_descriptions), in the functions that
    receive the table (directly or through helpers returning it - fixed point) and in local helpers / methods that are handed one
    element (one level).  -> (users, [(qualname, module, node, what, conversion, precision, guarded)])"""
    # name of a function that hands the table on -> None (the value itself) or the set of positions of its returned tuple that do
    sources = {"get_axis_descriptions": None}

    def _callee(v):
        if isinstance(v, ast.Call) and isinstance(v.func, (ast.Attribute, ast.Name)):
            nm = v.func.attr if isinstance(v.func, ast.Attribute) else v.func.id
            return nm if nm in sources else None
        return None

    def tainted_names(f):
        names = set()
        for _ in range(2):
            for n in ast.walk(f):
                if not isinstance(n, ast.Assign):
                    continue
                src = _callee(n.value)
                if src is not None:
                    pos = sources[src]
                    for t in n.targets:
                        if isinstance(t, ast.Name) and pos is None:
                            names.add(t.id)
                        elif isinstance(t, (ast.Tuple, ast.List)):
                            for i, e in enumerate(t.elts):
                                if isinstance(e, ast.Name) and (pos is None or i in pos):
                                    names.add(e.id)
                elif isinstance(n.value, ast.Name) and n.value.id in names:
                    names.update(t.id for t in n.targets if isinstance(t, ast.Name))
        return names
    changed = True
    while changed:
        changed = False
        for qual, m, c, f in prog.all_functions():
            if f.name == "get_axis_descriptions":
                continue
            names = tainted_names(f)
            for n in ast.walk(f):
                if isinstance(n, ast.Return) and n.value is not None:
                    v = n.value
                    new_pos = "no"
                    if (_callee(v) is not None and sources[_callee(v)] is None) or (isinstance(v, ast.Name) and v.id in names):
                        new_pos = None
                    elif isinstance(v, (ast.Tuple, ast.List)):
                        ps = {i for i, e in enumerate(v.elts) if (isinstance(e, ast.Name) and e.id in names) or (_callee(e) is not None and sources[_callee(e)] is None)}
                        if ps:
                            new_pos = ps
                    if new_pos == "no":
                        continue
                    old = sources.get(f.name, "no")
                    merged = None if (new_pos is None or old is None) else (set(new_pos) | (set(old) if old != "no" else set()))
                    if old == "no" or merged != old:
                        sources[f.name] = merged
                        changed = True

    def conversions(root, names, elem_names, skip_defs=True):
        sites = []
        nested = set()
        if skip_defs:
            for n in ast.walk(root):
                if n is not root and isinstance(n, (ast.FunctionDef, ast.Lambda)):
                    nested.update(id(x) for x in ast.walk(n) if x is not n)
        for n in ast.walk(root):
            if id(n) in nested:
                continue
            if isinstance(n, ast.BinOp) and isinstance(n.op, ast.Mod) and isinstance(const(n.left), str):
                for conv, arg, prec in _percent_args(const(n.left), n.right):
                    if conv in _NUMERIC_CONV and _mentions_element(arg, names, elem_names):
                        sites.append((n, "%%%s" % conv, conv, prec if prec is not None else (6 if conv in "gGfFeE" else None)))
            elif isinstance(n, ast.Call) and dotted(n.func) in ("float", "int", "round") and n.args and _mentions_element(n.args[0], names, elem_names):
                sites.append((n, dotted(n.func) + "()", dotted(n.func), None))
            elif isinstance(n, ast.FormattedValue) and n.format_spec is not None and _mentions_element(n.value, names, elem_names):
                spec = "".join(v.value for v in n.format_spec.values if isinstance(v, ast.Constant) and isinstance(v.value, str))
                if spec and spec[-1] in _NUMERIC_CONV | {"n", "%"}:
                    mp = re.search(r"\.(\d+)", spec)
                    sites.append((n, "f-string :%s" % spec, spec[-1], int(mp.group(1)) if mp else (6 if spec[-1] in "gGfFeE" else None)))
            elif isinstance(n, ast.Call) and isinstance(n.func, ast.Attribute) and n.func.attr == "format" and isinstance(const(n.func.value), str) \
                    and re.search(r"\{[^}]*:[^}]*[gGfFeEdn%]\}", const(n.func.value)) and any(_mentions_element(a, names, elem_names) for a in n.args):
                mp = re.search(r"\{[^}]*:[^}]*?\.(\d+)[gGfFeE]\}", const(n.func.value))
                sites.append((n, "str.format numeric spec", "g", int(mp.group(1)) if mp else 6))
        return sites

    users = 0
    out = []
    for qual, m, c, f in prog.all_functions():
        names = tainted_names(f)
        if not names:
            continue
        users += 1
        pm = parent_map(f)
        for n, what, conv, prec in conversions(f, names, ()):
            out.append((qual, m, n, what, conv, prec, _string_guarded(n, pm, names)))
        # helpers that are handed one element: nested defs of this function and methods of the same class (one level)
        local = {n.name: n for n in ast.walk(f) if isinstance(n, ast.FunctionDef) and n is not f}
        for n in ast.walk(f):
            if not (isinstance(n, ast.Call) and n.args):
                continue
            callee = None
            if isinstance(n.func, ast.Name) and n.func.id in local:
                callee, skip = local[n.func.id], 0
            elif isinstance(n.func, ast.Attribute) and dotted(n.func.value) == "self" and c is not None and n.func.attr in c.methods:
                callee, skip = c.methods[n.func.attr], 1
            if callee is None:
                continue
            params = [a.arg for a in callee.args.args][skip:]
            elems = set(p_ for p_, a in zip(params, n.args) if _mentions_element(a, names))
            if not elems:
                continue
            cpm = parent_map(callee)
            caller_guard = _string_guarded(n, pm, names)
            for n2, what, conv, prec in conversions(callee, (), elems, skip_defs=False):
                out.append((qual + " -> " + callee.name, m, n2, what, conv, prec, caller_guard or _string_guarded(n2, cpm, (), elems)))
    return users, out


def check_descriptor_formats(ctx):
    """Row descriptors (Data.get_axis_descriptions) are date STRINGS for every time-like axis and numbers otherwise; a numeric
    conversion (%g, %d, float(), '{:g}') of a descriptor element that is not guarded by a string test ends -x time/week/month/year
    output in an unhandled TypeError."""
    prog = ctx.prog
    g = prog.own_method("verif.data.Data.get_axis_descriptions")
    may_be_str = any(isinstance(n, ast.Call) and isinstance(n.func, ast.Attribute) and n.func.attr in ("strftime", "isoformat", "format") or
                     (isinstance(n, ast.Call) and dotted(n.func) == "str") for n in ast.walk(g))
    ctx.ob("C19.7", "verif.data.Data.get_axis_descriptions", True, "descriptor element types: %s" % ("str (formatted dates) or number" if may_be_str else "number"),
           nontrivial=False)
    if not may_be_str:
        ctx.note("C19.7: get_axis_descriptions no longer formats strings; the numeric-format rule has nothing to decide")
        return
    users, found = descriptor_conversions(prog)
    convs = 0
    for qual, m, n, what, conv, prec, guarded in found:
        convs += 1
        ctx.ob("C19.7", qual, guarded, "numeric conversion %s of a row descriptor is reached only for non-string descriptors" % what, loc=prog.loc(m, n),
               msg="%s is applied to an element of the row-descriptor table, which holds formatted date strings for every time-like axis "
                   "(Data.get_axis_descriptions): -x time/day/week/month/year output ends in an unhandled TypeError" % what,
               sample={"rule": "C19.7", "function": qual, "conversion": what, "guarded": guarded})
    ctx.need(users >= 2, "fewer than 2 users of get_axis_descriptions found (confirmed: Output.text, Output.csv)")
    ctx.control("C19.7", [c_ for c_, _a, _p in _percent_args("%-*g| %s %d%%", ast.parse("(a, b, c, d)").body[0].value)] == ["g", "s", "d"],
                "%-format directives are paired with their arguments ('*' consumes one)")
    ctx.sample({"rule": "C19.7", "functions_using_descriptors": users, "numeric_conversions": convs})


def run(ctx):
    ctx.rule("C19.1", "every third-party attribute reference exists in the installed library")
    ctx.rule("C19.2", "no array result of Metric.compute goes into a scalar slot / %-format")
    ctx.rule("C19.3", "hooks implemented; default virtuals are explanatory no-return errors")
    ctx.rule("C19.4", "capability flags exist on every class; the driver's gates exist")
    ctx.rule("C19.5", "no None dereference of the metric object; guard/use agreement of len() guards")
    ctx.rule("C19.6", "text and csv writers handle the same cases")
    check_api(ctx)
    check_rank(ctx)
    check_hooks(ctx)
    check_flags(ctx)
    check_none_deref(ctx)
    check_guard_use(ctx)
    check_empty_reductions(ctx)
    check_diff_reductions(ctx)
    ctx.rule("C19.8", "a literal column of the second (third ...) input is addressed only when that many inputs exist")
    check_input_columns(ctx)
    check_writers(ctx)
    ctx.rule("C19.7", "numeric conversions of row descriptors (strings for time-like axes) are guarded by a string test")
    check_descriptor_formats(ctx)
    ctx.floor("C19.3", 90)


CLAIM = {
    "level": "Static enumeration of the structural causes of unhandled exceptions over the whole code base: ~1500 library references resolved "
             "against the installed versions, rank discipline of Metric.compute results, implemented hooks for every registered class, explanatory "
             "default virtuals, capability flags and gates, None-dereference of the metric object, len()-guard/use agreement, text/csv case "
             "agreement. This is a necessary-condition analysis; data-dependent exceptions and the full combination matrix are not decided.",
    "note": "Trusted: CPython ast, importlib/getattr inspection of the installed numpy/scipy/matplotlib/netCDF4 (the program itself is not "
            "imported or run). The rank rule covers the Metric.compute family only.",
    "technique": "static analysis: library API existence against installed versions, rank lint, registry/MRO hook exhaustiveness, "
                 "nullness guard analysis, guard/use contradiction rule, element-type lint on row descriptors (C19.7); entry-point dispatch from call events "
                 "(helpers inlined, bound-method locals resolved) and the driver's capability gates by value (surviving axis = None iff documented gate, truth table); C19.5 also min/max-like reductions over np.diff of a list that may have one element; C19.7 position-sensitive propagation of the descriptor table through helpers that return it inside a tuple; C19.8 a literal column k >= 1 of the per-input matrix returned by _get_x_y needs an enclosing or preceding test on the number of inputs",
}
