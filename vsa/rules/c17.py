"""C17 - plot appearance options are honoured in the produced figure (the chain, not the pixels)."""
import ast

from .. import arrays, form, q, trace
from ..form import Rat
from ..core import AnalysisError, const, dotted, norm, calls_in, call_name, parent_map
from . import c13

EXPLANATION = (
    "WIRE analysis of the chain option -> driver variable -> attribute of the output object -> matplotlib call: for each of the 51 "
    "appearance flags the kind of interpretation and the attribute it is stored in are compared with the reference table; the "
    "attribute must be initialised in Output.__init__ AND read somewhere on the Output hierarchy (an option written to an attribute "
    "nobody reads is silently ignored), and its value must reach the documented matplotlib call/keyword (set_title fontsize, grid "
    "linestyle/color/lw, subplots_adjust left/right/top/bottom, savefig dpi, ...). Inside Output._adjust_axis a block guarded by "
    "`self.A is not None` must use self.A and no other option (guard/use contradiction rule), every effect must go through the `ax` "
    "that is being adjusted (not the pyplot current axes), style lists are cycled modulo their own length, and every override of "
    "_adjust_axes applies _adjust_axis to all axes and passes the four margins.")
ASSUMPTIONS = ["matplotlib applies the property set by the named call", "the rendered figure / image file is not inspected"]
AUDIT = {"functions": ["verif.output.Output._adjust_axis", "verif.output.Output._get_plot_options", "verif.output.Output._save_plot",
                       "verif.output.Output._legend", "verif.output.Output._adjust_axes", "verif.output.Output._add_annotation"],
         "driver_pl_assignments": True}


def output_classes(prog):
    m = prog.module("verif.output")
    return [c for c in m.classes.values() if prog.is_subclass(c, "verif.output.Output")]


def check_attributes(ctx, table, sinks):
    prog = ctx.prog
    m = prog.module("verif.output")
    base = prog.cls("verif.output.Output")
    init = base.methods["__init__"]
    initialised = set()
    for st in ast.walk(init):
        if isinstance(st, ast.Assign):
            for t in st.targets:
                d = dotted(t)
                if d and d.startswith("self."):
                    initialised.add(d[5:])
    reads = {}
    for c in output_classes(prog):
        for name, f in c.methods.items():
            for n in ast.walk(f):
                if isinstance(n, ast.Attribute) and isinstance(n.ctx, ast.Load) and dotted(n.value) == "self":
                    reads.setdefault(n.attr, []).append((c.qual + "." + name, n))
    for flag, (kind, sink) in sorted(table.items()):
        ks, attr = sink.split(":")
        if ks != "pl":
            continue
        ctx.ob("C17.1", "verif.output.Output.__init__", attr in initialised, "%s: attribute %s has a default in Output.__init__" % (flag, attr),
               msg="%s is stored in pl.%s, which Output.__init__ does not define" % (flag, attr))
        rd = reads.get(attr, [])
        ctx.ob("C17.1", "verif.output", bool(rd), "%s: attribute %s is read by the output classes" % (flag, attr),
               msg="%s is stored in pl.%s but nothing in output.py reads self.%s: the option is silently ignored" % (flag, attr, attr),
               sample={"rule": "C17.1", "flag": flag, "attribute": attr, "read_sites": len(rd)})
    # attribute -> matplotlib sink
    for attr, (callname, where) in sorted(sinks.items()):
        if attr.startswith("_"):
            continue
        found = False
        for c in output_classes(prog):
            for name, f in c.methods.items():
                localdefs = {}
                for st in ast.walk(f):
                    if isinstance(st, ast.Assign) and len(st.targets) == 1 and isinstance(st.targets[0], ast.Name):
                        localdefs.setdefault(st.targets[0].id, []).append(norm(st.value))
                    if isinstance(st, ast.Assign) and len(st.targets) == 1 and isinstance(st.targets[0], ast.Subscript) and isinstance(st.targets[0].value, ast.Name):
                        localdefs.setdefault(st.targets[0].value.id, []).append(norm(st.value))

                def mentions(expr):
                    src = norm(expr)
                    if "self.%s" % attr in src:
                        return True
                    for nm in ast.walk(expr):
                        if isinstance(nm, ast.Name) and any("self.%s" % attr in d for d in localdefs.get(nm.id, [])):
                            return True
                    return False
                for call in calls_in(f):
                    fn = call.func
                    cn = fn.attr if isinstance(fn, ast.Attribute) else (fn.id if isinstance(fn, ast.Name) else None)
                    if cn != callname:
                        continue
                    if isinstance(where, int):
                        if len(call.args) > where and mentions(call.args[where]):
                            found = True
                    else:
                        for k in call.keywords:
                            if k.arg == where and mentions(k.value):
                                found = True
                            if k.arg is None and mentions(k.value):      # **args built from the attribute
                                found = True
        ctx.ob("C17.1", "verif.output", found, "self.%s reaches %s(%s)" % (attr, callname, where if isinstance(where, str) else "arg %d" % where),
               msg="the value of self.%s does not reach %s(%s) anywhere in output.py" % (attr, callname, where))


OPTION_ATTRS = None


def check_adjust_axis(ctx, table):
    prog = ctx.prog
    m = prog.module("verif.output")
    site = "verif.output.Output._adjust_axis"
    f = prog.own_method(site)
    option_attrs = set(s.split(":")[1] for k, s in table.values() if s.startswith("pl:"))
    pm = parent_map(f)
    n = 0
    # helpers of Output that did not exist on the reference tree (blocks moved out of _adjust_axis) are read as part of it
    ocls = prog.cls("verif.output.Output")
    known_o = trace.known_methods().get(ocls.qual) or []
    nodes = list(ast.walk(f))
    for mname, mf in ocls.methods.items():
        if mname not in known_o and mf is not f:
            nodes += list(ast.walk(mf))
    for node in nodes:
        if not isinstance(node, ast.If):
            continue
        t = node.test
        guard = None
        if isinstance(t, ast.Compare) and len(t.ops) == 1 and isinstance(t.ops[0], ast.IsNot) and const(t.comparators[0]) is None:
            d = dotted(t.left)
            if d and d.startswith("self."):
                guard = d[5:]
        if guard is None or guard not in option_attrs:
            continue
        n += 1
        used = set()
        for s_ in node.body:
            for a in ast.walk(s_):
                if isinstance(a, ast.Attribute) and dotted(a.value) == "self" and a.attr in option_attrs:
                    used.add(a.attr)
        ok = guard in used and not (used - {guard} - {"labfs"})
        ctx.ob("C17.2", site, ok, "block guarded by self.%s uses self.%s (and no other option)" % (guard, guard), loc=prog.loc(m, node),
               msg="a block guarded by `self.%s is not None` uses %s: -%s alone is ignored / the other option leaks in" % (guard, sorted(used) or "nothing", guard),
               sample={"rule": "C17.2", "guard": guard, "used": sorted(used)})
    ctx.need(n >= 8, "%s: fewer than 8 guarded option blocks (12 on the reference tree)" % site)
    # effects only through `ax`
    for call in calls_in(f):
        d = dotted(call.func) or ""
        if d.startswith("mpl."):
            ctx.ob("C17.3", site, False, "pyplot state call %s inside _adjust_axis" % d, loc=prog.loc(m, call),
                   msg="_adjust_axis calls %s: the option is applied to pyplot's current axes, not to the axes being adjusted (sub-plots keep their defaults)" % d)
    ctx.ob("C17.3", site, [a.arg for a in f.args.args] == ["self", "ax"], "_adjust_axis(self, ax)", msg="signature changed")
    setters = [k for k in calls_in(f) if (dotted(k.func) or "").startswith("ax.")]
    ctx.ob("C17.3", site, len(setters) >= 15, "axis properties are set through ax.*", msg="only %d ax.* calls" % len(setters))
    # cycling
    f2 = prog.own_method("verif.output.Output._get_plot_options")
    for sub in ast.walk(f2):
        if isinstance(sub, ast.Subscript) and (dotted(sub.value) or "").startswith("self.") and isinstance(sub.slice, ast.BinOp) and isinstance(sub.slice.op, ast.Mod):
            lst = dotted(sub.value)
            mod = norm(sub.slice.right)
            ctx.ob("C17.2", "verif.output.Output._get_plot_options", mod == "len(%s)" % lst, "%s is cycled modulo its own length" % lst, loc=prog.loc(m, sub),
                   msg="%s is indexed modulo %s: with lists of different lengths the wrong entry is used or IndexError is raised" % (lst, mod))
    # -nogrid: matplotlib's Axes.grid() switches the grid ON whenever line properties are passed (whatever its first argument), so a
    # grid call that carries -gc/-gs/-gw properties must not be reachable when self.grid is false
    eva = trace.trace(prog, site)
    gcalls = [e for e in trace.calls(eva) if e["name"] in ("ax.grid",)]
    ctx.need(gcalls, "%s: no ax.grid call" % site)
    for e in gcalls:
        guarded = any(isinstance(c, Rat) and c.key() == "$self.grid" and pol for c, pol in e["conds"])
        styled = bool(e["node"].keywords)
        first = e["args"][0] if e["args"] else None
        on = first is None or (isinstance(first, Rat) and first.key() in ("str:'on'()", "$True", "1"))
        ok = guarded or (not styled and not on)
        ctx.ob("C17.2", site, ok, "ax.grid(...) with grid properties is reached only when the grid is enabled (-nogrid wins over -gc/-gs/-gw)", loc=prog.loc(m, e["node"]),
               msg="ax.grid(%s) is called %s even when self.grid is false: matplotlib turns the grid on whenever line properties are supplied, so "
                   "-nogrid together with -gc/-gs/-gw draws the grid" % (norm(e["node"])[8:60], "with style keywords" if styled else "switching it on"))
    # semantic form: the i-th line gets entry i mod len(list) of EACH style list, with i the line number itself
    ev = trace.trace(prog, "verif.output.Output._get_plot_options")
    i_ = Rat.sym("i")
    for key, attr in (("lw", "lw"), ("ms", "ms"), ("color", "line_colors"), ("ls", "line_styles"), ("marker", "markers")):
        lst = Rat.sym("self." + attr)
        want = form.apply("getitem", [lst, form.apply("mod", [i_, form.apply("len", [lst])])])
        sts = [e for e in trace.stores(ev, "options") if len(e["indices"]) == 1 and isinstance(e["indices"][0], Rat)
               and e["indices"][0].key() == "str:'%s'()" % key and isinstance(e["value"], Rat) and not e["value"].key().startswith("str:")]
        ok = bool(sts) and all(e["value"].equals(want) for e in sts)
        ctx.ob("C17.2", "verif.output.Output._get_plot_options", ok, "line i gets %s = self.%s[i %% len(self.%s)]" % (key, attr, attr),
               loc=prog.loc(m, sts[0]["node"]) if sts else prog.loc(m, f2),
               msg="plot option '%s' of line i is %s, expected self.%s[i %% len(self.%s)]: the list given with the option is not cycled over its own "
                   "length independently of the other style options" % (key, str(sts[0]["value"])[:120] if sts else "not set", attr, attr),
               sample={"rule": "C17.2", "key": key, "value": str(sts[0]["value"])[:100] if sts else None})
    ctx.floor("C17.2", 23)
    # siblings
    for c in output_classes(prog):
        f3 = c.methods.get("_adjust_axes")
        if f3 is None:
            continue
        src = norm(f3)
        all_axes = "self._adjust_axis(mpl.gca())" in src or ("for ax in mpl.gcf().get_axes():" in src and "self._adjust_axis(ax)" in src)
        margins = "subplots_adjust(bottom=self.bottom, top=self.top, left=self.left, right=self.right)" in src
        ctx.ob("C17.3", c.qual + "._adjust_axes", all_axes and margins, "applies _adjust_axis to its axes and passes the four margins", loc=prog.loc(m, f3),
               msg="%s._adjust_axes does not apply _adjust_axis to all axes / pass left,right,top,bottom" % c.name)
    # figure size / saving
    sp = prog.own_method("verif.output.Output._save_plot")
    src = norm(sp)
    ctx.ob("C17.1", "verif.output.Output._save_plot", "set_size_inches(int(self.figsize[0]), int(self.figsize[1])" in src, "-fs width,height -> set_size_inches(width, height)",
           msg="figure size is not set from figsize[0], figsize[1]")
    ctx.ob("C17.1", "verif.output.Output._save_plot", src.count("mpl.savefig(self.filename") == 2 and src.count("dpi=self.dpi") == 2, "-f / -dpi -> savefig(filename, dpi=dpi) on both paths",
           msg="savefig does not receive filename and dpi on every path")
    ctx.ob("C17.1", "verif.output.Output._save_plot", "if not self.show_margin:" in src and "remove_margin()" in src, "-nomargin removes the margins", msg="-nomargin handling changed")
    lg = prog.own_method("verif.output.Output._legend")
    src = norm(lg)
    ctx.ob("C17.1", "verif.output.Output._legend", "if self.legfs > 0:" in src and src.count("loc=self.leg_loc, prop={'size': self.legfs}") == 2, "-legfs 0 hides the legend; size and location are applied",
           msg="legend size/location handling changed")


def check_tight_crop(ctx):
    """-left/-right/-top/-bottom: the saved figure is cropped to its content (bbox_inches='tight', which discards the requested margins
    and the -fs x -dpi pixel size) exactly when NONE of the four margins was given.  The condition under which savefig receives
    bbox_inches='tight' is compared by truth table with `top is None and bottom is None and right is None and left is None`."""
    from .. import boolq, symeval
    prog = ctx.prog
    site = "verif.output.Output._save_plot"
    m = prog.module("verif.output")
    ev = trace.trace(prog, site, merge=False)
    tight, plain = [], []
    for e in trace.calls(ev):
        if not (e["name"] or "").endswith("savefig"):
            continue
        bb = e["kwargs"].get("bbox_inches")
        (tight if isinstance(bb, Rat) and "tight" in bb.key() else plain).append(e)
    ctx.need(tight or plain, "%s: no savefig call found" % site)
    probe = symeval.Evaluator(m)
    want = probe.ev(ast.parse("self.top is None and self.bottom is None and self.right is None and self.left is None", mode="eval").body,
                    symeval.Path({"self." + k: Rat.sym("self." + k) for k in ("top", "bottom", "right", "left")}, []))
    has_file = probe.ev(ast.parse("self.filename is not None", mode="eval").body, symeval.Path({"self.filename": Rat.sym("self.filename")}, []))
    f_want = boolq.prop(form.apply("and", [has_file, want]))
    f_got = boolq.disj(boolq.conj(e["conds"]) for e in tight)
    known = set(boolq.atoms_of(f_want))
    foreign = [a for a in boolq.atoms_of(f_got) if a not in known and any(("$self." + k) in a for k in ("top", "bottom", "right", "left"))]
    if foreign:
        # the margins are tested in a form the truth table cannot interpret (all(...), a helper): not decided rather than guessed
        ctx.undecided_item("C17.3", site, "the tight-cropping condition tests the margins through %s" % foreign[0][:80])
        return
    try:
        w = boolq.differ(f_got, f_want, limit=14)
        ok, why = w is None, ("" if w is None else "e.g. with " + boolq.show(w))
    except boolq.TooBig as e_:
        ok, why = False, "condition too large to compare (%s)" % e_
    loc = prog.loc(m, (tight or plain)[0]["node"])
    ctx.ob("C17.3", site, ok, "the figure is cropped to its content (bbox_inches='tight') exactly when none of -left/-right/-top/-bottom is given", loc=loc,
           msg="savefig crops the figure (bbox_inches='tight') under a different condition than 'no margin option given': a requested margin "
               "is cropped away and the image loses its -fs x -dpi size, or an unrequested one is kept; %s" % why,
           sample={"rule": "C17.3", "tight_calls": len(tight), "plain_calls": len(plain)})


def check_zero_or_none(ctx):
    """Metric attributes that can legitimately be 0 AND can be None (perfect_score, min, max: read from the class constants of
    verif.metric) must be tested with `is None`; a truthiness test (`if perfect_score:`) treats 0 as "not defined" - -sp then draws no
    line for every metric whose perfect score is 0 (mae, rmse, bias, ...), axis limits at 0 are ignored."""
    prog = ctx.prog
    values = {}
    for c in prog.classes_in("verif.metric"):
        for st in c.node.body:
            if isinstance(st, ast.Assign) and len(st.targets) == 1 and isinstance(st.targets[0], ast.Name) and isinstance(st.value, ast.Constant):
                values.setdefault(st.targets[0].id, set()).add(repr(st.value.value))
    attrs = sorted(a for a, v in values.items() if "None" in v and ("0" in v or "0.0" in v))
    ctx.need("perfect_score" in attrs, "verif.metric: perfect_score is no longer declared with both None and 0 among its values")

    def truthiness_sites(tree, attrs_):
        names = set()
        for n in ast.walk(tree):
            if isinstance(n, ast.Assign) and len(n.targets) == 1 and isinstance(n.targets[0], ast.Name) and isinstance(n.value, ast.Attribute) and n.value.attr in attrs_:
                names.add(n.targets[0].id)

        def is_subject(x):
            return (isinstance(x, ast.Attribute) and x.attr in attrs_) or (isinstance(x, ast.Name) and x.id in names)
        out = []
        for n in ast.walk(tree):
            tests = []
            if isinstance(n, (ast.If, ast.IfExp, ast.While, ast.Assert)):
                tests.append(n.test)
            elif isinstance(n, ast.BoolOp):
                tests.extend(n.values)
            elif isinstance(n, ast.UnaryOp) and isinstance(n.op, ast.Not):
                tests.append(n.operand)
            for t in tests:
                if is_subject(t):
                    out.append((t, t.attr if isinstance(t, ast.Attribute) else t.id))
        return out
    ctx.control("C17.4", len(truthiness_sites(ast.parse("ps = m.perfect_score\nif ps:\n    pass\nx = 1 if not m.min else 2\nwhile a and m.perfect_score:\n    pass\n"), attrs)) == 3,
                "truthiness tests of a zero-or-None attribute (if / not / and) are recognised")
    n = 0
    for qual, m, c, f in prog.all_functions():
        for t, nm in truthiness_sites(f, attrs):
            n += 1
            ctx.ob("C17.4", qual, False, "zero-or-None metric attributes are tested with `is None`", loc=prog.loc(m, t),
                   msg="`%s` is tested by truthiness, but 0 is a legitimate value of %s (declared values in verif.metric: %s): the value 0 is treated as "
                       "'not defined' (-sp draws nothing for metrics whose perfect score is 0)" % (norm(t), nm, sorted(values.get(nm, values.get("perfect_score")))))
    ctx.ob("C17.4", "verif", True, "no truthiness test of %s anywhere in the program (%d found)" % ("/".join(attrs), n), nontrivial=False)


def check_limit_order(ctx):
    """ORDER: Axes.set_xticks / set_yticks widen the view so that every tick is visible; limits requested with -xlim / -ylim are therefore
    honoured only if they are applied AFTER the ticks of the same axis (and after anything else that rescales the view: set_xscale,
    autoscale, axis('equal')...).  Read off the event log of the folded _adjust_axis (program order, helpers inlined)."""
    prog = ctx.prog
    site = "verif.output.Output._adjust_axis"
    m = prog.module("verif.output")
    ev = trace.trace(prog, site)
    calls = [(i, e) for i, e in enumerate(ev.events) if e["kind"] == "call"]
    for a in ("x", "y"):
        lims = [i for i, e in calls if e["name"].endswith(".set_%slim" % a)]
        ticks = [(i, e) for i, e in calls if e["name"].endswith(".set_%sticks" % a)]
        if not lims:
            ctx.undecided_item("C17.5", site, "no call of set_%slim found" % a)
            continue
        late = [(i, e) for i, e in ticks if i > min(lims)]
        ctx.ob("C17.5", site, not late, "-%slim is applied after -%sticks (set_%sticks widens the view to show every tick)" % (a, a, a),
               loc=prog.loc(m, late[0][1]["node"]) if late else None,
               msg="set_%sticks is called after set_%slim: a tick outside the requested limits widens the axis again and -%slim is not honoured" % (a, a, a))


_WRAP = ("nparray", "call:numpy.array", "call:numpy.asarray", "float", "call:numpy.asanyarray", "pylist", "call:list")


def _chain(v, roots):
    """(root parameter, [index keys]) of a value read out of a parameter through subscripts (element-wise wrappers skipped)."""
    from ..form import Rat
    idx = []
    while isinstance(v, Rat):
        at = v.as_atom()
        if at is None:
            return None
        if at.func in _WRAP and at.args and isinstance(at.args[0], Rat):
            v = at.args[0]
            continue
        if at.func == "getitem" and len(at.args) == 2:
            idx.append(arrays._ikey(at.args[1]))
            v = at.args[0]
            continue
        if at.func.startswith("$") and at.func[1:] in roots:
            idx.reverse()
            return at.func[1:], idx
        return None
    return None


def _expr_chains(at, roots):
    """Subscript chains rooted at a parameter inside an opaque 'expr:<python text>' atom (placeholders _vN stand for the argument values)."""
    import ast as _ast
    out = []
    try:
        tree = _ast.parse(at.func[5:], mode="eval")
    except SyntaxError:
        return None
    vals = {"_v%d" % i: a for i, a in enumerate(at.args)}

    def key_of(n):
        if isinstance(n, _ast.Name) and n.id in vals:
            return arrays._ikey(vals[n.id])
        if isinstance(n, _ast.Constant):
            return "str:%r()" % n.value if isinstance(n.value, str) else repr(n.value)
        return "expr:" + _ast.dump(n)
    for n in _ast.walk(tree):
        if isinstance(n, _ast.Subscript):
            idx, b = [], n
            while isinstance(b, _ast.Subscript):
                idx.append(key_of(b.slice))
                b = b.value
            if isinstance(b, _ast.Name) and b.id in vals:
                c = _chain(vals[b.id], roots)
                if c is not None:
                    idx.reverse()
                    out.append((c[0], c[1] + idx, n))
    # keep maximal chains only (a[k][i] also contains a[k])
    inner = set()
    for _, _, n in out:
        b = n.value
        while isinstance(b, _ast.Subscript):
            inner.add(id(b))
            b = b.value
    return [(r, ix) for r, ix, n in out if id(n) not in inner]


def check_annotation_index(ctx):
    """C17.6: Output._add_annotation(x, y, labels) writes, at point (x[i], y[i]), the label of the same i: the subscript chains
    that lead from the parameters x and y to the coordinates of a text and from x / y / labels to the pieces of its string are the
    same (the dictionary key of labels aside).  A point list that is filtered or re-ordered before the loop must take the labels
    with it; read off the folded function, helpers inlined, whatever the loops and tests are called."""
    from .. import plotargs, symeval, q as q_
    from ..form import Rat
    prog = ctx.prog
    site = "verif.output.Output._add_annotation"
    m = prog.module("verif.output")
    c = prog.cls("verif.output.Output")
    try:
        calls, ev = plotargs.draw_calls(prog, c, method="_add_annotation", merge=False)
    except symeval.Undecided as e:
        raise AnalysisError("C17.6: %s is outside the analysable fragment: %s" % (site, e))
    texts = [k for k in calls if k["kind"] == "text" and len(k["args"]) >= 3]
    ctx.need(texts, "C17.6: no text call found in %s" % site)
    roots = ("x", "y", "labels")
    n = 0
    for k in texts:
        cx, cy = _chain(k["args"][0], roots), _chain(k["args"][1], roots)
        if cx is None or cy is None:
            raise AnalysisError("C17.6: the position of an annotation is not an element of the parameters x / y: (%s, %s)" % (str(k["args"][0])[:80], str(k["args"][1])[:80]))
        ok = cx[0] == "x" and cy[0] == "y" and cx[1] == cy[1] and len(cx[1]) >= 1
        n += 1
        ctx.ob("C17.6", site, ok, "an annotation is placed at (x[i], y[i]) of one and the same i", loc=prog.loc(m, k["node"]),
               msg="annotation placed at x%s, y%s" % (cx[1], cy[1]))
        lab = k["args"][2]
        reads = []
        if isinstance(lab, Rat):
            for at in q_.atoms(lab):
                if at.func == "getitem":
                    ch = _chain(Rat.of_atom(at), roots)
                    if ch is not None:
                        reads.append((ch[0], ch[1], at))
                elif at.func.startswith("expr:"):
                    ec = _expr_chains(at, roots)
                    if ec is None:
                        raise AnalysisError("C17.6: label expression not understood: %s" % at.func[:80])
                    reads.extend((r, ix, None) for r, ix in ec)
        # maximal reads only
        keys = [(r, tuple(ix)) for r, ix, _ in reads]
        maximal = [(r, ix) for (r, ix) in set(keys) if not any(r == r2 and len(ix2) > len(ix) and ix2[:len(ix)] == ix for (r2, ix2) in keys)]
        bad = []
        unresolved = [ix for r, ix in maximal if any(str(k_).startswith("expr:") for k_ in ix)]
        if unresolved:
            ctx.undecided_item("C17.6", site, "a label index is a bound variable of a nested function (%s): the chain cannot be compared" % unresolved[0][-1][:60])
            maximal = [(r, ix) for r, ix in maximal if not any(str(k_).startswith("expr:") for k_ in ix)]
        for r, ix in maximal:
            pos = list(ix)
            if r == "labels" and len(pos) == len(cx[1]) + 1:
                pos = pos[1:]                       # the dictionary key (score / key / a name of -af)
            if pos != cx[1]:
                bad.append("%s%s" % (r, list(ix)))
        n += 1
        ctx.ob("C17.6", site, not bad, "the label of an annotation is read at the index chain of its position (labels[k][i] / labels[i] / x[i], y[i])",
               loc=prog.loc(m, k["node"]), msg="annotation at x%s is labelled from %s: after a selection or re-ordering of the points the text of another point is shown" % (cx[1], ", ".join(sorted(bad))))
    ctx.floor("C17.6", 2)


def run(ctx):
    ctx.rule("C17.1", "appearance option -> driver variable -> attribute initialised and READ -> matplotlib call/keyword")
    ctx.rule("C17.5", "axis limits are applied after the tick positions of the same axis")
    check_limit_order(ctx)
    ctx.rule("C17.2", "guard/use agreement inside _adjust_axis; style lists cycled modulo their own length")
    ctx.rule("C17.3", "effects go through the axes being adjusted; _adjust_axes siblings; margins")
    opts = c13.load_options()
    c13.check_options(ctx, "appearance", "C17.1", opts["appearance"])
    check_attributes(ctx, opts["appearance"], {k: v for k, v in opts["matplotlib_sinks"].items() if not k.startswith("_")})
    check_adjust_axis(ctx, opts["appearance"])
    ctx.rule("C17.4", "metric attributes that may be 0 or None (perfect_score, min, max) are never tested by truthiness")
    check_tight_crop(ctx)
    check_zero_or_none(ctx)
    ctx.rule("C17.6", "annotations: the text written at (x[i], y[i]) is built from labels / x / y at the same index chain")
    check_annotation_index(ctx)
    ctx.floor("C17.1", 250)


CLAIM = {
    "level": "Static WIRE analysis of the option chain for all 51 appearance flags: interpretation kind, attribute written by the driver, attribute "
             "initialised and read on the Output hierarchy, value reaching the documented matplotlib call; guard/use and cycling contradictions; "
             "axes-locality of _adjust_axis; sibling _adjust_axes. These are necessary conditions for an option to take effect independently of "
             "the others; the rendered figure is not examined.",
    "note": "Trusted: CPython ast, /verif/tables/options.json (semantic sinks by public matplotlib API names). Not decided: pixels, fonts, image "
            "format, options of individual diagrams beyond the shared machinery.",
    "technique": "static analysis: def-use chain from option branch to attribute store to attribute load to call argument; guard/use "
                 "contradiction rule; modulo-own-length rule; who-may-call (pyplot state functions inside _adjust_axis = 0); truth-table comparison "
                 "of the tight-cropping condition; truthiness lint on zero-or-None metric attributes; ORDER rule on the event log of _adjust_axis "
                 "(limits after the ticks of the same axis); option branches by value (c13.option_effects); C17.6 subscript chains from the parameters of _add_annotation to the position and to the text of each annotation must coincide (folded function, opaque format expressions parsed)",
}
