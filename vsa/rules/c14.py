"""C14 - anomaly scores use the climatology at the same coordinates."""
import ast

from .. import form, q, symeval, trace
from ..core import AnalysisError, const, dotted, norm
from ..form import Rat

EXPLANATION = (
    "ORDER/WIRE/FORM analysis by symbolic folding with an event log: the climatology input is appended to the list of inputs (and a "
    "cache slot added) before the three dimension intersections, so dimensions are intersected with it; the number of inputs, the "
    "three name lists, the legend and the legend-length check exclude exactly that last input (siblings); in get_scores the "
    "climatology operand is the forecast field of the last input passed through the same axis slice as the data, it is applied iff "
    "the field is Obs or Fcst, as curr - clim (subtract) or curr / clim (divide), never reversed; the cross-input NaN union ranges "
    "over the climatology and non-finite quotients are removed (shared with C01); -c/-C select subtract/divide and clim_type is "
    "validated.")
ASSUMPTIONS = ["numpy broadcasting of arrays of identical shape", "numerical equivalence with 'climatology as an extra input' is not decided"]
AUDIT = {"functions": ["verif.data.Data.get_scores", "verif.data.Data.__init__", "verif.data.Data._get_num_inputs",
                       "verif.data.Data.get_names", "verif.data.Data.get_legend"]}


def S(n):
    return Rat.sym(n)


def check_structure(ctx):
    prog = ctx.prog
    site = "verif.data.Data.__init__"
    m = prog.module("verif.data")
    ev = trace.trace(prog, site, env={"inputs": S("INPUTS")})
    # order: climatology appended (and cache slot added) before the first intersection
    pos_clim = pos_first = None
    for k, e in enumerate(ev.events):
        if e["kind"] == "assign" and e["name"] == "self._inputs" and q.mentions(e["value"], "$clim") and pos_clim is None:
            pos_clim = k
        if e["kind"] == "call" and e["name"] == "self._get_common_indices" and pos_first is None:
            pos_first = k
    ctx.ob("C14.1", site, pos_clim is not None and pos_first is not None and pos_clim < pos_first,
           "the climatology is appended to the inputs before the dimension intersections", loc=prog.loc(m, prog.own_method(site)),
           msg="the climatology is not part of self._inputs when the common dimensions are computed")
    fall = [o for o in ev.outcomes if o.kind == "fallthrough"]
    ctx.need(len(fall) == 1, "%s: one normal exit expected" % site)
    env = fall[0].env
    inputs_v, cache_v = env.get("self._inputs"), env.get("self._get_score_cache")

    def longest(v):
        best = 0
        if isinstance(v, list):
            return len(v)
        for a in q.atoms(v, "pylist"):
            best = max(best, len(a.args[0]))
        return best
    ctx.ob("C14.1", site, longest(inputs_v) == longest(cache_v) and longest(inputs_v) == 3, "one cache slot per input including the climatology",
           msg="self._inputs has %s entries, self._get_score_cache %s (two unrolled inputs + climatology expected)" % (longest(inputs_v), longest(cache_v)))
    # legend length is compared with the number of files, not counting the climatology
    errs = [o for o in ev.outcomes if o.kind == "error" and o.conds and "$legend" in o.conds[-1][0].key()]
    ctx.need(errs, "%s: the legend-length check was not found" % site)
    c = errs[0].conds[-1][0]
    ctx.ob("C14.1", site, "$clim" not in c.key() and "len($legend)" in c.key(), "one legend entry per scored input (climatology not counted)",
           loc=prog.loc(m, errs[0].node), msg="the legend-length check counts the climatology: %s" % c.key()[:160])
    # clim_type validated
    errs2 = [o for o in ev.outcomes if o.kind == "error" and o.conds and "$clim_type" in o.conds[-1][0].key()]
    ok = False
    for o in errs2:
        k = o.conds[-1][0].key()
        ok = ok or ("str:'subtract'" in k and "str:'divide'" in k)
    ctx.ob("C14.4", site, ok, "clim_type other than subtract/divide is rejected", msg="clim_type is no longer validated")

    # sibling name functions
    for fn, attr in (("get_names", "name"), ("get_full_names", "fullname"), ("get_short_names", "shortname")):
        qn = "verif.data.Data." + fn
        f = prog.own_method(qn)
        outs = [o for o in symeval.Evaluator(m).run(f) if o.kind == "return"]
        base = form.apply("map", [form.apply("attr:" + attr, [form.apply("elem", [S("self._inputs")])]), S("self._inputs")])
        cut = form.apply("getitem", [base, ("slice", Rat.const(0), Rat.const(-1), "None")])
        has_clim = form.apply("cmp_ne", [S("None") - S("self._clim"), Rat.const(0)])
        ok = False
        # the same list written through the (separately checked) clim-free count: self._inputs[0:self._get_num_inputs()]
        counted = form.apply("getitem", [S("self._inputs"), ("slice", Rat.const(0), form.apply("self._get_num_inputs", []), "None")])
        alt = form.apply("map", [form.apply("attr:" + attr, [form.apply("elem", [counted])]), counted])
        for o in outs:
            v = o.value
            if isinstance(v, Rat) and (v.equals(form.apply("ifexp", [has_clim, cut, base])) or (len(outs) == 1 and not o.conds and v.equals(alt))):
                ok = True
        if not ok and len(outs) == 2:
            with_c = [o for o in outs if q.has_cond(o.conds, lambda c_: c_.equals(has_clim), True)]
            wo_c = [o for o in outs if q.has_cond(o.conds, lambda c_: c_.equals(has_clim), False)]
            ok = bool(with_c) and bool(wo_c) and with_c[0].value.equals(cut) and wo_c[0].value.equals(base)
        ctx.ob("C14.1", qn, ok, "%s drops exactly the last (climatology) entry" % fn, loc=prog.loc(m, f),
               msg="%s returns %s" % (fn, [str(o.value)[:100] for o in outs]))
    f = prog.own_method("verif.data.Data._get_num_inputs")
    outs = [o for o in symeval.Evaluator(m).run(f) if o.kind == "return"]
    want = form.apply("len", [S("self._inputs")]) - form.apply("cmp_ne", [S("None") - S("self._clim"), Rat.const(0)])
    no_clim = form.apply("cmp_eq", [S("None") - S("self._clim"), Rat.const(0)])
    want2 = form.apply("len", [form.apply("ifexp", [no_clim, S("self._inputs"), form.apply("getitem", [S("self._inputs"), ("slice", Rat.const(0), Rat.const(-1), "None")])])])
    ctx.ob("C14.1", "verif.data.Data._get_num_inputs", len(outs) == 1 and (outs[0].value.equals(want) or outs[0].value.equals(want2)), "num_inputs = len(inputs) - (climatology present)",
           loc=prog.loc(m, f), msg="_get_num_inputs returns %s" % [str(o.value) for o in outs])
    f = prog.own_method("verif.data.Data._get_num_inputs_with_clim")
    outs = [o for o in symeval.Evaluator(m).run(f) if o.kind == "return"]
    ctx.ob("C14.1", "verif.data.Data._get_num_inputs_with_clim", len(outs) == 1 and outs[0].value.equals(form.apply("len", [S("self._inputs")])),
           "inputs including the climatology = len(self._inputs)", loc=prog.loc(m, f), msg="_get_num_inputs_with_clim returns %s" % [str(o.value) for o in outs])
    f = prog.own_method("verif.data.Data.get_legend")
    outs = [o for o in symeval.Evaluator(m).run(f) if o.kind == "return"]
    vals = [o.value for o in outs]
    ok = any(isinstance(v, Rat) and "self.get_names()" in v.key() for v in vals) and all(isinstance(v, Rat) and "get_full_names" not in v.key() and "$self._inputs" not in v.key() for v in vals)
    ctx.ob("C14.1", "verif.data.Data.get_legend", ok, "legend = user legend or get_names() (climatology excluded)", loc=prog.loc(m, f),
           msg="get_legend returns %s" % [str(v)[:80] for v in vals])
    # num_inputs attribute uses the clim-free count
    ni = env.get("self.num_inputs")
    ctx.ob("C14.1", site, isinstance(ni, Rat) and ni.key() == "self._get_num_inputs()", "Data.num_inputs excludes the climatology",
           msg="self.num_inputs = %s" % ni)


def check_anomaly(ctx):
    prog = ctx.prog
    site = "verif.data.Data.get_scores"
    m = prog.module("verif.data")
    # the sliced field of the first requested field, taken from the list stored in the request cache of a sliced request
    # (result_k = X_k[np.where(valid)]): no dependence on the names of locals or on the form of the loops
    from . import c01
    ev = trace.trace(prog, site, env={"axis": form.apply("call:verif.axis.Time", [])})
    st = trace.stores(ev, "self._get_scores_cache")
    ctx.need(st, "%s: the result is not stored in the request cache" % site)
    ph, res = c01._split_memo(st[-1]["value"])
    ctx.need(res is not None and len(res) == 2 and isinstance(res[0], Rat) and res[0].as_atom("getitem") is not None,
             "%s: the cached sliced result is not field[np.where(valid)]" % site)
    final = res[0].as_atom("getitem").args[0]
    applied = form.apply("self._apply_axis", [form.apply("self._get_score", [form.apply("call:verif.field.Fcst", []),
                                                                            form.apply("len", [S("self._inputs")]) - Rat.const(1)]),
                                              form.apply("call:verif.axis.Time", []), S("axis_index")])
    cands = [a for a in final.atoms(deep=True) if a.func == "self._apply_axis" and a.args and isinstance(a.args[0], Rat)
             and "self._get_score(" in a.args[0].key() and "$input_index" in a.args[0].key()]
    ctx.need(cands, "%s: the slice of the requested field (self._apply_axis(self._get_score(field, input_index), ...)) was not found" % site)
    base = Rat.of_atom(max(cands, key=lambda a: len(a.key)))

    class _N(object):
        lineno = st[-1]["node"].lineno
    currs = [{"node": st[-1]["node"]}]
    ctx.need(isinstance(base, Rat) and isinstance(final, Rat), "%s: the sliced field is not a value" % site)
    leaves = {}
    for at in final.atoms(deep=True):
        if at.func in ("cmp_eq", "cmp_ne", "in", "notin"):
            leaves[at.key] = at

    def kind(at):
        k = at.key
        if "$self._clim_type" in k and "str:'subtract'" in k:
            return "subtract"
        if "$self._clim" in k and "$None" in k and "_clim_type" not in k:
            return "present"
        cur_field = "$i#1" in k or "elem#1(" in k           # the field of the (first unrolled) iteration, by index or as element
        if at.func in ("in", "notin") and cur_field and "call:verif.field.Fcst()" in k and "call:verif.field.Obs()" in k \
                and isinstance(at.args[0], Rat) and ("$i#1" in at.args[0].key() or "elem#1(" in at.args[0].key()):
            return "is_obsfcst"                              # `field in [Obs(), Fcst()]`
        if at.func in ("cmp_eq", "cmp_ne") and "call:verif.field.Fcst()" in k and cur_field:
            return "is_fcst"
        if at.func in ("cmp_eq", "cmp_ne") and "call:verif.field.Obs()" in k and cur_field and "_obs_range" not in k:
            return "is_obs"
        if at.func in ("in", "notin") and "call:verif.field.Fcst()" in k:
            return "fcst_requested"
        if at.func in ("in", "notin") and "call:verif.field.Obs()" in k:
            return "obs_requested"
        return None
    kinds = {k: kind(at) for k, at in leaves.items()}
    kv = set(kinds.values())
    ctx.need({"subtract", "present"} <= kv and ({"is_fcst", "is_obs"} <= kv or "is_obsfcst" in kv),
             "%s: the conditions of the anomaly step (climatology present, field is Obs/Fcst, clim_type) were not recognised: %s" % (site, sorted(set(kinds.values()) - {None})))

    def resolve(value, truth):
        def fn(at):
            kd = kinds.get(at.key)
            if kd is None or kd not in truth:
                return None
            t = truth[kd]
            if kd == "present":
                t = t if at.func == "cmp_ne" else not t          # `clim is not None`
            elif at.func in ("cmp_ne", "notin"):
                t = not t
            return Rat.const(1 if t else 0)
        return form.map_atoms(value, fn)
    scenarios = []
    for fld in ("fcst", "obs"):
        for typ in ("subtract", "divide"):
            scenarios.append(("%s field, clim_type %s" % (fld, typ),
                              {"present": True, "is_fcst": fld == "fcst", "is_obs": fld == "obs", "is_obsfcst": True, "fcst_requested": fld == "fcst" or None,
                               "obs_requested": fld == "obs" or None, "subtract": typ == "subtract"}, typ))
    scenarios.append(("another field", {"present": True, "is_fcst": False, "is_obs": False, "is_obsfcst": False, "fcst_requested": True, "obs_requested": True, "subtract": True}, None))
    scenarios.append(("no climatology", {"present": False, "is_fcst": True, "is_obs": False, "is_obsfcst": True, "fcst_requested": True, "obs_requested": False, "subtract": True}, None))
    for name, truth, typ in scenarios:
        truth = {k: v for k, v in truth.items() if v is not None}
        for extra in ([{}] if all(k in truth for k in ("fcst_requested", "obs_requested")) else
                      [{k: b} for k in ("fcst_requested", "obs_requested") if k not in truth for b in (True, False)]):
            tr = dict(truth)
            tr.update(extra)
            try:
                got = resolve(final, tr)
                b0 = resolve(base, tr)
                cl = resolve(applied, tr)
                want = b0 if typ is None else (b0 - cl if typ == "subtract" else b0 / cl)
                ok = got.equals(want)
            except form.Undefined:
                ok, got = False, None
            ctx.ob("C14.2", site, ok, "%s: the field becomes %s" % (name, "value - climatology" if typ == "subtract" else "value / climatology" if typ == "divide" else "the value itself"),
                   loc=prog.loc(m, currs[-1]["node"]),
                   msg="%s (clim_type %s): the field becomes %s" % (name, "'%s'" % typ if typ else "any", str(got)[:220]),
                   sample={"rule": "C14.2", "scenario": name, "ok": ok})
    ctx.floor("C14.2", 7)


def check_driver(ctx):
    prog = ctx.prog
    site = "verif.driver.run"
    m = prog.module("verif.driver")
    f = prog.func(site)
    want = {"-c": "subtract", "-C": "divide"}
    found = {}
    for n in ast.walk(f):
        if isinstance(n, ast.If) and isinstance(n.test, ast.Compare) and dotted(n.test.left) == "arg" and len(n.test.comparators) == 1:
            flag = const(n.test.comparators[0])
            if flag in want:
                d = {}
                for st in n.body:
                    if isinstance(st, ast.Assign) and len(st.targets) == 1 and isinstance(st.targets[0], ast.Name):
                        d[st.targets[0].id] = st.value
                found[flag] = d
    from . import c13
    loops = c13.arg_loop(f, prog)
    for flag, typ in want.items():
        # by value: what the option loop does when the argument is this flag
        eff = c13.option_effects(m, loops[-1], flag) if loops else None
        if eff is not None and eff[0]:
            changed, consumed, nxt = eff
            kinds = {k: c13.kind_of_value(v, nxt) for k, v in changed.items()}
            ct = changed.get("clim_type")
            ok = kinds.get("clim_file") == "input" and isinstance(ct, Rat) and symeval._strval(ct) == typ and consumed == 2
            ctx.ob("C14.4", site, ok, "%s loads the file as climatology with clim_type '%s'" % (flag, typ), loc=prog.loc(m, f),
                   msg="%s sets %s" % (flag, {k: str(v)[:80] for k, v in changed.items()}))
            continue
        d = found.get(flag, {})
        ok = const(d.get("clim_type")) == typ and "clim_file" in d and "get_input(arg_next)" in norm(d["clim_file"])
        ctx.ob("C14.4", site, ok, "%s loads the file as climatology with clim_type '%s'" % (flag, typ), loc=prog.loc(m, f),
               msg="%s sets %s" % (flag, {k: norm(v) for k, v in d.items()}))
    kw = {}
    from ..core import calls_in, call_name
    for call in calls_in(f):
        if call_name(m, call) == "verif.data.Data":
            kw = {k.arg: dotted(k.value) for k in call.keywords}
    ctx.ob("C14.4", site, kw.get("clim") == "clim_file" and kw.get("clim_type") == "clim_type", "Data(clim=clim_file, clim_type=clim_type)",
           msg="Data receives clim=%s clim_type=%s" % (kw.get("clim"), kw.get("clim_type")))


def run(ctx):
    ctx.rule("C14.1", "climatology appended before the intersections; excluded from counts, names, legend (siblings)")
    ctx.rule("C14.2", "operand = Fcst of the last input at the same slice; applied to Obs/Fcst only as value-clim or value/clim")
    ctx.rule("C14.3", "missing/non-finite climatology drops the case for every input (shared with C01)")
    ctx.rule("C14.4", "-c / -C select subtract / divide; clim_type validated")
    check_structure(ctx)
    check_anomaly(ctx)
    check_driver(ctx)
    from . import c01
    from .c04 import _import
    sub = type(ctx)(ctx.prog, "C01", ctx.tier, True)
    c01.check_get_score(sub)
    c01.check_get_scores(sub)
    keep = type(ctx)(ctx.prog, "C01", ctx.tier, True)
    for (rule, site, what, ok, nt) in sub.obligations:
        if (rule == "C01.1" and ("climatology" in what or "every input" in what or "union" in what)) or (rule == "C01.2" and "non-finite" in what):
            f = [x for x in sub.findings if x.rule == rule and x.site == site and x.construct == what]
            ctx.ob("C14.3", site, ok, what, loc=f[0].loc if f else None, msg=f[0].message if f else what)
    ctx.floor("C14.1", 9)
    ctx.floor("C14.3", 6)


CLAIM = {
    "level": "Static ORDER/WIRE/FORM analysis of the climatology mechanism: where it enters the input list relative to the intersections, "
             "which counts/names exclude it, what the anomaly operand is (same slice), to which fields and with which operator/orientation "
             "it is applied, and that missing/non-finite climatology values drop the case for every input. Necessary conditions for all "
             "datasets; the numerical equivalence with 'climatology as an extra input' is not decided.",
    "note": "Trusted: CPython ast, vsa symbolic folding with event log, numpy broadcasting. In-place application of the anomaly (aliasing) is "
            "decided in C18.",
    "technique": "static analysis: event-order (must-precede), sibling agreement of name functions, normal-form identity of the anomaly "
                 "(value - clim / value / clim), condition-set comparison",
}
