"""C14 - anomaly scores use the climatology at the same coordinates."""
import ast

from .. import form, q, symeval, trace
from ..core import AnalysisError, const, dotted, norm
from ..form import Rat

EXPLANATION = (
    "ORDER/WIRE/FORM analysis by symbolic folding with an event log: the climatology input is appended to the list of inputs (and a "
    "cache slot added) before the three dimension intersections, so dimensions are intersected with it; the number of inputs, the "
    "three name lists, the legend and the legend-length check exclude exactly that last input (siblings); in get_scores the "
    "climatology operand is the forecast field of the last input passed through the same axis slice as the data, it is applied iff "
    "the field is Obs or Fcst, as curr - clim (subtract) or curr / clim (divide), never reversed; the cross-input NaN union ranges "
    "over the climatology and non-finite quotients are removed (shared with C01); -c/-C select subtract/divide and clim_type is "
    "validated.")
ASSUMPTIONS = ["numpy broadcasting of arrays of identical shape", "numerical equivalence with 'climatology as an extra input' is not decided"]
AUDIT = {"functions": ["verif.data.Data.get_scores", "verif.data.Data.__init__", "verif.data.Data._get_num_inputs",
                       "verif.data.Data.get_names", "verif.data.Data.get_legend"]}


def S(n):
    return Rat.sym(n)


def check_structure(ctx):
    prog = ctx.prog
    site = "verif.data.Data.__init__"
    m = prog.module("verif.data")
    ev = trace.trace(prog, site, env={"inputs": S("INPUTS")})
    # order: climatology appended (and cache slot added) before the first intersection
    pos_clim = pos_first = None
    for k, e in enumerate(ev.events):
        if e["kind"] == "assign" and e["name"] == "self._inputs" and q.mentions(e["value"], "$clim") and pos_clim is None:
            pos_clim = k
        if e["kind"] == "call" and e["name"] == "self._get_common_indices" and pos_first is None:
            pos_first = k
    ctx.ob("C14.1", site, pos_clim is not None and pos_first is not None and pos_clim < pos_first,
           "the climatology is appended to the inputs before the dimension intersections", loc=prog.loc(m, prog.own_method(site)),
           msg="the climatology is not part of self._inputs when the common dimensions are computed")
    fall = [o for o in ev.outcomes if o.kind == "fallthrough"]
    ctx.need(len(fall) == 1, "%s: one normal exit expected" % site)
    env = fall[0].env
    inputs_v, cache_v = env.get("self._inputs"), env.get("self._get_score_cache")

    def longest(v):
        best = 0
        if isinstance(v, list):
            return len(v)
        for a in q.atoms(v, "pylist"):
            best = max(best, len(a.args[0]))
        return best
    ctx.ob("C14.1", site, longest(inputs_v) == longest(cache_v) and longest(inputs_v) == 3, "one cache slot per input including the climatology",
           msg="self._inputs has %s entries, self._get_score_cache %s (two unrolled inputs + climatology expected)" % (longest(inputs_v), longest(cache_v)))
    # legend length is compared with the number of files, not counting the climatology
    errs = [o for o in ev.outcomes if o.kind == "error" and o.conds and "$legend" in o.conds[-1][0].key()]
    ctx.need(errs, "%s: the legend-length check was not found" % site)
    c = errs[0].conds[-1][0]
    ctx.ob("C14.1", site, "$clim" not in c.key() and "len($legend)" in c.key(), "one legend entry per scored input (climatology not counted)",
           loc=prog.loc(m, errs[0].node), msg="the legend-length check counts the climatology: %s" % c.key()[:160])
    # clim_type validated
    errs2 = [o for o in ev.outcomes if o.kind == "error" and o.conds and "$clim_type" in o.conds[-1][0].key()]
    ok = False
    for o in errs2:
        k = o.conds[-1][0].key()
        ok = ok or ("str:'subtract'" in k and "str:'divide'" in k)
    ctx.ob("C14.4", site, ok, "clim_type other than subtract/divide is rejected", msg="clim_type is no longer validated")

    # sibling name functions
    for fn, attr in (("get_names", "name"), ("get_full_names", "fullname"), ("get_short_names", "shortname")):
        qn = "verif.data.Data." + fn
        f = prog.own_method(qn)
        outs = [o for o in symeval.Evaluator(m).run(f) if o.kind == "return"]
        base = form.apply("map", [form.apply("attr:" + attr, [form.apply("elem", [S("self._inputs")])]), S("self._inputs")])
        cut = form.apply("getitem", [base, ("slice", Rat.const(0), Rat.const(-1), "None")])
        has_clim = form.apply("cmp_ne", [S("None") - S("self._clim"), Rat.const(0)])
        ok = False
        for o in outs:
            v = o.value
            if isinstance(v, Rat) and v.equals(form.apply("ifexp", [has_clim, cut, base])):
                ok = True
        if not ok and len(outs) == 2:
            with_c = [o for o in outs if q.has_cond(o.conds, lambda c_: c_.equals(has_clim), True)]
            wo_c = [o for o in outs if q.has_cond(o.conds, lambda c_: c_.equals(has_clim), False)]
            ok = bool(with_c) and bool(wo_c) and with_c[0].value.equals(cut) and wo_c[0].value.equals(base)
        ctx.ob("C14.1", qn, ok, "%s drops exactly the last (climatology) entry" % fn, loc=prog.loc(m, f),
               msg="%s returns %s" % (fn, [str(o.value)[:100] for o in outs]))
    f = prog.own_method("verif.data.Data._get_num_inputs")
    outs = [o for o in symeval.Evaluator(m).run(f) if o.kind == "return"]
    want = form.apply("len", [S("self._inputs")]) - form.apply("cmp_ne", [S("None") - S("self._clim"), Rat.const(0)])
    ctx.ob("C14.1", "verif.data.Data._get_num_inputs", len(outs) == 1 and outs[0].value.equals(want), "num_inputs = len(inputs) - (climatology present)",
           loc=prog.loc(m, f), msg="_get_num_inputs returns %s" % [str(o.value) for o in outs])
    f = prog.own_method("verif.data.Data._get_num_inputs_with_clim")
    outs = [o for o in symeval.Evaluator(m).run(f) if o.kind == "return"]
    ctx.ob("C14.1", "verif.data.Data._get_num_inputs_with_clim", len(outs) == 1 and outs[0].value.equals(form.apply("len", [S("self._inputs")])),
           "inputs including the climatology = len(self._inputs)", loc=prog.loc(m, f), msg="_get_num_inputs_with_clim returns %s" % [str(o.value) for o in outs])
    f = prog.own_method("verif.data.Data.get_legend")
    outs = [o for o in symeval.Evaluator(m).run(f) if o.kind == "return"]
    vals = [o.value for o in outs]
    ok = any(isinstance(v, Rat) and "self.get_names()" in v.key() for v in vals) and all(isinstance(v, Rat) and "get_full_names" not in v.key() and "$self._inputs" not in v.key() for v in vals)
    ctx.ob("C14.1", "verif.data.Data.get_legend", ok, "legend = user legend or get_names() (climatology excluded)", loc=prog.loc(m, f),
           msg="get_legend returns %s" % [str(v)[:80] for v in vals])
    # num_inputs attribute uses the clim-free count
    ni = env.get("self.num_inputs")
    ctx.ob("C14.1", site, isinstance(ni, Rat) and ni.key() == "self._get_num_inputs()", "Data.num_inputs excludes the climatology",
           msg="self.num_inputs = %s" % ni)


def check_anomaly(ctx):
    prog = ctx.prog
    site = "verif.data.Data.get_scores"
    m = prog.module("verif.data")
    ev = trace.trace(prog, site)
    clim_assign = [a for a in trace.assigns(ev, "clim")]
    ctx.need(clim_assign, "%s: the climatology operand was not found" % site)
    applied = form.apply("self._apply_axis", [form.apply("self._get_score", [form.apply("call:verif.field.Fcst", []),
                                                                            form.apply("len", [S("self._inputs")]) - Rat.const(1)]),
                                              S("axis"), S("axis_index")])
    got = [a["value"] for a in clim_assign if isinstance(a["value"], Rat) and not a["value"].is_zero()]
    ok = bool(got) and all(v.equals(applied) for v in got)
    ctx.ob("C14.2", site, ok, "climatology operand = Fcst of the last input through the same axis slice", loc=prog.loc(m, clim_assign[0]["node"]),
           msg="the climatology operand is %s" % [str(v)[:200] for v in got],
           sample={"rule": "C14.2", "operand": [str(v)[:200] for v in got]})
    # the anomaly assignments inside the field loop (first unrolled iteration)
    currs = [a for a in trace.assigns(ev, "curr") if a["iter"] == (1,)]
    ctx.need(len(currs) >= 3, "%s: assignments of the sliced field not found" % site)
    base = currs[0]["value"]
    clim_var = None
    for a in reversed(clim_assign):
        pass
    # the value of `clim` seen in the loop is the merged ifexp(doClim, applied, 0)
    sub = [a for a in currs[1:] if q.has_cond(a["conds"], lambda c: "str:'subtract'" in c.key(), True)]
    div = [a for a in currs[1:] if q.has_cond(a["conds"], lambda c: "str:'subtract'" in c.key(), False)]
    ctx.need(sub and div, "%s: subtract / divide branches not recognised" % site)
    for a in sub:
        d = base - a["value"]
        ok = isinstance(d, Rat) and any(x.func == "self._apply_axis" for x in q.atoms(d)) and \
            (d.equals(applied) or (q.top(d, "ifexp") is not None and q.top(d, "ifexp").args[1].equals(applied) and q.top(d, "ifexp").args[2].is_zero()))
        ctx.ob("C14.2", site, ok, "subtract: anomaly = value - climatology", loc=prog.loc(m, a["node"]),
               msg="with clim_type 'subtract' the field becomes %s" % str(a["value"])[:200])
    for a in div:
        try:
            r = base / a["value"]
        except form.Undefined:
            r = None
        ok = isinstance(r, Rat) and (r.equals(applied) or (q.top(r, "ifexp") is not None and q.top(r, "ifexp").args[1].equals(applied)))
        ctx.ob("C14.2", site, ok, "divide: anomaly = value / climatology", loc=prog.loc(m, a["node"]),
               msg="with clim_type 'divide' the field becomes %s" % str(a["value"])[:200])
    # applied iff the field is Obs or Fcst (and a climatology is present)
    for a in sub + div:
        conds = [c for c, pol in a["conds"] if pol and "call:verif.field" in c.key() and "getitem" in c.key()]
        ok = False
        for c in conds:
            leaves = q.leaves(c, "and")
            fieldtests = [l for l in leaves if l.as_atom() is not None and l.as_atom().func == "or"]
            if fieldtests:
                alts = q.leaves(fieldtests[0], "or")
                keys = sorted(x.key() for x in alts)
                ok = len(alts) == 2 and any("call:verif.field.Fcst()" in k for k in keys) and any("call:verif.field.Obs()" in k for k in keys) \
                    and all(x.as_atom() is not None and x.as_atom().func == "cmp_eq" for x in alts)
        ctx.ob("C14.2", site, ok, "the climatology is applied exactly to the Obs and Fcst fields", loc=prog.loc(m, a["node"]),
               msg="the anomaly is applied under %s" % [c.key()[:160] for c in conds])
    ctx.floor("C14.2", 5)


def check_driver(ctx):
    prog = ctx.prog
    site = "verif.driver.run"
    m = prog.module("verif.driver")
    f = prog.func(site)
    want = {"-c": "subtract", "-C": "divide"}
    found = {}
    for n in ast.walk(f):
        if isinstance(n, ast.If) and isinstance(n.test, ast.Compare) and dotted(n.test.left) == "arg" and len(n.test.comparators) == 1:
            flag = const(n.test.comparators[0])
            if flag in want:
                d = {}
                for st in n.body:
                    if isinstance(st, ast.Assign) and len(st.targets) == 1 and isinstance(st.targets[0], ast.Name):
                        d[st.targets[0].id] = st.value
                found[flag] = d
    for flag, typ in want.items():
        d = found.get(flag, {})
        ok = const(d.get("clim_type")) == typ and "clim_file" in d and "get_input(arg_next)" in norm(d["clim_file"])
        ctx.ob("C14.4", site, ok, "%s loads the file as climatology with clim_type '%s'" % (flag, typ), loc=prog.loc(m, f),
               msg="%s sets %s" % (flag, {k: norm(v) for k, v in d.items()}))
    kw = {}
    from ..core import calls_in, call_name
    for call in calls_in(f):
        if call_name(m, call) == "verif.data.Data":
            kw = {k.arg: dotted(k.value) for k in call.keywords}
    ctx.ob("C14.4", site, kw.get("clim") == "clim_file" and kw.get("clim_type") == "clim_type", "Data(clim=clim_file, clim_type=clim_type)",
           msg="Data receives clim=%s clim_type=%s" % (kw.get("clim"), kw.get("clim_type")))


def run(ctx):
    ctx.rule("C14.1", "climatology appended before the intersections; excluded from counts, names, legend (siblings)")
    ctx.rule("C14.2", "operand = Fcst of the last input at the same slice; applied to Obs/Fcst only as value-clim or value/clim")
    ctx.rule("C14.3", "missing/non-finite climatology drops the case for every input (shared with C01)")
    ctx.rule("C14.4", "-c / -C select subtract / divide; clim_type validated")
    check_structure(ctx)
    check_anomaly(ctx)
    check_driver(ctx)
    from . import c01
    from .c04 import _import
    sub = type(ctx)(ctx.prog, "C01", ctx.tier, True)
    c01.check_get_score(sub)
    c01.check_get_scores(sub)
    keep = type(ctx)(ctx.prog, "C01", ctx.tier, True)
    for (rule, site, what, ok, nt) in sub.obligations:
        if (rule == "C01.1" and ("climatology" in what or "every input" in what or "union" in what)) or (rule == "C01.2" and "non-finite" in what):
            f = [x for x in sub.findings if x.rule == rule and x.site == site and x.construct == what]
            ctx.ob("C14.3", site, ok, what, loc=f[0].loc if f else None, msg=f[0].message if f else what)
    ctx.floor("C14.1", 9)
    ctx.floor("C14.3", 6)


CLAIM = {
    "level": "Static ORDER/WIRE/FORM analysis of the climatology mechanism: where it enters the input list relative to the intersections, "
             "which counts/names exclude it, what the anomaly operand is (same slice), to which fields and with which operator/orientation "
             "it is applied, and that missing/non-finite climatology values drop the case for every input. Necessary conditions for all "
             "datasets; the numerical equivalence with 'climatology as an extra input' is not decided.",
    "note": "Trusted: CPython ast, vsa symbolic folding with event log, numpy broadcasting. In-place application of the anomaly (aliasing) is "
            "decided in C18.",
    "technique": "static analysis: event-order (must-precede), sibling agreement of name functions, normal-form identity of the anomaly "
                 "(value - clim / value / clim), condition-set comparison",
}
