"""C02 - values are matched by coordinates, not by position or file order."""
from .. import form, q, trace
import ast
from ..core import AnalysisError, const, dotted, norm
from ..form import Rat

EXPLANATION = (
    "INDEX/provenance analysis of Data._get_common_indices, Data._get_score and Data.__init__/driver.run by symbolic folding "
    "with an event log: the index stored for common value v of input k is the FIRST position where input k's OWN values equal "
    "v, for every axis and on every path; the two loops of _get_common_indices read the same attribute per axis (siblings); "
    "index lists are returned in input order; time/leadtime/location index lists subscript positions 0/1/2; files reach the "
    "dataset in command-line order with the climatology appended last.")
ASSUMPTIONS = ["np.where(a == b)[0] lists matching positions in ascending order", "floating-point equality of coordinates is numpy's"]
AUDIT = {"functions": ["verif.data.Data._get_common_indices", "verif.data.Data._get_score"]}

AXES = {"Time": "times", "Leadtime": "leadtimes", "Location": "id"}


def _axis_alternatives(r):
    """Walk ifexp(axis == X, v, rest) chains -> {axis name: value}."""
    out = {}
    while isinstance(r, Rat):
        at = r.as_atom("ifexp")
        if at is None:
            break
        c, a, b = at.args
        name = None
        for ax in AXES:
            if "call:verif.axis.%s()" % ax in c.key() and "$axis" in c.key():
                name = ax
        if name is None:
            break
        if name in out:
            break          # the unreachable "no axis matched" alternative repeats the previous binding
        out[name] = a
        r = b
    return out


def _attr_of(v, ax):
    want = AXES[ax]
    names = set(a.func[5:] for a in q.atoms(v) if a.func.startswith("attr:"))
    return want in names, names


def _check_common_indices_shape_based(ctx):      # superseded by the value-based check_common_indices (kept for reference, not run)
    prog = ctx.prog
    site = "verif.data.Data._get_common_indices"
    m = prog.module("verif.data")
    ev = trace.trace(prog, site)
    f = prog.func(site)
    loops = [l for l in ev.loops if not l["conds"] or True]
    outer = [l for l in ev.loops if isinstance(l["iter"], Rat) and l["iter"].key() in ("$inputs", "call:enumerate($inputs)")]
    ctx.need(len(outer) >= 2, "%s: the two loops over the inputs were not found" % site)
    l1, l2 = outer[0]["node"], outer[-1]["node"]
    ctx.need(l1 is not l2, "%s: one loop over inputs only" % site)

    # sibling agreement: the attribute read per axis in loop 1 (values) and loop 2 (lookup)
    cv = [a for a in trace.assigns(ev, "curr_values") if a["loops"] and a["loops"][-1] is l1]
    first_sorted = None
    for a in trace.assigns(ev):
        if a["loops"] and a["loops"][-1] is l1 and a["iter"] == (1,) and isinstance(a["value"], Rat) and a["value"].as_atom("sort") is not None:
            first_sorted = a["value"].as_atom("sort").args[0]
            break
    ctx.need(first_sorted is not None, "%s: the per-input values are not sorted before use (np.sort not found)" % site)
    alt1 = _axis_alternatives(first_sorted)
    lookups = [e for e in trace.stores(ev) if e["loops"] and e["loops"][0] is l2 and len(e["loops"]) == 2]
    # the searched array of loop 2 is the second operand of the equality in the first-match expression
    ctx.need(lookups, "%s: the per-value index store of the second loop was not found" % site)
    for ax in AXES:
        ok1, names1 = _attr_of(alt1.get(ax), ax) if ax in alt1 else (False, set())
        ctx.ob("C02.1", site, ok1, "loop 1 reads %s for axis %s" % (AXES[ax], ax), loc=prog.loc(m, l1),
               msg="for axis %s the common values are computed from attribute(s) %s" % (ax, sorted(names1)))
    # ---- first match in the input's own values --------------------------------------------------
    appended = [a for a in trace.assigns(ev, "indices") if isinstance(a["value"], list) and a["loops"]]
    ctx.need(appended, "%s: indices.append(...) in the second loop not found" % site)
    finals = {}
    for a in appended:
        if len(a["value"]) == 2:
            finals[tuple(x.key() for x in a["value"])] = a["value"]
    ctx.need(finals, "%s: two unrolled iterations expected" % site)
    for k, II in [(k, II) for final in finals.values() for k, II in enumerate(final, start=1)]:
        own = "elem#%d($inputs)" % k
        other = "elem#%d($inputs)" % (3 - k)
        sets = q.atoms(II, "setitem")
        leaf_vals = []
        # every alternative that can be appended must be built from first-match stores
        alts = [II]
        top = II.as_atom("ifexp") if isinstance(II, Rat) else None
        if top is not None:
            alts = [top.args[1], top.args[2]]
        for alt in alts:
            ok_shape = isinstance(alt, Rat) and alt.as_atom("setitem") is not None
            ctx.ob("C02.1", site, ok_shape, "input #%d: the appended index list is filled value by value" % k, loc=prog.loc(m, l2),
                   msg="the index list appended for input #%d can be %s (not a per-value first-match lookup)" % (k, str(alt)[:160]))
        # the chain of stores II[i#1] = .., II[i#2] = .. (top level only)
        chain = []
        for alt in alts:
            cur = alt
            while isinstance(cur, Rat) and cur.as_atom("setitem") is not None:
                chain.append(cur.as_atom("setitem"))
                cur = cur.as_atom("setitem").args[0]
        if not chain:
            continue
        av_assigns = [a for a in trace.assigns(ev, "available_values") if not a["loops"] and isinstance(a["value"], Rat)]
        ctx.need(av_assigns, "%s: common values not found" % site)
        AV = av_assigns[-1]["value"]
        for st in chain:
            idx, val = st.args[1], st.args[2]
            g = q.top(val, "getitem")
            first = g is not None and isinstance(g.args[1], Rat) and g.args[1].const_value() == 0
            inner = q.top(g.args[0], "getitem") if g is not None else None
            wh = q.top(inner.args[0], "where") if inner is not None else None
            eq = q.top(wh.args[0], "cmp_eq") if wh is not None else None
            if eq is None or not isinstance(idx, Rat):
                ctx.ob("C02.1", site, False, "input #%d: index = where(available == own values)[0][0]" % k, loc=prog.loc(m, l2),
                       msg="the index stored for input #%d is %s" % (k, str(val)[:200]))
                continue
            d = eq.args[0]
            avi = form.apply("getitem", [AV, idx])
            cands = [avi - d, d + avi]
            temp = None
            for c_ in cands:
                if c_.as_atom() is not None and AV.key() not in c_.key():
                    temp = c_
            ctx.ob("C02.1", site, first, "input #%d: FIRST matching position" % k, loc=prog.loc(m, l2),
                   msg="input #%d takes element %s of the match list instead of the first" % (k, g.args[1]))
            ok = temp is not None
            if ok:
                alts_t = _axis_alternatives(temp) or {"*": temp}
                ok = all(own in v.key() and other not in v.key() for v in alts_t.values())
            ctx.ob("C02.1", site, ok, "input #%d: common value [i] matched against the input's own coordinate values" % k, loc=prog.loc(m, l2),
                   msg="the positions for input #%d are looked up by comparing %s" % (k, str(d)[:200]),
                   sample={"rule": "C02.1", "input": k, "searched": str(temp)[:160]})
    # loop 2 reads the same attribute per axis
    temps = [a for a in trace.assigns(ev, "temp") if a["loops"] and a["loops"][0] is l2]
    st_ids = [e for e in trace.stores(ev, "temp") if e["loops"] and e["loops"][0] is l2]
    seen = {}
    for a in temps:
        for ax in AXES:
            if q.has_cond(a["conds"], lambda c: "call:verif.axis.%s()" % ax in c.key(), True) and isinstance(a["value"], Rat):
                seen.setdefault(ax, set()).update(x.func[5:] for x in q.atoms(a["value"]) if x.func.startswith("attr:"))
    for e in st_ids:
        for ax in AXES:
            if q.has_cond(e["conds"], lambda c: "call:verif.axis.%s()" % ax in c.key(), True) and isinstance(e["value"], Rat):
                seen.setdefault(ax, set()).update(x.func[5:] for x in q.atoms(e["value"]) if x.func.startswith("attr:"))
    for ax in AXES:
        ctx.ob("C02.1", site, AXES[ax] in seen.get(ax, set()), "loop 2 reads %s for axis %s (same as loop 1)" % (AXES[ax], ax), loc=prog.loc(m, l2),
               msg="for axis %s the index lookup reads attribute(s) %s" % (ax, sorted(seen.get(ax, set()))))
    # returned in input order
    rets = [o for o in ev.outcomes if o.kind == "return"]
    ctx.need(rets, "%s: no return" % site)
    for r_ in rets:
        rv = r_.value
        ok = isinstance(rv, list) and len(rv) == 2 and "elem#1($inputs)" in rv[0].key() and "elem#2($inputs)" in rv[1].key()
        ctx.ob("C02.1", site, ok, "index lists are returned in input order", loc=prog.loc(m, r_.node),
               msg="the returned list is not [indices of input 1, indices of input 2, ...]: %s" % [str(x)[:80] for x in rv] if isinstance(rv, list) else str(rv)[:100])
    pass
    return ev


def _kw(at):
    return {x[0][3:]: x[1] for x in at.args if isinstance(x, tuple) and x and isinstance(x[0], str) and x[0].startswith("kw:")}


def check_common_indices(ctx):
    """Value-based: _get_common_indices is folded once per dimension (axis fixed to Time / Leadtime / Location, the loops over the
    inputs unrolled twice) and the returned index array of each of the two generic inputs is taken apart:

        result_k[i] = where(values_k == common[i])[0][0]          first position of the i-th common value in input k's OWN values
        common      = sort(intersection over ALL inputs (and the user's list) of unique(values_j)) without NaN

    Nothing here depends on how local variables are called or on how the loops are written."""
    prog = ctx.prog
    site = "verif.data.Data._get_common_indices"
    m = prog.module("verif.data")
    f = prog.func(site)
    loc = prog.loc(m, f)
    want_attrs = {"Time": {"times"}, "Leadtime": {"leadtimes"}, "Location": {"locations", "id"}}
    for ax in ("Time", "Leadtime", "Location"):
        ev = trace.trace(prog, site, env={"axis": form.apply("call:verif.axis." + ax, [])})
        rets = [o for o in ev.outcomes if o.kind == "return"]
        ctx.need(rets, "%s(axis=%s): no return" % (site, ax))
        all_res = []
        for o_ in rets:
            val = o_.value
            res = val if isinstance(val, list) else (list(val.as_atom("pylist").args[0]) if isinstance(val, Rat) and val.as_atom("pylist") is not None else None)
            ctx.need(res is not None and len(res) == 2, "%s(axis=%s): the result is not one index array per input" % (site, ax))
            all_res.append(res)
        commons = []
        seen_r = set()
        for k, r in [(k, r) for res in all_res for k, r in enumerate(res, start=1)]:
            if (k, r.key() if isinstance(r, Rat) else repr(r)) in seen_r:
                continue
            seen_r.add((k, r.key() if isinstance(r, Rat) else repr(r)))
            own = "elem#%d($inputs)" % k
            other = "elem#%d($inputs)" % (3 - k)
            chain = []
            cur = r
            while isinstance(cur, Rat) and cur.as_atom("setitem") is not None:
                chain.append(cur.as_atom("setitem"))
                cur = cur.as_atom("setitem").args[0]
            ok_fill = len(chain) == 2 and isinstance(cur, Rat) and cur.as_atom("zeros") is not None
            comp_form = None
            if not ok_fill and isinstance(r, Rat):
                # np.array([<entry for value> for value in common]) / np.fromiter(...): one entry per common value, in order, by construction
                ra = r.as_atom()
                inner_ = ra.args[0] if ra is not None and ra.func in ("nparray", "call:numpy.fromiter", "call:numpy.asarray") and ra.args and isinstance(ra.args[0], Rat) else None
                mp = inner_.as_atom("map") if inner_ is not None else None
                if mp is not None and len(mp.args) == 2 and isinstance(mp.args[0], Rat) and isinstance(mp.args[1], Rat):
                    comp_form = (mp.args[0], mp.args[1])
                    ok_fill = True
            ctx.ob("C02.1", site, ok_fill, "%s, input #%d: the index array is filled value by value (one entry per common value)" % (ax, k), loc=loc,
                   msg="for dimension %s the index array of input #%d is %s, not a per-value first-match lookup" % (ax, k, str(r)[:160]))
            if not ok_fill:
                continue
            if comp_form is not None:
                size = form.apply("len", [comp_form[1]])
                entries = [(None, comp_form[0])]
            else:
                size = cur.as_atom("zeros").args[0]
                entries = [(stx.args[1], stx.args[2]) for stx in chain]
            for idx, v in entries:
                g = v.as_atom("getitem") if isinstance(v, Rat) else None
                inner = g.args[0].as_atom("getitem") if g is not None and isinstance(g.args[0], Rat) else None
                wh = inner.args[0].as_atom("where") if inner is not None and isinstance(inner.args[0], Rat) else None
                eq = wh.args[0].as_atom("cmp_eq") if wh is not None and isinstance(wh.args[0], Rat) else None
                first = g is not None and isinstance(g.args[1], Rat) and g.args[1].const_value() == 0 and inner is not None \
                    and isinstance(inner.args[1], Rat) and inner.args[1].const_value() == 0
                ctx.ob("C02.1", site, eq is not None and first, "%s, input #%d: entry = np.where(values == common value)[0][0] (FIRST match)" % (ax, k), loc=loc,
                       msg="for dimension %s the entry of input #%d is %s: not the first position where the input's values equal the common value"
                           % (ax, k, str(v)[:160]))
                if eq is None:
                    continue
                d = eq.args[0]
                parts = d.atoms(deep=False)
                commonside = [a for a in parts if "intersect1d" in a.key]
                valside = [a for a in parts if "intersect1d" not in a.key]
                ok_split = len(commonside) == 1 and len(valside) == 1 and (commonside[0].func == "getitem" or commonside[0].func.startswith("elem#")
                                                                        or (comp_form is not None and commonside[0].func == "elem"))
                ctx.ob("C02.1", site, ok_split, "%s, input #%d: the comparison is between the input's values and one common value" % (ax, k), loc=loc,
                       msg="for dimension %s input #%d compares %s" % (ax, k, str(d)[:160]))
                if not ok_split:
                    continue
                vals = Rat.of_atom(valside[0])
                cg = commonside[0]
                attrs = {a.func[5:] for a in vals.atoms(deep=True) if a.func.startswith("attr:")}
                elems = {a.key for a in vals.atoms(deep=True) if a.func.startswith("elem#") and a.args and isinstance(a.args[0], Rat) and a.args[0].key() == "$inputs"}
                ctx.ob("C02.1", site, attrs == want_attrs[ax], "%s, input #%d: the searched values are the input's %s" % (ax, k, "/".join(sorted(want_attrs[ax]))), loc=loc,
                       msg="for dimension %s the index lookup of input #%d reads attribute(s) %s, expected %s" % (ax, k, sorted(attrs), sorted(want_attrs[ax])),
                       sample={"rule": "C02.1", "axis": ax, "input": k, "attrs": sorted(attrs)})
                ctx.ob("C02.1", site, elems == {own}, "%s, input #%d: the searched values are the input's OWN values" % (ax, k), loc=loc,
                       msg="for dimension %s the positions for input #%d are looked up in the values of %s" % (ax, k, sorted(elems)))
                if comp_form is not None:
                    # a comprehension over the common values keeps their order: entry i is computed from value i
                    ok_pos = cg.func == "elem" and cg.args and isinstance(cg.args[0], Rat) and cg.args[0].equals(comp_form[1])
                elif cg.func.startswith("elem#"):
                    # `for i, value in enumerate(common)`: the value of iteration k goes to the index of iteration k
                    ok_pos = isinstance(idx, Rat) and idx.key().endswith(cg.func[4:]) and idx.key().startswith("$")
                else:
                    ok_pos = isinstance(cg.args[1], Rat) and isinstance(idx, Rat) and cg.args[1].equals(idx)
                ctx.ob("C02.1", site, ok_pos, "%s, input #%d: entry i belongs to common value i" % (ax, k), loc=loc,
                       msg="for dimension %s entry %s of input #%d is the position of common value %s" % (ax, idx, k, cg.args[1] if len(cg.args) > 1 else cg.func))
                common = cg.args[0]
                commons.append(common)
                ok_size = isinstance(size, Rat) and size.equals(form.apply("len", [common]))
                ctx.ob("C02.1", site, ok_size, "%s, input #%d: one entry per common value" % (ax, k), loc=loc, msg="the index array has %s entries" % size)
        # the common values: sorted intersection over both generic inputs and the user's list, NaN removed
        if commons:
            c0 = commons[0]
            ctx.ob("C02.1", site, all(c.equals(c0) for c in commons), "%s: one list of common values for all inputs" % ax, loc=loc,
                   msg="for dimension %s different inputs are matched against different lists of common values" % ax)
            g = c0.as_atom("getitem")
            srt = g.args[0].as_atom("sort") if g is not None and isinstance(g.args[0], Rat) else None
            mask = g.args[1] if g is not None else None
            want_mask = form.apply("cmp_eq", [form.apply("isnan", [g.args[0]]), Rat.const(0)]) if g is not None and isinstance(g.args[0], Rat) else None
            ctx.ob("C02.1", site, srt is not None and isinstance(mask, Rat) and want_mask is not None and mask.equals(want_mask),
                   "%s: common values = sorted intersection with NaN removed" % ax, loc=loc,
                   msg="for dimension %s the common values are %s (expected np.sort(...)[isnan == 0])" % (ax, str(c0)[:160]))
            if srt is not None and isinstance(srt.args[0], Rat):
                inter = srt.args[0]
                k_ = inter.key()
                both = all(("unique(sort(%s" % pat) in k_ or ("unique(sort(map(attr:id(" in k_) for pat in ("attr:%s(elem#1($inputs))" % sorted(want_attrs[ax])[-1], "attr:%s(elem#2($inputs))" % sorted(want_attrs[ax])[-1])) \
                    if ax != "Location" else ("elem#1($inputs)" in k_ and "elem#2($inputs)" in k_)
                ctx.ob("C02.1", site, "intersect1d" in k_ and both, "%s: the intersection runs over the unique values of every input" % ax, loc=loc,
                       msg="for dimension %s the intersection is %s" % (ax, k_[:200]))
                aux_ok = "$aux" in k_ and "cmp_eq($None - $aux,0)" in k_
                ctx.ob("C02.1", site, aux_ok, "%s: the user's list restricts the result exactly when it is given" % ax, loc=loc,
                       msg="for dimension %s the user's list (aux) does not take part in the intersection as `if aux is not None`" % ax)
    ctx.floor("C02.1", 40)


def common_values(prog, ax="Time"):
    """The list of common values of one dimension as a FORM value (taken out of the index lookup of the first generic input),
    or None."""
    site = "verif.data.Data._get_common_indices"
    ev = trace.trace(prog, site, env={"axis": form.apply("call:verif.axis." + ax, [])})
    rets = [o for o in ev.outcomes if o.kind == "return"]
    if not rets:
        return None, ev
    val = rets[-1].value
    res = val if isinstance(val, list) else (list(val.as_atom("pylist").args[0]) if isinstance(val, Rat) and val.as_atom("pylist") is not None else None)
    if not res:
        return None, ev
    for eq in q.atoms(res[0], "cmp_eq"):
        if not isinstance(eq.args[0], Rat):
            continue
        for a in eq.args[0].atoms(deep=False):
            if "intersect1d" in a.key and (a.func == "getitem" or a.func.startswith("elem#") or a.func == "elem") and isinstance(a.args[0], Rat):
                return a.args[0], ev
    return None, ev


def _strip_available(d, ev):
    """Key of the equality operand with the (input-independent) list of common values removed."""
    k = d.key()
    av = [a for a in trace.assigns(ev, "available_values") if not a["loops"]]
    for a in reversed(av):
        if isinstance(a["value"], Rat):
            k = k.replace(a["value"].key(), "<AV>")
    return k


def check_order(ctx):
    prog = ctx.prog
    # driver: files are collected in argv order and converted in that order
    import ast as _ast
    from ..core import dotted, norm
    site = "verif.driver.run"
    m = prog.module("verif.driver")
    f = prog.func(site)
    muts = []
    comp = None
    for n in _ast.walk(f):
        if isinstance(n, _ast.Call) and isinstance(n.func, _ast.Attribute) and dotted(n.func.value) == "ifiles":
            muts.append(n)
        if isinstance(n, _ast.Assign) and isinstance(n.value, _ast.ListComp) and len(n.value.generators) == 1 \
                and dotted(n.value.generators[0].iter) == "ifiles" and not n.value.generators[0].ifs:
            comp = n
    ok = bool(muts) and all(c.func.attr == "append" and len(c.args) == 1 and norm(c.args[0]) == "argv[i]" for c in muts)
    ctx.ob("C02.4", site, ok, "ifiles only grows by append(argv[i]) (command-line order)", loc=prog.loc(m, muts[0] if muts else f),
           msg="ifiles is modified by %s" % [norm(c) for c in muts])
    ok = comp is not None and isinstance(comp.value.elt, _ast.Call) and m.resolve(dotted(comp.value.elt.func)) == "verif.input.get_input"
    ctx.ob("C02.4", site, ok, "inputs = [get_input(f) for f in ifiles] (no reordering)", loc=prog.loc(m, comp or f),
           msg="the inputs are not built by mapping get_input over ifiles in order")
    # Data.__init__: appended in order, climatology last
    site2 = "verif.data.Data.__init__"
    ev2 = trace.trace(prog, site2, env={"inputs": Rat.sym("INPUTS")})
    m2 = prog.module("verif.data")
    finals = [a for a in trace.assigns(ev2, "self._inputs") if isinstance(a["value"], list)]
    ctx.need(finals, "%s: self._inputs is not built as a list" % site2)
    longest = max(finals, key=lambda a: len(a["value"]))["value"]
    keys = [x.key() for x in longest]
    ok = len(keys) == 3 and keys[0].startswith("elem#1(") and keys[1].startswith("elem#2(") and keys[2] == "$clim"
    ctx.ob("C02.4", site2, ok, "self._inputs = inputs in the given order, climatology appended last", loc=prog.loc(m2, finals[-1]["node"]),
           msg="self._inputs is built as %s" % [k[:40] for k in keys])


def _hashed_fields(prog):
    """The attributes Location.__hash__ reads (the identity of a coordinate object while it sits in a set or keys a dictionary)."""
    h = prog.own_method("verif.location.Location.__hash__")
    return sorted(set(n.attr for n in ast.walk(h) if isinstance(n, ast.Attribute) and dotted(n.value) == "self"))


def _field_writes(tree, fields):
    """(node, object source, field) for every write of one of ``fields`` on an object: assignment, augmented assignment, del, setattr."""
    out = []
    for n in ast.walk(tree):
        if isinstance(n, ast.Attribute) and isinstance(n.ctx, (ast.Store, ast.Del)) and n.attr in fields:
            out.append((n, norm(n.value), n.attr))
        elif isinstance(n, ast.Call) and dotted(n.func) in ("setattr", "delattr", "object.__setattr__") and len(n.args) >= 2 \
                and const(n.args[1]) in fields:          # a computed attribute name on an unknown object says nothing about Locations
            out.append((n, norm(n.args[0]), const(n.args[1])))
        elif isinstance(n, ast.Call) and isinstance(n.func, ast.Attribute) and n.func.attr == "update" \
                and isinstance(n.func.value, ast.Attribute) and n.func.value.attr == "__dict__":
            out.append((n, norm(n.func.value.value), "__dict__.update"))
    return out


def check_location_identity(ctx):
    """Coordinate objects are immutable where it matters: the fields a Location hashes are written only by its constructor.
    Locations are collected in sets and key the reader's and the dataset's lookups; a write after construction leaves the object
    filed under its old hash, so rows stored under it are no longer found for its coordinates."""
    prog = ctx.prog
    fields = _hashed_fields(prog)
    ctx.need(len(fields) >= 2, "verif.location.Location.__hash__: the hashed fields were not recognised")
    ctor = prog.own_method("verif.location.Location.__init__")
    set_in_ctor = set(f for (_n, obj, f) in _field_writes(ctor, fields) if obj == "self")
    ctx.ob("C02.5", "verif.location.Location.__init__", set_in_ctor == set(fields), "the constructor sets every hashed field %s" % fields,
           msg="hashed fields %s are not all set by the constructor (%s)" % (fields, sorted(set_in_ctor)))
    # control: the detector recognises each kind of write
    probe = ast.parse("loc.%s = 1\ninfo[k].%s += 1\nsetattr(x, '%s', 2)\ndel y.%s\n" % (fields[0], fields[0], fields[0], fields[0]))
    ctx.control("C02.5", len(_field_writes(probe, fields)) == 4, "assignment, augmented assignment, setattr and del of a hashed field are all recognised")
    nfun = 0
    for qual, m, c, f in prog.all_functions():
        nfun += 1
        in_location = c is not None and c.qual == "verif.location.Location"
        writes = _field_writes(f, fields)
        for n, obj, fld in writes:
            if obj == "self" and not in_location:
                continue          # another class's own attribute of the same name
            ok = in_location and f.name == "__init__" and obj == "self"
            ctx.ob("C02.5", qual, ok, "hashed field of a Location written only in its constructor", loc=prog.loc(m, n),
                   msg="%s.%s is written after construction: Location objects are hashed on %s and sit in sets / key dictionaries, so the "
                       "object stays filed under its old coordinates" % (obj, fld, "/".join(fields)),
                   sample={"rule": "C02.5", "function": qual, "object": obj, "field": fld})
    for m in prog.modules.values():          # module-level statements
        for st in m.tree.body:
            if isinstance(st, (ast.FunctionDef, ast.ClassDef)):
                continue
            for n, obj, fld in _field_writes(st, fields):
                ctx.ob("C02.5", m.name, False, "hashed field of a Location written only in its constructor", loc=prog.loc(m, n),
                       msg="%s.%s is written at module level" % (obj, fld))
    ctx.sample({"rule": "C02.5", "hashed_fields": fields, "functions_scanned": nfun})


def run(ctx):
    ctx.rule("C02.1", "value -> first index in the input's own values; sibling loops agree; lists returned in input order")
    ctx.rule("C02.2", "time/leadtime/location index lists subscript positions 0/1/2 (checked on the cache stores, see C01.3)")
    ctx.rule("C02.4", "file order is preserved from the command line to the dataset; climatology last")
    ctx.rule("C02.5", "the fields a Location is hashed on are written only by its constructor (who-may-write, whole program)")
    check_common_indices(ctx)
    check_order(ctx)
    check_location_identity(ctx)
    # C02.2 is evaluated on the same stores as C01.3
    from . import c01
    sub = type(ctx)(ctx.prog, "C01", ctx.tier, True)
    c01.check_get_score(sub)
    for (rule, site, what, ok, nt) in sub.obligations:
        if rule == "C01.3" and "positions 0/1/2" in what:
            ctx.ob("C02.2", site, ok, what, msg=what)
    for f in sub.findings:
        if f.rule == "C01.3":
            ctx.ob("C02.2", f.site, False, f.construct, loc=f.loc, msg=f.message)
    ctx.floor("C02.2", 2)


CLAIM = {
    "level": "Static index-discipline analysis: the lookup that turns a common coordinate value into a position is shown, for every axis and "
             "every path, to be the first match in the same input's own values; sibling loops read the same attribute; index lists and "
             "inputs keep their order; index lists subscript their own dimension. Necessary conditions for order-independence; "
             "no file is read.",
    "note": "Trusted: CPython ast, vsa symbolic folding (loops unrolled twice), numpy where/equality semantics. The text reader's own "
            "keying/densification is decided in C09. Not decided: floating-point equality of coordinates, duplicate handling beyond first match.",
    "technique": "static analysis: symbolic folding with event log; C02.1 by case evaluation per dimension (Data._get_common_indices folded with the "
                 "axis fixed to Time / Leadtime / Location and two generic inputs; each returned index array taken apart: entry i = "
                 "np.where(own values == common[i])[0][0], own attribute, own input, common = sorted NaN-free intersection over all inputs and "
                 "the user's list); provenance of index stores; order preservation; whole-program who-may-write rule on the fields Location.__hash__ reads "
                 "(C02.5); reference substitution for refactored functions",
}
