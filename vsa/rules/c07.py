"""C07 - event definitions (-b) are the documented open/closed intervals.

The property's quantifier (the complete set of order relations of a value to the thresholds) is a
finite abstract domain; every implementation that turns values into events is evaluated over it.
"""
import ast
import re

from .. import form, shape, symeval
from ..core import AnalysisError, dotted, norm, const, calls_in, call_name
from ..form import Rat

EXPLANATION = (
    "SHAPE analysis, exhaustive over a finite abstract domain: for each of the 8 bin types the literal is "
    "constant-propagated through util.get_intervals (symbolic single iteration of its loop) to the "
    "Interval constructor, Interval.within's boolean expression (array and scalar branch) is evaluated "
    "over all order relations x<l, x=l, l<x<u, x=u, x>u (and l=u) for the four flag combinations, and "
    "the composition is compared with the documented event; the same for util.apply_threshold, "
    "get_threshold_string, apply_threshold_prob and metric.QuantileCoverage. The help sentence of -b is "
    "parsed and compared with the frozen table. NaN membership is checked structurally (comparisons "
    "only on the non-NaN subset, result masked / NaN). Callers are checked to pass self.bin_type.")
ASSUMPTIONS = ["numpy comparison operators implement <, <=, >, >=, == on non-NaN floats",
               "thresholds passed to get_intervals are increasing (documented usage)"]
AUDIT = {"functions": ["verif.interval.Interval.within", "verif.interval.Interval.__init__",
                       "verif.util.get_intervals", "verif.util.apply_threshold",
                       "verif.util.apply_threshold_prob", "verif.util.get_threshold_string",
                       "verif.metric.QuantileCoverage.compute_single", "verif.output.Hist._plot_core",
                       "verif.output.Freq._plot_core"]}


def S(name):
    return Rat.sym(name)


def _find_atoms(r, func, out=None):
    out = [] if out is None else out
    if isinstance(r, Rat):
        for a in r.atoms(deep=True):
            if a.func == func:
                out.append(a)
    return out


def _regex_hook(ev, node, rname, args, kwargs, path):
    f = node.func
    if isinstance(f, ast.Attribute) and f.attr in ("match", "search") and isinstance(f.value, ast.Call):
        inner = f.value
        if ev.module.resolve(dotted(inner.func)) == "re.compile" and inner.args:
            pat = const(inner.args[0])
            if isinstance(pat, str) and args and isinstance(args[0], Rat):
                a = args[0].as_atom()
                if a is not None and a.func.startswith("str:"):
                    text = eval(a.func[4:])
                    m = getattr(re.compile(pat), f.attr)(text)
                    return Rat.const(1 if m else 0)
    return None


def strlit(s):
    return form.apply("str:" + repr(s), [])


# ------------------------------------------------------------------------------------------
def check_within(ctx):
    prog = ctx.prog
    site = "verif.interval.Interval.within"
    c = prog.cls("verif.interval.Interval")
    f = prog.own_method(site)
    m = c.module
    outs = [o for o in symeval.Evaluator(m).run(f) if o.kind == "return"]
    ctx.need(len(outs) >= 2, "%s: expected array and scalar paths" % site)
    lower, upper = S("self.lower"), S("self.upper")
    seen_array = seen_scalar = False
    for o in outs:
        v = o.value
        at = v.as_atom() if isinstance(v, Rat) else None
        event = None
        kind = None
        if at is not None and at.func.endswith("masked_array"):
            kind = "array"
            seen_array = True
            sets = _find_atoms(v, "setitem")
            ctx.need(len(sets) == 1, "%s: array branch is not a single masked store" % site)
            st = sets[0]
            idx, event = st.args[1], st.args[2]
            # NaN clause: comparisons only on the non-NaN subset; result masked where x is NaN
            idx_ok = isinstance(idx, Rat) and idx.equals(form.apply("where", [form.apply("cmp_eq", [form.apply("isnan", [S("x")]), Rat.const(0)])]))
            mask = [a for a in at.args if isinstance(a, tuple) and a and a[0] == "kw:mask"]
            mask_ok = bool(mask) and isinstance(mask[0][1], Rat) and mask[0][1].equals(form.apply("isnan", [S("x")]))
            ctx.ob("C07.6", site, idx_ok, "array branch evaluates comparisons only where isnan(x)==0", loc=prog.loc(m, f),
                   msg="membership is evaluated on an index other than where(isnan(x)==0): %s" % idx)
            ctx.ob("C07.6", site, mask_ok, "array branch masks the result where x is NaN", loc=prog.loc(m, f),
                   msg="the result is not a masked array with mask=isnan(x): missing values would belong to an event")
        elif v.key() == "$nan":
            nan_cond = any(pol and c_.equals(form.apply("isnan", [S("x")])) for c_, pol in o.conds)
            ctx.ob("C07.6", site, nan_cond, "scalar NaN gives NaN", loc=prog.loc(m, o.node),
                   msg="NaN is returned under a condition other than isnan(x)")
            continue
        else:
            kind = "scalar"
            seen_scalar = True
            event = v
            guarded = any((not pol) and c_.equals(form.apply("isnan", [S("x")])) for c_, pol in o.conds)
            ctx.ob("C07.6", site, guarded, "scalar branch excludes NaN before comparing", loc=prog.loc(m, o.node),
                   msg="scalar membership is evaluated without the isnan(x) guard")
        for leq in (False, True):
            for ueq in (False, True):
                roles = shape.Roles(lower, upper, {"$self.lower_eq": leq, "$self.upper_eq": ueq})
                try:
                    tab = shape.table2(event, roles)
                except shape.Tolerance as e:
                    ctx.ob("C07.1", site, False, "%s branch, lower_eq=%s upper_eq=%s denotes %s" % (kind, leq, ueq, shape.describe(True, True, leq, ueq)),
                           loc=prog.loc(m, f),
                           msg="Interval.within (%s branch) decides membership with a tolerance comparison (%s): values near, but not equal to, a closed end "
                               "belong to the interval, consecutive bins overlap and the array and scalar branches disagree" % (kind, e))
                    continue
                except shape.Unknown as e:
                    raise AnalysisError("%s (%s branch): %s" % (site, kind, e))
                exp = shape.expected_table(leq, ueq)
                ctx.ob("C07.1", site, tab == exp,
                       "%s branch, lower_eq=%s upper_eq=%s denotes %s" % (kind, leq, ueq, shape.describe(True, True, leq, ueq)),
                       loc=prog.loc(m, f),
                       msg="Interval.within (%s branch) with lower_eq=%s, upper_eq=%s does not denote %s: truth table %s"
                           % (kind, leq, ueq, shape.describe(True, True, leq, ueq), tab),
                       expected=exp, found=tab,
                       sample={"rule": "C07.1", "site": site, "branch": kind, "flags": [leq, ueq], "table": tab})
    ctx.need(seen_array and seen_scalar, "%s: array/scalar branch not recognised" % site)

    # constructor: positional parameters reach the attributes of the same name
    init = prog.own_method("verif.interval.Interval.__init__")
    o = [x for x in symeval.Evaluator(m).run(init) if x.kind == "fallthrough"]
    ctx.need(len(o) == 1, "Interval.__init__: expected straight-line body")
    env = o[0].env
    params = [a.arg for a in init.args.args[1:]]
    ctx.ob("C07.1", "verif.interval.Interval.__init__", params[:4] == ["lower", "upper", "lower_eq", "upper_eq"],
           "constructor parameter order (lower, upper, lower_eq, upper_eq)", loc=prog.loc(m, init),
           msg="Interval.__init__ parameter order changed: %s" % params)
    for name in ("lower", "upper", "lower_eq", "upper_eq"):
        v = env.get("self." + name)
        ok = isinstance(v, Rat) and name in v.symbols() and not (set(v.symbols()) & (set(params) - {name}))
        ctx.ob("C07.1", "verif.interval.Interval.__init__", ok, "self.%s <- parameter %s" % (name, name),
               loc=prog.loc(m, init), msg="self.%s is built from %s" % (name, v))


def intervals_for(ctx, bin_type):
    """Constant-propagate a bin type through util.get_intervals -> (lower, upper, leq, ueq, N)."""
    prog = ctx.prog
    m = prog.module("verif.util")
    f = prog.func("verif.util.get_intervals")
    made = []

    def hook(ev, node, rname, args, kwargs, path):
        r = _regex_hook(ev, node, rname, args, kwargs, path)
        if r is not None:
            return r
        if rname == "verif.interval.Interval":
            made.append((args, list(path.conds), node))
        return None
    ev = symeval.Evaluator(m, call_hook=hook)
    ev.loop_mode = "body_once"
    ev.run(f, env={"bin_type": strlit(bin_type)})
    inloop = [x for x in made if len(x[0]) == 4 and not all(isinstance(a, Rat) and a.is_const() for a in x[0][2:]) or True]
    # the constructor call inside the loop is the one whose bounds mention the loop variable / thresholds
    cand, seen = [], set()
    for x in made:
        if len(x[0]) == 4 and any(isinstance(a, Rat) and "thresholds" in a.key() for a in x[0][:2]):
            k_ = tuple(a.key() if isinstance(a, Rat) else repr(a) for a in x[0])
            if k_ not in seen:          # the same constructor value reached twice (helper + comprehension) is one interval shape
                seen.add(k_)
                cand.append(x)
    ctx.need(len(cand) == 1, "get_intervals(%r): expected one Interval(...) in the loop, found %d" % (bin_type, len(cand)))
    args = list(cand[0][0])
    # iteration space: the single `for` loop, or - for a comprehension - the sequence the returned list is mapped over
    it = None
    if len(ev.loops) == 1:
        it = ev.loops[0]["iter"]
    elif not ev.loops:
        for o in ev.outcomes:
            if o.kind == "return" and isinstance(o.value, Rat) and o.value.as_atom("map") is not None and "thresholds" in o.value.key():
                mp_ = o.value.as_atom("map")
                if len(mp_.args) == 2:
                    it = mp_.args[1]
    ctx.need(it is not None, "get_intervals: expected one loop")
    # the name of the loop variable does not matter: the only symbol of the bounds besides the thresholds is the position
    other = sorted(set(s_ for a in args[:2] if isinstance(a, Rat) for s_ in a.symbols()) - {"thresholds", "inf", "nan", "None"})
    if len(other) == 1 and other[0] != "i":
        args = [form.subst(a, {other[0]: S("i")}) if isinstance(a, Rat) else a for a in args]
    return args, it, cand[0][2]


def check_get_intervals(ctx, within_flags_ok=True):
    prog = ctx.prog
    m = prog.module("verif.util")
    site = "verif.util.get_intervals"
    th = S("thresholds")
    i = S("i")
    t_i = form.apply("getitem", [th, i])
    t_i1 = form.apply("getitem", [th, i + Rat.const(1)])
    n = form.apply("len", [th])
    flags = {}
    for bt, (hl, hu, lc, uc) in shape.BIN_TYPES.items():
        args, it, node = intervals_for(ctx, bt)
        lower, upper, leq, ueq = args
        exp_lower = t_i if hl else -S("inf")
        exp_upper = (t_i1 if hl else t_i) if hu else S("inf")
        ok_b = isinstance(lower, Rat) and isinstance(upper, Rat) and lower.equals(exp_lower) and upper.equals(exp_upper)
        ctx.ob("C07.2", site, ok_b, "%s: bounds (%s, %s)" % (bt, exp_lower, exp_upper), loc=prog.loc(m, node),
               msg="get_intervals(%r) builds bounds (%s, %s), documented (%s, %s)" % (bt, lower, upper, exp_lower, exp_upper))
        lv, uv = leq.const_value() if isinstance(leq, Rat) else None, ueq.const_value() if isinstance(ueq, Rat) else None
        ctx.need(lv is not None and uv is not None, "get_intervals(%r): closed-end flags are not constants: %s %s" % (bt, leq, ueq))
        # flags only matter at finite ends
        ok_f = (not hl or bool(lv) == lc) and (not hu or bool(uv) == uc)
        flags[bt] = (bool(lv), bool(uv))
        ctx.ob("C07.2", site, ok_f, "%s: denotes %s" % (bt, shape.describe(hl, hu, lc, uc)), loc=prog.loc(m, node),
               msg="-b %s is documented as %s but get_intervals makes it %s"
                   % (bt, shape.describe(hl, hu, lc, uc), shape.describe(hl, hu, bool(lv), bool(uv))),
               expected=shape.describe(hl, hu, lc, uc), found=shape.describe(hl, hu, bool(lv), bool(uv)),
               sample={"rule": "C07.2", "bin_type": bt, "lower": str(lower), "upper": str(upper),
                       "lower_eq": bool(lv), "upper_eq": bool(uv)})
        # number of intervals: len(thresholds) for one-sided, len-1 for within
        exp_n = (n - Rat.const(1)) if (hl and hu) else n
        at = it.as_atom() if isinstance(it, Rat) else None
        rng_ok = at is not None and at.func == "call:range" and (
            (len(at.args) == 1 and at.args[0].equals(exp_n)) or
            (len(at.args) == 2 and at.args[0].is_zero() and at.args[1].equals(exp_n)))
        ctx.ob("C07.2", site, rng_ok, "%s: one interval per %s" % (bt, "consecutive pair" if hl and hu else "threshold"),
               loc=prog.loc(m, node), msg="get_intervals(%r) iterates over %s, expected range(%s)" % (bt, it, exp_n))
    # C07.4 derived: partition and complement
    lw, uw = flags.get("within=", (None, None))
    ctx.ob("C07.4", site, (lw, uw) == (False, True), "within= over consecutive thresholds is a partition of (first, last]",
           msg="within= is not (l, u]: consecutive events overlap or leave a gap at interior thresholds")
    la, _ = flags.get("above", (None, None))
    _, ub = flags.get("below=", (None, None))
    ctx.ob("C07.4", site, la is False and ub is True, "above is the complement of below=",
           msg="above / below= are not complementary at the threshold")
    return flags


def check_apply_threshold(ctx):
    prog = ctx.prog
    m = prog.module("verif.util")
    site = "verif.util.apply_threshold"
    f = prog.func(site)
    arr = S("array")
    notnan = form.apply("cmp_eq", [form.apply("isnan", [arr]), Rat.const(0)])
    for bt, (hl, hu, lc, uc) in shape.BIN_TYPES.items():
        ev = symeval.Evaluator(m, call_hook=_regex_hook)
        outs = ev.run(f, env={"bin_type": strlit(bt)})
        rets = [o for o in outs if o.kind == "return"]
        ctx.need(rets, "apply_threshold(%r) never returns" % bt)
        if hl and hu:
            errs = [o for o in outs if o.kind == "error"]
            ctx.ob("C07.3", site, len(errs) >= 1, "%s without an upper threshold is rejected" % bt,
                   msg="apply_threshold(%r) without upper_threshold does not stop with an error" % bt)
        for o in rets:
            sets = _find_atoms(o.value, "setitem")
            if len(sets) != 1:
                ctx.ob("C07.3", site, False, "%s: one masked store of the event" % bt, loc=prog.loc(m, o.node),
                       msg="apply_threshold(%r) returns %s: no thresholding applied on this path (conds %s)"
                           % (bt, str(o.value)[:200], [(c.key(), p) for c, p in o.conds]))
                continue
            st = sets[0]
            idx, event = st.args[1], st.args[2]
            ctx.ob("C07.6", site, isinstance(idx, Rat) and idx.equals(notnan), "%s: thresholding only where isnan==0" % bt,
                   loc=prog.loc(m, o.node), msg="apply_threshold(%r) compares on index %s" % (bt, idx))
            thr, up = S("threshold"), S("upper_threshold")
            roles = shape.Roles(thr if hl else None, (up if hl else thr) if hu else None, {})
            try:
                tab = shape.table2(event, roles)
            except shape.Tolerance as e:
                ctx.ob("C07.3", site, False, "%s denotes %s" % (bt, shape.describe(hl, hu, lc, uc)), loc=prog.loc(m, o.node),
                       msg="apply_threshold(%r) uses a tolerance comparison (%s): values near a threshold are assigned to the event" % (bt, e))
                continue
            except shape.Unknown as e:
                raise AnalysisError("%s(%r): %s" % (site, bt, e))
            exp = shape.expected_table(lc, uc, hl, hu)
            ctx.ob("C07.3", site, tab == exp, "%s denotes %s" % (bt, shape.describe(hl, hu, lc, uc)), loc=prog.loc(m, o.node),
                   msg="apply_threshold(%r) does not denote %s: %s" % (bt, shape.describe(hl, hu, lc, uc), tab),
                   expected=exp, found=tab,
                   sample={"rule": "C07.3", "site": site, "bin_type": bt, "event": str(event)[:200], "table": tab})


def check_threshold_string(ctx):
    prog = ctx.prog
    m = prog.module("verif.util")
    site = "verif.util.get_threshold_string"
    f = prog.func(site)
    exp = {"below": "<", "below=": "<=", "above": ">", "above=": ">="}
    for bt, sym in exp.items():
        outs = symeval.Evaluator(m).run(f, env={"bin_type": strlit(bt)})
        rets = [o for o in outs if o.kind == "return"]
        ok = len(rets) == 1 and rets[0].value.equals(strlit(sym))
        ctx.ob("C07.3", site, ok, "%s is shown as '%s'" % (bt, sym), loc=prog.loc(m, f),
               msg="get_threshold_string(%r) gives %s, expected '%s'" % (bt, [str(r.value) for r in rets], sym))


def check_threshold_prob(ctx):
    prog = ctx.prog
    m = prog.module("verif.util")
    site = "verif.util.apply_threshold_prob"
    f = prog.func(site)
    arr, up = S("array"), S("upper_array")
    for bt, (hl, hu, lc, uc) in shape.BIN_TYPES.items():
        outs = symeval.Evaluator(m, call_hook=_regex_hook).run(f, env={"bin_type": strlit(bt)})
        rets = [o for o in outs if o.kind == "return"]
        exp = arr if not hl else ((Rat.const(1) - arr) if not hu else (up - arr))
        ctx.need(rets, "apply_threshold_prob(%r) never returns" % bt)
        for o in rets:
            ok = isinstance(o.value, Rat) and o.value.equals(exp)
            ctx.ob("C07.3", site, ok, "%s: probability %s" % (bt, exp), loc=prog.loc(m, o.node),
                   msg="apply_threshold_prob(%r) returns %s, expected %s (CDF convention P(X<=t))" % (bt, o.value, exp),
                   sample={"rule": "C07.3", "site": site, "bin_type": bt, "value": str(o.value)})


def check_quantile_coverage(ctx):
    prog = ctx.prog
    c = prog.cls("verif.metric.QuantileCoverage", required=False)
    if c is None or "compute_single" not in c.methods:
        ctx.note("QuantileCoverage not present")
        return
    m = c.module
    site = c.qual + ".compute_single"
    f = c.methods["compute_single"]
    # by cases: the closedness flags of the interval are fixed to each combination (however the code selects the comparison:
    # nested ifs, operator.le / operator.lt, ...); the paths that remain differ only in which end is infinite
    outs = []
    for lflag in (False, True):
        for uflag in (False, True):
            evq = symeval.Evaluator(m)
            for o in evq.run(f, env={"interval.lower_eq": Rat.const(1 if lflag else 0), "interval.upper_eq": Rat.const(1 if uflag else 0)}):
                if o.kind == "return":
                    o.case_flags = {"l": lflag, "u": uflag}
                    outs.append(o)
    ctx.need(len(outs) >= 8, "%s: expected return paths for every combination of closed/open ends" % site)
    for o in outs:
        flags = dict(o.case_flags)
        inf_lower = inf_upper = None
        for cnd, pol in o.conds:
            k = cnd.key()
            if k == "$interval.lower_eq":
                flags["l"] = pol
            elif k == "$interval.upper_eq":
                flags["u"] = pol
            elif k == "isinf($interval.lower)":
                inf_lower = pol
            elif k == "isinf($interval.upper)":
                inf_upper = pol
        at = o.value.as_atom() if isinstance(o.value, Rat) else None
        ctx.need(at is not None and at.func == "mean", "%s: return is not a mean of an event: %s" % (site, o.value))
        event = at.args[0]
        hl = not inf_lower
        hu = not (inf_upper is True)
        if inf_lower:
            hu = True
        # bounds: the quantile arrays indexed by I; subject: obs[I]
        gets = _find_atoms(event, "getitem")
        calls = _find_atoms(event, "call:data.get_scores")
        ctx.need(len(calls) == 1 and isinstance(calls[0].args[0], tuple), "%s: one get_scores([...]) request expected" % site)
        fields = [x.key() for x in calls[0].args[0]]

        def pick(fieldkey):
            if fieldkey not in fields:
                return None
            k = fields.index(fieldkey)
            for g in gets:
                inner = g.args[0].as_atom("getitem") if isinstance(g.args[0], Rat) else None
                if inner is not None and inner.args[0].as_atom() is calls[0] and isinstance(inner.args[1], Rat) \
                        and inner.args[1].const_value() == k:
                    return Rat.of_atom(g)
            return None
        lo = pick("call:verif.field.Quantile($interval.lower)") if hl else None
        hi = pick("call:verif.field.Quantile($interval.upper)") if hu else None
        subject = pick("call:verif.field.Obs()")
        ctx.need(subject is not None, "%s: observation operand not recognised" % site)
        ctx.need((lo is not None or not hl) and (hi is not None or not hu), "%s: quantile operands not recognised in %s" % (site, event))
        lc = flags.get("l", False)
        uc = flags.get("u", False)
        roles = shape.Roles(lo, hi, {}, x=subject)
        try:
            tab = shape.table2(event, roles)
        except shape.Unknown as e:
            raise AnalysisError("%s: %s" % (site, e))
        exp = shape.expected_table(lc, uc, hl, hu)
        ctx.ob("C07.3", site, tab == exp, "lower_eq=%s upper_eq=%s (%s) coverage event" % (lc if hl else "-", uc if hu else "-",
                                                                                         shape.describe(hl, hu, lc, uc)),
               loc=prog.loc(m, o.node), msg="QuantileCoverage counts %s for flags lower_eq=%s upper_eq=%s" % (tab, lc, uc),
               expected=exp, found=tab)


def parse_help(ctx):
    """The -b sentence of the help text -> {bin_type: (hl, hu, lc, uc)} or None."""
    prog = ctx.prog
    m = prog.module("verif.driver")
    f = prog.func("verif.driver.show_description")
    text = None
    for call in calls_in(f):
        if dotted(call.func) == "format_argument" and call.args and const(call.args[0]) == "-b type":
            text = const(call.args[1])
    if not isinstance(text, str):
        return None, None
    out = {}
    for name, body in re.findall(r"'(=?(?:below|above|within)=?)'\s*\(([^)]*)\)", text):
        ops = re.findall(r"<=|>=|<|>", body)
        if name.startswith("below") and len(ops) == 1:
            out[name] = (False, True, False, ops[0] == "<=")
        elif name.startswith("above") and len(ops) == 1:
            out[name] = (True, False, ops[0] == ">=", False)
        elif "within" in name and len(ops) == 2:
            out[name] = (True, True, ops[0] == "<=", ops[1] == "<=")
    return out, text


def check_callers(ctx):
    """Every caller hands the user's bin type (or a documented literal) to the event functions."""
    prog = ctx.prog
    targets = {"verif.util.get_intervals": 0, "verif.util.apply_threshold": 1, "verif.util.apply_threshold_prob": 1,
               "verif.util.get_threshold_string": 0}
    n = 0
    for qual, m, c, f in prog.all_functions():
        for call in calls_in(f):
            rn = call_name(m, call)
            if rn not in targets or len(call.args) <= targets[rn]:
                continue
            arg = call.args[targets[rn]]
            d = dotted(arg)
            lit = const(arg)
            ok = d in ("self.bin_type", "bin_type", "args.bin_type") or (isinstance(lit, str) and lit in shape.BIN_TYPES)
            n += 1
            ctx.ob("C07.5", qual, ok, "%s receives the bin type (%s)" % (rn.split(".")[-1], norm(arg)), loc=prog.loc(m, call),
                   msg="%s is called with %s as bin type" % (rn, norm(arg)))
    ctx.floor("C07.5", 25)


def check_counting_diagrams(ctx):
    """Hist (-hist) and Freq count events through Interval.within of get_intervals(self.bin_type, self.thresholds)
    on every path that reaches the drawing call."""
    from .. import plotargs
    prog = ctx.prog
    gi = form.apply("call:verif.util.get_intervals", [S("self.bin_type"), S("self.thresholds")])
    for cname, min_series in (("verif.output.Hist", 1), ("verif.output.Freq", 1)):
        c = prog.cls(cname, required=False)
        if c is None:
            ctx.note("%s not present" % cname)
            continue
        site = cname + "._plot_core"
        try:
            calls, ev = plotargs.draw_calls(prog, c)
        except symeval.Undecided as e:
            raise AnalysisError("%s: %s" % (site, e))
        series = [k for k in calls if k["kind"] in ("plot", "plot_obs") and len(k["args"]) >= 2]
        ctx.need(len(series) >= min_series, "%s: no drawing call found" % site)

        def is_event_count(a):
            if a.func not in ("m:within", "within"):
                return False
            base = a.args[0]
            if not isinstance(base, Rat):
                return False
            g = base.as_atom("getitem")
            return g is not None and isinstance(g.args[0], Rat) and g.args[0].equals(gi)
        for k in series:
            y = k["args"][1]
            ok = plotargs.contains_atom(y, is_event_count)
            ctx.ob("C07.8", site, ok, "plotted counts derive from get_intervals(self.bin_type, self.thresholds)[i].within(...)",
                   loc=prog.loc(c.module, k["node"]),
                   msg="a path to the drawing call computes the plotted frequencies without Interval.within of the user's bin type "
                       "(conditions: %s): %s" % ([(cc.key()[:80], p_) for cc, p_ in k["conds"]][-3:], str(y)[:200]),
                   sample={"rule": "C07.8", "site": site, "y": str(y)[:200]})


def run(ctx):
    ctx.rule("C07.8", "histogram / frequency counts are computed with Interval.within of the user's bin type on every path")
    check_counting_diagrams(ctx)
    ctx.rule("C07.1", "Interval.within denotes the interval selected by its flags (array and scalar branch, all order relations)")
    ctx.rule("C07.2", "get_intervals maps each bin type to the documented bounds and closed ends")
    ctx.rule("C07.3", "apply_threshold / get_threshold_string / apply_threshold_prob / QuantileCoverage agree with the documented events")
    ctx.rule("C07.4", "derived: within= partitions (first,last]; above is the complement of below=")
    ctx.rule("C07.5", "callers pass the user's bin type to the event functions")
    ctx.rule("C07.6", "missing values belong to no event (comparisons on the non-NaN subset, masked/NaN result)")
    ctx.rule("C07.7", "the -b help sentence documents the same events")
    check_within(ctx)
    check_get_intervals(ctx)
    check_apply_threshold(ctx)
    check_threshold_string(ctx)
    check_threshold_prob(ctx)
    check_quantile_coverage(ctx)
    check_callers(ctx)
    doc, text = parse_help(ctx)
    if doc is None:
        ctx.note("the -b help sentence was not found; the frozen table from the property statement is the only oracle")
    else:
        for bt, exp in shape.BIN_TYPES.items():
            if bt not in doc:
                ctx.note("help sentence does not describe %r in a parsable form" % bt)
                continue
            hl, hu, lc, uc = exp
            ctx.ob("C07.7", "verif.driver.show_description", doc[bt] == exp, "help: %s is %s" % (bt, shape.describe(*exp)),
                   msg="the help text documents -b %s as %s, the property as %s" % (bt, shape.describe(*doc[bt]), shape.describe(*exp)))
    ctx.floor("C07.1", 8)
    ctx.floor("C07.2", 24)
    ctx.floor("C07.3", 8 + 4 + 8 + 6)
    # control: the shape evaluator separates (l,u] from [l,u)
    l, u, x = S("l"), S("u"), S("x")
    ev1 = form.apply("and", [form.apply("cmp_lt", [l, x]), form.apply("cmp_le", [x, u])])
    t1 = shape.table2(ev1, shape.Roles(l, u, {}))
    ctx.control("C07.1", t1 == shape.expected_table(False, True) and t1 != shape.expected_table(True, False),
                "shape evaluator distinguishes (l,u] from [l,u)")

CLAIM = {
    "level": "Exhaustive over the property's own quantifier (the finite set of order relations of a value to the thresholds): every "
             "implementation that turns values into events is evaluated abstractly on all relations x<l, x=l, l<x<u, x=u, x>u, l=u for "
             "all 8 bin types / 4 flag combinations and compared with the documented event; NaN membership and caller wiring are structural.",
    "note": "Trusted: CPython ast, vsa symbolic folding + SHAPE evaluator, numpy comparison semantics on non-NaN floats. Not decided: "
            "floating-point equality at a threshold; binning code of individual diagrams (C16).",
    "technique": "static analysis: constant propagation of the bin-type literal, symbolic folding, abstract evaluation of comparison "
                 "shapes over the finite order-relation domain (get_intervals read from the Interval constructor values, independent of loop form and names); "
                 "sibling agreement of five implementations",
}
