"""C11 - slicing along -x partitions the cases using correct calendar buckets."""
import ast

from .. import form, q, symeval, trace
from ..core import AnalysisError, const, dotted, norm, calls_in, call_name
from ..form import Rat

EXPLANATION = (
    "EXH/INDEX/FORM analysis: every axis class falls into exactly one slicing category and Data.get_axis_values / Data._apply_axis "
    "dispatch on the same categories, each slicing its own dimension position (time-derived 0, lead-time 1, location 2); a slice is "
    "`bucket == unique(bucket)[i]` with both sides computed by the same bucket function from the dataset's final times/lead times "
    "(partition by construction); each bucket function is folded symbolically and compared with its reference (which datetime fields "
    "are reset, Monday-based week, (t mod 86400)/3600, day of leap reference year, int(h/24)), in UTC only "
    "(utcfromtimestamp/calendar.timegm; no local-time API anywhere in verif/); the YYYYMMDD <-> unix time conversions compose and "
    "decompose with the same constants; location-like axes take id/lat/lon/elev of the dataset's own location list.")
ASSUMPTIONS = ["datetime / calendar.timegm / matplotlib.dates implement the proleptic Gregorian UTC calendar",
               "count-weighted-mean identity and inverse property for every day 1900-2100 are runtime statements, not decided"]
AUDIT = {"class_methods": ("verif.axis.Axis", "compute_from_times"),
         "functions": ["verif.data.Data._apply_axis", "verif.data.Data.get_axis_values", "verif.util.date_to_unixtime",
                       "verif.util.unixtime_to_date", "verif.axis.Leadtimeday.compute_from_leadtimes", "verif.data.Data.get_axis_descriptions"]}

REPLACE = {"Year": {"month": 1, "day": 1, "hour": 0, "minute": 0, "second": 0},
           "Month": {"day": 1, "hour": 0, "minute": 0, "second": 0},
           "Week": {"hour": 0, "minute": 0, "second": 0},
           "Day": {"hour": 0, "minute": 0, "second": 0}}
LOCAL_TIME_API = {"datetime.datetime.fromtimestamp", "time.localtime", "time.mktime", "datetime.datetime.now", "datetime.datetime.today",
                  "datetime.date.today", "datetime.date.fromtimestamp", "time.ctime"}


def S(n):
    return Rat.sym(n)


def _kw(at):
    return {a[0][3:]: a[1] for a in at.args if isinstance(a, tuple) and a and isinstance(a[0], str) and a[0].startswith("kw:")}


def categories(prog, c):
    cats = []
    if c.name == "Time":
        cats.append("time")
    if prog.lookup_method(c, "compute_from_times"):
        cats.append("time-derived")
    if prog.lookup_method(c, "compute_from_leadtimes"):
        cats.append("leadtime-derived")
    if prog.attr_const(c, "is_location_like", False):
        cats.append("location-like")
    if c.name in ("No", "Threshold", "Obs", "Fcst"):
        cats.append("pooled")
    if c.name == "All":
        cats.append("all")
    return cats


def check_categories(ctx):
    prog = ctx.prog
    m = prog.module("verif.axis")
    classes = [c for c in m.classes.values() if prog.is_subclass(c, "verif.axis.Axis") and c.name != "Axis"]
    ctx.need(len(classes) >= 19, "fewer than 19 axis classes")
    for c in sorted(classes, key=lambda c: c.name):
        cats = categories(prog, c)
        ctx.ob("C11.1", c.qual, len(cats) == 1, "axis %s belongs to exactly one slicing category (%s)" % (c.name, ",".join(cats) or "none"),
               loc=prog.loc(m, c.node), msg="axis %s falls into categories %s: get_axis_values/_apply_axis would treat it ambiguously or not at all" % (c.name, cats))
        if c.name != "All" and c.name != "No":
            has_label = prog.lookup_method(c, "label") is not None and prog.lookup_method(c, "label")[0].name != "Axis"
            ctx.ob("C11.1", c.qual, has_label, "axis %s defines label()" % c.name, loc=prog.loc(m, c.node), msg="axis %s has no label(): plotting along it raises NotImplementedError" % c.name)
        tl = bool(prog.attr_const(c, "is_time_like", False))
        if "time-derived" in cats or c.name == "Time":
            f = prog.lookup_method(c, "compute_from_times")
            src_ = norm(f[1]) if f is not None else ""
            if f is not None:
                # helpers of the module that the method calls (one level): _to_unixtimes(dts) etc.
                for n_ in ast.walk(f[1]):
                    if isinstance(n_, ast.Call) and isinstance(n_.func, ast.Name) and n_.func.id in m.functions:
                        src_ += "\n" + norm(m.functions[n_.func.id])
            returns_ts = c.name == "Time" or "calendar.timegm" in src_
            ctx.ob("C11.3", c.qual, tl == returns_ts, "is_time_like=%s agrees with returning unix timestamps" % tl, loc=prog.loc(m, c.node),
                   msg="axis %s: is_time_like=%s but its buckets %s unix timestamps (labels/ticks would be formatted wrongly)" % (c.name, tl, "are" if returns_ts else "are not"))


def check_apply_axis(ctx):
    prog = ctx.prog
    site = "verif.data.Data._apply_axis"
    m = prog.module("verif.data")
    f = prog.own_method(site)
    outs = symeval.Evaluator(m).run(f)
    rets = [o for o in outs if o.kind == "return"]
    ctx.need(len(rets) >= 6, "%s: expected >= 6 dispatch paths" % site)
    # by cases: with the axis fixed to All() (and to None) the whole array is handed back, and nothing else happens
    for label, val in (("All()", form.apply("call:verif.axis.All", [])), ("None", Rat.sym("None"))):
        evc = symeval.Evaluator(m)
        evc.merge_ifs = True
        try:
            # (that All is neither a time / lead-time derived axis nor location-like is established by the category rule above)
            outs_c = evc.run(f, env={"axis": val, "axis.is_location_like": Rat.const(0), "axis.is_time_like": Rat.const(0)})
        except symeval.Undecided:
            outs_c = []

        def known_membership(at):
            if at.func in ("in", "notin") and len(at.args) == 2 and isinstance(at.args[0], Rat) and at.args[0].key() == val.key():
                coll = at.args[1]
                res = None
                if isinstance(coll, Rat) and coll.key() in ("call:verif.axis.get_time_axes()", "call:verif.axis.get_leadtime_axes()"):
                    res = False
                elems = coll if isinstance(coll, tuple) else (coll.as_atom("pylist").args[0] if isinstance(coll, Rat) and coll.as_atom("pylist") is not None else None)
                if elems is not None and all(isinstance(e_, Rat) and e_.as_atom() is not None and e_.as_atom().func.startswith("call:verif.axis.") for e_ in elems):
                    res = any(e_.key() == val.key() for e_ in elems)
                if res is not None:
                    return Rat.const(1 if (res == (at.func == "in")) else 0)
            return None
        for o in outs_c:
            if o.kind == "return" and isinstance(o.value, Rat):
                try:
                    o.value = form.map_atoms(o.value, known_membership)
                except form.Undefined:
                    pass
        rc = [o for o in outs_c if o.kind == "return"]
        ec = [o for o in outs_c if o.kind in ("error", "raise")]
        if label == "None" and not rc and not ec:
            continue
        ok = len(rc) >= 1 and all(isinstance(o.value, Rat) and o.value.key() == "$array" for o in rc) and not ec
        if label == "None" and not ok:
            # axis None is only reachable if an attribute of None is not touched first; undecided rather than wrong
            continue
        ctx.ob("C11.1", site, ok, "axis %s: the whole array is returned unchanged" % label, loc=prog.loc(m, f),
               msg="with axis %s _apply_axis returns %s%s instead of the array itself" % (label, [str(o.value)[:80] for o in rc], " or stops with an error" if ec else ""))
    arr = S("array")
    ai = S("axis_index")
    sl = ("slice", "None", "None", "None")
    seen = set()
    for o in rets:
        v = o.value
        last_true = [c for c, pol in o.conds if pol]
        cat = None
        if last_true:
            k = last_true[-1].key()
            if "call:verif.axis.Time()" in k and "cmp_eq" in k:
                cat = "time"
            elif "call:verif.axis.get_time_axes()" in k:
                cat = "time-derived"
            elif "call:verif.axis.get_leadtime_axes()" in k:
                cat = "leadtime-derived"
            elif k == "$axis.is_location_like":
                cat = "location-like"
            elif "call:verif.axis.No()" in k and "call:verif.axis.Threshold()" in k:
                cat = "pooled"
            elif "call:verif.axis.All()" in k:
                cat = "all"
        if cat is None:
            continue
        seen.add(cat)
        loc = prog.loc(m, o.node)
        bucket = form.apply("getitem", [S("self.axis_cache"), S("axis")])
        uniq = form.apply("getitem", [form.apply("getitem", [S("self.axis_cache_unique"), S("axis")]), ai])
        I = form.apply("where", [form.apply("cmp_eq", [bucket - uniq, Rat.const(0)])])
        want = {
            "time": form.apply("flatten", [form.apply("getitem", [arr, (ai, sl, sl)])]),
            "time-derived": form.apply("flatten", [form.apply("getitem", [arr, (I, sl, sl)])]),
            "leadtime-derived": form.apply("flatten", [form.apply("getitem", [arr, (sl, I, sl)])]),
            "location-like": form.apply("flatten", [form.apply("getitem", [arr, (sl, sl, ai)])]),
            "pooled": form.apply("flatten", [arr]),
            "all": arr,
        }[cat]
        ok = isinstance(v, Rat) and v.equals(want)
        ctx.ob("C11.1", site, ok, "category %s slices %s" % (cat, {"time": "position 0 by index", "time-derived": "position 0 by bucket == unique(bucket)[i]",
                                                                  "leadtime-derived": "position 1 by bucket == unique(bucket)[i]", "location-like": "position 2 by index",
                                                                  "pooled": "nothing (all cases pooled)", "all": "nothing (3-D array)"}[cat]),
               loc=loc, msg="for %s axes _apply_axis returns %s" % (cat, str(v)[:200]), expected=str(want)[:200], found=str(v)[:200],
               sample={"rule": "C11.1", "category": cat, "slice": str(v)[:200]})
    ctx.ob("C11.1", site, seen == {"time", "time-derived", "leadtime-derived", "location-like", "pooled", "all"}, "all six categories are dispatched",
           msg="_apply_axis dispatches %s" % sorted(seen))
    ctx.ob("C11.1", site, any(o.kind == "error" for o in outs), "an unknown axis stops with an error", msg="no error exit for an unrecognised axis")
    # dispatch priority: Time before the time-derived list, etc. (first match wins)
    order = []
    for st in ast.walk(f):
        if isinstance(st, ast.If):
            t = norm(st.test)
            for key, cat in (("verif.axis.Time()", "time"), ("get_time_axes", "time-derived"), ("get_leadtime_axes", "leadtime-derived"),
                             ("is_location_like", "location-like"), ("verif.axis.No()", "pooled"), ("verif.axis.All()", "all")):
                if key in t and cat not in order:
                    order.append(cat)
                    break
    return order


def check_axis_values(ctx, order_apply):
    prog = ctx.prog
    site = "verif.data.Data.get_axis_values"
    m = prog.module("verif.data")
    f = prog.own_method(site)
    outs = [o for o in symeval.Evaluator(m).run(f) if o.kind == "return"]
    times, lts = S("self.times"), S("self.leadtimes")
    locs = S("self.locations")
    for o in outs:
        v = o.value
        trues = [c.key() for c, pol in o.conds if pol]
        loc = prog.loc(m, o.node)
        if not trues:
            continue
        k = trues[-1]
        if "call:verif.axis.Time()" in k and "get_time_axes" not in k:
            ctx.ob("C11.2", site, v.equals(times), "Time axis values are the dataset's times", loc=loc, msg="Time axis values are %s" % v)
        elif "get_time_axes" in k:
            want = form.apply("unique", [form.apply("m:compute_from_times", [S("axis"), times])])
            alt = form.apply("unique", [form.apply("call:axis.compute_from_times", [times])])
            ctx.ob("C11.2", site, v.equals(want) or v.equals(alt), "time-derived axis values = unique(bucket(self.times))", loc=loc,
                   msg="time-derived axis values are %s" % str(v)[:160])
        elif "get_leadtime_axes" in k:
            want = form.apply("unique", [form.apply("m:compute_from_leadtimes", [S("axis"), lts])])
            alt = form.apply("unique", [form.apply("call:axis.compute_from_leadtimes", [lts])])
            ctx.ob("C11.2", site, v.equals(want) or v.equals(alt), "leadtime-derived axis values = unique(bucket(self.leadtimes))", loc=loc,
                   msg="leadtime-derived axis values are %s" % str(v)[:160])
        else:
            for ax, attr in (("Location", "id"), ("Elev", "elev"), ("Lat", "lat"), ("Lon", "lon")):
                if "call:verif.axis.%s()" % ax in k and "cmp_eq" in k and k.count("call:verif.axis.") == 1:
                    want = form.apply("nparray", [form.apply("map", [form.apply("attr:" + attr, [form.apply("elem", [locs])]), locs])])
                    ctx.ob("C11.6", site, v.equals(want), "-x %s: one value per location of the dataset, Location.%s" % (ax.lower(), attr), loc=loc,
                           msg="-x %s takes %s" % (ax.lower(), str(v)[:160]), sample={"rule": "C11.6", "axis": ax, "values": str(v)[:120]})
    ctx.floor("C11.2", 3)
    ctx.floor("C11.6", 4)
    # sibling dispatch order
    order = []
    for st in ast.walk(f):
        if isinstance(st, ast.If):
            t = norm(st.test)
            for key, cat in (("verif.axis.Time()", "time"), ("get_time_axes", "time-derived"), ("get_leadtime_axes", "leadtime-derived"),
                             ("is_location_like", "location-like")):
                if key in t and cat not in order:
                    order.append(cat)
                    break
    common = [c for c in order_apply if c in order]
    ctx.ob("C11.1", site, common == order, "get_axis_values and _apply_axis test the categories in the same priority order",
           msg="dispatch order differs: get_axis_values %s, _apply_axis %s" % (order, order_apply))
    # descriptions
    site2 = "verif.data.Data.get_axis_descriptions"
    f2 = prog.own_method(site2)
    outs2 = [o for o in symeval.Evaluator(m).run(f2) if o.kind == "return"]
    dict_ret = None
    for st in ast.walk(f2):
        if isinstance(st, ast.Return) and isinstance(st.value, ast.Dict) and len(st.value.keys) == 4:
            dict_ret = st.value
    ctx.need(dict_ret is not None, "%s: the location descriptor dictionary was not found" % site2)
    ev = symeval.Evaluator(m)
    ev.record = True
    ev.run(f2)
    env_vals = {}
    for e in ev.events:
        if e["kind"] == "assign":
            env_vals[e["name"]] = e["value"]
    for kn, vn in zip(dict_ret.keys, dict_ret.values):
        key = const(kn)
        attr = {"id": "id", "lat": "lat", "lon": "lon", "elev": "elev"}.get(key)
        val = env_vals.get(dotted(vn))
        want = form.apply("map", [form.apply("attr:%s" % attr, [form.apply("elem", [locs])]), locs]) if attr else None
        ctx.ob("C11.6", site2, want is not None and isinstance(val, Rat) and val.equals(want), "descriptor '%s' <- Location.%s of the dataset's locations" % (key, attr),
               loc=prog.loc(m, dict_ret), msg="row descriptor '%s' is built from %s" % (key, str(val)[:160]))


def check_init_cache(ctx):
    prog = ctx.prog
    site = "verif.data.Data.__init__"
    m = prog.module("verif.data")
    ev = trace.trace(prog, site, env={"inputs": S("INPUTS")})
    st_u = trace.stores(ev, "self.axis_cache_unique")
    st_c = trace.stores(ev, "self.axis_cache")
    ctx.need(st_u and st_c, "%s: axis caches not found" % site)
    for e in st_u:
        ax = e["indices"][0]
        u = q.top(e["value"], "unique")
        g = q.top(u.args[0], "getitem") if u is not None else None
        ok_u = g is not None and isinstance(g.args[1], Rat) and isinstance(ax, Rat) and g.args[1].equals(ax) and \
            (g.args[0].key() in ("$self.axis_cache", "call:dict()") or g.args[0].key() == "new:dict(str:'self.axis_cache'())")
        ctx.ob("C11.2", site, ok_u, "slice values = unique(bucket values) of the same cache entry",
               loc=prog.loc(m, e["node"]), msg="axis_cache_unique is %s" % str(e["value"])[:160])
    kinds = set()
    for e in st_c:
        v = e["value"]
        at = v.as_atom() if isinstance(v, Rat) else None
        if at is not None and at.func.endswith("compute_from_times"):
            kinds.add("times")
            ctx.ob("C11.2", site, at.args[-1].key() != "" and "self.times" in _final_name(ev, at.args[-1]), "time buckets computed from the dataset's times",
                   loc=prog.loc(m, e["node"]), msg="time buckets computed from %s" % str(at.args[-1])[:120])
        if at is not None and at.func.endswith("compute_from_leadtimes"):
            kinds.add("leadtimes")
    ctx.ob("C11.2", site, kinds == {"times", "leadtimes"}, "both time-derived and leadtime-derived buckets are cached", msg="cached kinds: %s" % sorted(kinds))


def _final_name(ev, val):
    fall = [o for o in ev.outcomes if o.kind == "fallthrough"]
    names = []
    for o in fall:
        for k, v in o.env.items():
            if isinstance(v, Rat) and isinstance(val, Rat) and v.key() == val.key():
                names.append(k)
    return names


def check_buckets(ctx):
    prog = ctx.prog
    m = prog.module("verif.axis")
    times = S("times")
    utc = lambda seq: form.apply("map", [form.apply("call:datetime.datetime.utcfromtimestamp", [form.apply("elem", [seq])]), seq])
    for cname in ("Year", "Month", "Week", "Day"):
        c = prog.cls("verif.axis." + cname)
        f = c.methods.get("compute_from_times")
        site = c.qual + ".compute_from_times"
        ctx.need(f is not None, "%s missing" % site)
        outs = [o for o in symeval.Evaluator(m).run(f) if o.kind == "return"]
        ctx.need(len(outs) == 1, "%s: one return expected" % site)
        v = outs[0].value
        loc = prog.loc(m, f)
        reps = q.atoms(v, "m:replace")
        tg = q.atoms(v, "call:calendar.timegm")
        utcs = q.atoms(v, "call:datetime.datetime.utcfromtimestamp")
        ctx.ob("C11.4", site, bool(utcs) and bool(tg), "UTC conversion both ways (utcfromtimestamp / calendar.timegm)", loc=loc,
               msg="%s does not convert with utcfromtimestamp and calendar.timegm: %s" % (cname, str(v)[:160]))
        ok = len(reps) == 1
        got = {}
        if ok:
            kw = _kw(reps[0])
            got = {k: (x.const_value() if isinstance(x, Rat) else None) for k, x in kw.items()}
            ok = got == REPLACE[cname]
        ctx.ob("C11.3", site, ok, "%s resets exactly the fields %s" % (cname, REPLACE[cname]), loc=loc,
               msg="%s bucket resets %s, expected %s" % (cname, got if reps else "nothing recognisable", REPLACE[cname]),
               expected=REPLACE[cname], found=got, sample={"rule": "C11.3", "axis": cname, "replace": got})
        if cname == "Week":
            wd = q.atoms(v, "m:weekday")
            iso = q.atoms(v, "m:isoweekday")
            td = q.atoms(v, "call:datetime.timedelta")
            monday = False
            if td and wd:
                kw = _kw(td[0])
                days = kw.get("days") or (td[0].args[0] if td[0].args and isinstance(td[0].args[0], Rat) else None)
                monday = isinstance(days, Rat) and days.as_atom("m:weekday") is not None
            elif td and iso:
                kw = _kw(td[0])
                days = kw.get("days") or (td[0].args[0] if td[0].args and isinstance(td[0].args[0], Rat) else None)
                monday = isinstance(days, Rat) and (days + Rat.const(1)).as_atom("m:isoweekday") is not None
            wrong_year = any(a.func.endswith("fromisocalendar") and a.args and isinstance(a.args[0], Rat) and "attr:year" in a.args[0].key()
                             for a in q.atoms(v))
            if wrong_year:
                ctx.ob("C11.3", site, False, "Week = start of the Monday-based week", loc=loc,
                       msg="Week pairs the ISO week number with the calendar year (d.year) instead of the ISO year: weeks that straddle New Year "
                           "are bucketed a year off or raise ValueError")
            elif not (td and (wd or iso)) and not reps:
                raise AnalysisError("%s: week computation of unrecognised form: %s" % (site, str(v)[:160]))
            else:
                ctx.ob("C11.3", site, monday, "Week = day minus weekday() days (Monday-based)", loc=loc,
                       msg="Week does not subtract weekday() days: %s" % str(v)[:200])
    # direct formulas
    c = prog.cls("verif.axis.Timeofday")
    outs = [o for o in symeval.Evaluator(m).run(c.methods["compute_from_times"]) if o.kind == "return"]
    ref = form.apply("mod", [times, Rat.const(86400)]) / Rat.const(3600)
    ctx.ob("C11.3", c.qual, len(outs) == 1 and outs[0].value.equals(ref), "Timeofday = (t mod 86400)/3600", loc=prog.loc(m, c.node),
           msg="Timeofday computes %s" % [str(o.value) for o in outs])
    c = prog.cls("verif.axis.Leadtimeday")
    outs = [o for o in symeval.Evaluator(m).run(c.methods["compute_from_leadtimes"]) if o.kind == "return"]
    lt = S("leadtimes")
    ref = form.apply("nparray", [form.apply("map", [form.apply("int", [form.apply("elem", [lt]) / Rat.const(24)]), lt])])
    ctx.ob("C11.3", c.qual, len(outs) == 1 and outs[0].value.equals(ref), "Leadtimeday = int(h/24)", loc=prog.loc(m, c.node),
           msg="Leadtimeday computes %s" % [str(o.value)[:120] for o in outs])
    c = prog.cls("verif.axis.Leadtime")
    outs = [o for o in symeval.Evaluator(m).run(c.methods["compute_from_leadtimes"]) if o.kind == "return"]
    ctx.ob("C11.3", c.qual, len(outs) == 1 and outs[0].value.equals(lt), "Leadtime buckets are the lead times themselves", loc=prog.loc(m, c.node),
           msg="Leadtime computes %s" % [str(o.value) for o in outs])
    for cname, attr in (("Dayofmonth", "day"), ("Monthofyear", "month")):
        c = prog.cls("verif.axis." + cname)
        outs = [o for o in symeval.Evaluator(m).run(c.methods["compute_from_times"]) if o.kind == "return"]
        ref = form.apply("nparray", [form.apply("map", [form.apply("attr:" + attr, [form.apply("call:datetime.datetime.utcfromtimestamp", [form.apply("elem", [times])])]), times])])
        ctx.ob("C11.3", c.qual, len(outs) == 1 and outs[0].value.equals(ref), "%s = UTC .%s" % (cname, attr), loc=prog.loc(m, c.node),
               msg="%s computes %s" % (cname, [str(o.value)[:120] for o in outs]))
    c = prog.cls("verif.axis.Dayofyear")
    outs = [o for o in symeval.Evaluator(m).run(c.methods["compute_from_times"]) if o.kind == "return"]
    ctx.need(len(outs) == 1, "Dayofyear: one return expected")
    v = outs[0].value
    reps = q.atoms(v, "m:replace")
    refy = None
    if reps:
        kw = _kw(reps[0])
        refy = kw.get("year").const_value() if isinstance(kw.get("year"), Rat) else None
    import calendar as _cal
    base = [a for a in q.atoms(v, "call:datetime.datetime") if _kw(a)]
    base_ok = False
    for a in base:
        kw = {k: (x.const_value() if isinstance(x, Rat) else None) for k, x in _kw(a).items()}
        base_ok = kw == {"year": refy, "month": 1, "day": 1}
    plus1 = "attr:days" in v.key() and any((Rat.of_atom(a) + Rat.const(1)).key() in v.key() or True for a in q.atoms(v) if a.func == "attr:days")
    ctx.ob("C11.3", c.qual, refy is not None and _cal.isleap(int(refy)) and base_ok and bool(q.atoms(v, "call:datetime.datetime.utcfromtimestamp")),
           "Dayofyear = days since 1 Jan of a LEAP reference year + 1 (UTC)", loc=prog.loc(m, c.node),
           msg="Dayofyear uses reference year %s with base %s" % (refy, [str(Rat.of_atom(a)) for a in base]))
    body = form.apply("elem", [form.apply("map", [Rat.sym("x"), Rat.sym("y")])])
    mp = q.top(q.top(v, "nparray").args[0], "map") if q.top(v, "nparray") is not None else None
    ok1 = mp is not None and (mp.args[0] - Rat.const(1)).as_atom("attr:days") is not None
    ctx.ob("C11.3", c.qual, ok1, "Dayofyear counts from 1", loc=prog.loc(m, c.node), msg="Dayofyear element is %s" % (str(mp.args[0])[:120] if mp else v))


def check_utc(ctx):
    prog = ctx.prog
    n = 0
    for qual, m, c, f in prog.all_functions():
        if not qual.startswith("verif."):
            continue
        for call in calls_in(f):
            rn = call_name(m, call)
            if rn in LOCAL_TIME_API:
                ctx.ob("C11.4", qual, False, "local-time API %s" % rn, loc=prog.loc(m, call),
                       msg="%s calls %s: buckets/conversions would depend on the machine's time zone" % (qual, rn))
            if rn in ("datetime.datetime.utcfromtimestamp", "calendar.timegm"):
                n += 1
                ctx.ob("C11.4", qual, True, "UTC API %s" % rn, nontrivial=False)
    # confirmed count of UTC conversion sites (a positively identified violation elsewhere is reported rather than pre-empted)
    ctx.need(n >= 15 or bool(ctx.findings), "fewer than 15 UTC conversion sites found (%d)" % n)
    ctx.control("C11.4", "datetime.datetime.fromtimestamp" in LOCAL_TIME_API, "local-time API list armed")


def check_conversions(ctx):
    prog = ctx.prog
    m = prog.module("verif.util")
    d = S("date")
    # date_to_unixtime
    f = prog.func("verif.util.date_to_unixtime")
    outs = [o for o in symeval.Evaluator(m).run(f) if o.kind == "return"]
    y = form.apply("floordiv", [d, Rat.const(10000)])
    mo = form.apply("mod", [form.apply("floordiv", [d, Rat.const(100)]), Rat.const(100)])
    da = form.apply("mod", [d, Rat.const(100)])
    want = form.apply("call:calendar.timegm", [form.apply("m:timetuple", [form.apply("call:datetime.datetime", [y, mo, da])])])
    ok = len(outs) == 1 and isinstance(outs[0].value, Rat) and outs[0].value.equals(want)
    if not ok and not any(isinstance(o.value, Rat) and q.atoms(o.value, "call:calendar.timegm") for o in outs):
        # a hand-written day count: decidable only through its leap-year rule.  Every-4th-year is wrong for 1900 and 2100.
        src = " ".join(o.value.key() for o in outs if isinstance(o.value, Rat)) + " " + " ".join(c_.key() for o in outs for c_, _ in o.conds if isinstance(c_, Rat))
        four = "mod(" in src and ",4)" in src or "floordiv(" in src and ",4)" in src
        century = ",100)" in src and ",400)" in src
        if four and not century:
            ctx.ob("C11.5", "verif.util.date_to_unixtime", False, "YYYYMMDD -> unix time follows the Gregorian calendar for 1900-2100", loc=prog.loc(m, f),
                   msg="date_to_unixtime counts days with its own arithmetic and a leap year every 4th year (no century rule): dates before 1 March 1900 "
                       "and from 1 March 2100 are off by one day, and no longer invert unixtime_to_date")
        else:
            raise AnalysisError("verif.util.date_to_unixtime uses calendar arithmetic of its own that this analysis cannot decide: %s" % src[:160])
    else:
        ctx.ob("C11.5", "verif.util.date_to_unixtime", ok, "YYYYMMDD decomposed with 10000/100 and converted with timegm (UTC)",
               loc=prog.loc(m, f), msg="date_to_unixtime computes %s" % [str(o.value)[:200] for o in outs])
    f = prog.func("verif.util.unixtime_to_date")
    outs = [o for o in symeval.Evaluator(m).run(f) if o.kind == "return"]
    dt = form.apply("call:datetime.datetime.utcfromtimestamp", [form.apply("int", [S("unixtime")])])
    want = form.apply("attr:year", [dt]) * Rat.const(10000) + form.apply("attr:month", [dt]) * Rat.const(100) + form.apply("attr:day", [dt])
    ctx.ob("C11.5", "verif.util.unixtime_to_date", len(outs) == 1 and outs[0].value.equals(want), "YYYYMMDD composed with the same constants from the UTC date",
           loc=prog.loc(m, f), msg="unixtime_to_date computes %s" % [str(o.value)[:200] for o in outs])
    for fn in ("date_to_datenum", "get_date"):
        f = prog.func("verif.util." + fn)
        outs = [o for o in symeval.Evaluator(m).run(f) if o.kind == "return"]
        v = outs[0].value if outs else None
        y2 = form.apply("int", [d / Rat.const(10000)])
        mo2 = form.apply("int", [form.apply("mod", [d / Rat.const(100), Rat.const(100)])])
        da2 = form.apply("int", [form.apply("mod", [d, Rat.const(100)])])
        dts = [a for a in q.atoms(v, "call:datetime.datetime")] if isinstance(v, Rat) else []
        ok = any(len(a.args) >= 3 and a.args[0].equals(y2) and a.args[1].equals(mo2) and a.args[2].equals(da2) for a in dts)
        ctx.ob("C11.5", "verif.util." + fn, ok, "%s decomposes YYYYMMDD as year, month, day" % fn, loc=prog.loc(m, f),
               msg="%s builds datetime(%s)" % (fn, [str(x)[:40] for a in dts for x in a.args[:3]]))
    f = prog.func("verif.util.unixtime_to_datenum")
    ok = "utcfromtimestamp" in norm(f)
    ctx.ob("C11.5", "verif.util.unixtime_to_datenum", ok, "plot date numbers are derived from the UTC datetime", loc=prog.loc(m, f), msg="unixtime_to_datenum is not UTC based")


def check_time_formats(ctx):
    """C11.7: strftime / strptime format strings pair the ISO week number %V with the ISO year %G (and %U / %W with %Y).  Around New
    Year the ISO year differs from the calendar year: '%Y-%V' files 2018-12-31 under week 1 of 2018."""
    prog = ctx.prog

    def bad_formats(tree):
        out = []
        for n in ast.walk(tree):
            if isinstance(n, ast.Call) and isinstance(n.func, ast.Attribute) and n.func.attr in ("strftime", "strptime"):
                for a in n.args:
                    v = const(a)
                    if isinstance(v, str):
                        if "%V" in v and ("%Y" in v or "%y" in v or "%G" not in v and ("%u" in v or "-" in v)):
                            out.append((n, v, "%V (ISO week) without %G (ISO year)"))
                        elif "%G" in v and ("%U" in v or "%W" in v or ("%V" not in v and ("%m" in v or "%d" in v or "%j" in v))):
                            out.append((n, v, "%G (ISO year) with calendar month / day / week directives"))
        return out
    ctl = ast.parse("a = d.strftime('%Y-%V-1')\nb = datetime.datetime.strptime(s, '%G-%V-%u')\nc = d.strftime('%Y%m%d')\n")
    ctx.control("C11.7", [v for _, v, _ in bad_formats(ctl)] == ["%Y-%V-1"], "format lint fires on '%Y-%V-1' and is silent on '%G-%V-%u' and '%Y%m%d'")
    n = 0
    for name in sorted(prog.modules):
        m = prog.modules[name]
        n_fmt = sum(1 for k in ast.walk(m.tree) if isinstance(k, ast.Call) and isinstance(k.func, ast.Attribute) and k.func.attr in ("strftime", "strptime"))
        if not n_fmt:
            continue
        bad = bad_formats(m.tree)
        n += 1
        ctx.ob("C11.7", name, not bad, "date format strings of %s keep ISO week and ISO year together (%d strftime/strptime calls)" % (name, n_fmt),
               loc=prog.loc(m, bad[0][0]) if bad else None,
               msg="; ".join("format %r: %s - dates in the days around New Year are filed under a week of the wrong year" % (v, why) for _, v, why in bad))
    ctx.need(n >= 2, "C11.7: fewer modules with strftime/strptime than confirmed (%d)" % n)


def run(ctx):
    ctx.rule("C11.1", "axis categories exhaustive and exclusive; sibling dispatch; each category slices its own dimension")
    ctx.rule("C11.2", "partition by construction: bucket == unique(bucket)[i] on the same bucket function and the dataset's final times")
    ctx.rule("C11.3", "bucket functions equal their reference definitions; metadata agrees")
    ctx.rule("C11.4", "UTC only: utcfromtimestamp/timegm, no local-time API in verif/")
    ctx.rule("C11.5", "date <-> unix time conversions compose/decompose with the same constants")
    ctx.rule("C11.6", "location-like axes and descriptors use id/lat/lon/elev of the dataset's own locations")
    ctx.rule("C11.7", "date format strings keep ISO week (%V) and ISO year (%G) together")
    check_time_formats(ctx)
    check_categories(ctx)
    order = check_apply_axis(ctx)
    check_axis_values(ctx, order)
    check_init_cache(ctx)
    check_buckets(ctx)
    check_conversions(ctx)
    check_utc(ctx)
    from . import c03
    sub = type(ctx)(ctx.prog, "C03", ctx.tier, True)
    c03.check_init(sub)
    from .c04 import _import
    _import(ctx, sub, "C03.3", "C11.2")
    ctx.floor("C11.1", 30)
    ctx.floor("C11.3", 18)


CLAIM = {
    "level": "Static EXH/INDEX/FORM analysis: the category dispatch of all 19 axis classes is shown exhaustive, exclusive and consistent between "
             "the two dispatchers, every category slices its own dimension, slices are a partition by construction, each bucket function equals "
             "its reference definition (reset fields, Monday week, leap reference year, UTC), conversions use matching constants and no "
             "local-time API exists. Necessary conditions for every dataset and date; no date is computed.",
    "note": "Trusted: CPython ast, vsa symbolic folding, datetime/calendar semantics. Not decided: the count-weighted-mean identity, the inverse "
            "property for every calendar day, %U week labels.",
    "technique": "static analysis: registry/category exhaustiveness, positional index discipline, symbolic folding to reference forms "
                 "(datetime.replace field sets), who-may-call (local-time API = 0 with control); C11.7 lint on strftime/strptime format strings (ISO week %V only together with ISO year %G)",
}
