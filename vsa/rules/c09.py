"""C09 - text input files are read faithfully."""
import ast

from .. import boolq, form, q, select, symeval, trace
from ..core import AnalysisError, const, dotted, norm, parent_map, calls_in
from ..form import Rat

EXPLANATION = (
    "WIRE/INDEX analysis of input.Text: each header literal is followed to the dictionary it fills and to the attribute that "
    "dictionary is densified into (obs->obs, fcst->fcst, pit->pit, q<level>->quantile_scores, p<thr>->threshold_scores, "
    "e<m>->ensemble, other names->_other_scores[name]); the numeric level is float(name[1:]) and is both recorded in the "
    "dimension list and used as last key component; the key written while parsing rows and the key looked up while densifying "
    "have the same components in the same order (time, leadtime, id, lat, lon, elev[, level]); densification stores at "
    "[d][o][s] / [d,o,s,k] with exactly the loop variables that produced the key, and the 4th-dimension list that is enumerated "
    "is the very list exported as thresholds/quantiles/members (no re-ordering in between); column classification predicates "
    "(first letter + numeric remainder, pit/elev excluded) and their complement; aliases offset/leadtime, location/id, "
    "altitude/elev, date(+hour*3600)/unixtime; location metadata of the row; metadata lines; guarded indexing of whitespace splits; "
    "every cell through _clean (shared with C04).")
ASSUMPTIONS = ["str.split tokenisation and float() parsing", "very large files / performance not considered"]
AUDIT = {"functions": ["verif.input.Text.__init__", "verif.input.Text._get_quantile_fields", "verif.input.Text._get_threshold_fields",
                       "verif.input.Text._get_ens_fields", "verif.input.Text._get_other_fields", "verif.input.Text._get_variable"]}

DICT_ATTR = {"obs": "obs", "fcst": "fcst", "pit": "pit", "x": "quantile_scores", "cdf": "threshold_scores", "ens": "ensemble", "other": "_other_scores"}
DICT_LITERAL = {"obs": "obs", "fcst": "fcst", "pit": "pit"}
DICT_FIELDS = {"x": ("_get_quantile_fields", "_quantiles"), "cdf": ("_get_threshold_fields", "_thresholds"), "ens": ("_get_ens_fields", "_members")}


def S(n):
    return Rat.sym(n)


def _role(src):
    """Semantic role of a key component from the source of its defining expression."""
    s = src
    if ".lat" in s:
        return "lat"
    if ".lon" in s:
        return "lon"
    if ".elev" in s:
        return "elev"
    if ".id" in s or "indices['location']" in s or "indices['id']" in s or 'indices["id"]' in s or 'indices["location"]' in s:
        return "id"
    if "date_to_unixtime" in s or "indices['unixtime']" in s or 'indices["unixtime"]' in s or "self._times" in s or "unixtime" in s:
        return "time"
    if "indices['leadtime']" in s or 'indices["leadtime"]' in s or "self._leadtimes" in s:
        return "leadtime"
    if "float(field[1:])" in s or "self._quantiles" in s or "self._thresholds" in s or "self._members" in s:
        return "level"
    return "?"


def check_row_parsing(ctx):
    prog = ctx.prog
    site = "verif.input.Text.__init__"
    m = prog.module("verif.input")
    f = prog.own_method(site)
    pm = parent_map(f)
    # the row loop is the for-loop over the file object; the densification loops come after it
    row_loop = None
    for st in f.body:
        if isinstance(st, ast.For) and dotted(st.iter) == "file":
            row_loop = st
    ctx.need(row_loop is not None, "%s: the loop over the lines of the file was not found" % site)

    def enclosing_for(node):
        out = []
        while node in pm and node is not row_loop:
            node = pm[node]
            if isinstance(node, ast.For):
                out.append(node)
        return out

    def last_def(name, before_line):
        best = None
        for st in ast.walk(row_loop):
            if isinstance(st, ast.Assign) and st.lineno < before_line:
                for t in st.targets:
                    if isinstance(t, ast.Name) and t.id == name:
                        if best is None or st.lineno > best.lineno:
                            best = st
        return best
    writes = {}
    for st in ast.walk(row_loop):
        if not (isinstance(st, ast.Assign) and len(st.targets) == 1 and isinstance(st.targets[0], ast.Subscript)):
            continue
        tgt = st.targets[0]
        base = tgt
        subs = []
        while isinstance(base, ast.Subscript):
            subs.append(base.slice)
            base = base.value
        d = dotted(base)
        if d not in DICT_ATTR:
            continue
        val = st.value
        ok_clean = isinstance(val, ast.Call) and dotted(val.func) == "self._clean" and len(val.args) == 1
        if not ok_clean and isinstance(val, ast.Call) and dotted(val.func) == "dict":
            continue      # other[field] = dict(): creation of the per-field dictionary
        cell = val.args[0] if ok_clean else None
        col = None
        if isinstance(cell, ast.Subscript) and dotted(cell.value) == "row" and isinstance(cell.slice, ast.Subscript) and dotted(cell.slice.value) == "indices":
            col = cell.slice.slice
        writes.setdefault(d, []).append((st, col, subs))
    for d in DICT_ATTR:
        ctx.ob("C09.1", site, d in writes, "dictionary '%s' is filled while parsing rows" % d, msg="no row store into dictionary '%s'" % d)
    for d, lst in sorted(writes.items()):
        for st, col, subs in lst:
            loc = prog.loc(m, st)
            if d in DICT_LITERAL:
                ok = const(col) == DICT_LITERAL[d]
                ctx.ob("C09.1", site, ok, "column '%s' fills dictionary '%s'" % (DICT_LITERAL[d], d), loc=loc,
                       msg="dictionary '%s' is filled from column %s" % (d, norm(col) if col is not None else "?"),
                       sample={"rule": "C09.1", "dict": d, "column": norm(col) if col is not None else None})
            else:
                loops = enclosing_for(st)
                lv = dotted(loops[0].target) if loops else None
                src = dotted(loops[0].iter) if loops else None
                ok = col is not None and dotted(col) == lv and lv is not None
                ctx.ob("C09.1", site, ok, "dictionary '%s' is filled from the column named by the loop variable" % d, loc=loc,
                       msg="dictionary '%s' is filled from column %s inside a loop over %s" % (d, norm(col) if col is not None else "?", src))
                # where does the list of columns come from?
                fdef = None
                for a in ast.walk(row_loop):
                    if isinstance(a, ast.Assign) and len(a.targets) == 1 and dotted(a.targets[0]) == src and isinstance(a.value, ast.Call):
                        fdef = dotted(a.value.func)
                want = {"x": "self._get_quantile_fields", "cdf": "self._get_threshold_fields", "ens": "self._get_ens_fields", "other": "self._get_other_fields"}[d]
                ctx.ob("C09.1", site, fdef == want, "the columns of '%s' are selected by %s" % (d, want.split(".")[-1]), loc=loc,
                       msg="the columns feeding '%s' are selected by %s" % (d, fdef))
                if d in DICT_FIELDS and loops:
                    body_src = " ".join(norm(x) for x in loops[0].body)
                    lvl_ok = ("float(%s[1:])" % lv) in body_src and ("self.%s.add(" % DICT_FIELDS[d][1]) in body_src
                    ctx.ob("C09.1", site, lvl_ok, "'%s': numeric level = float(name[1:]) recorded in %s" % (d, DICT_FIELDS[d][1]), loc=loc,
                           msg="the level of a '%s' column is not float(name[1:]) added to self.%s" % (d, DICT_FIELDS[d][1]))
    # aliases
    src_loop = norm(row_loop)

    def offset_alias_by_value():
        """indices[...] = position: the key is 'leadtime' exactly when the header word is 'offset', the word itself otherwise - from
        the folded stores into `indices`, whether written as if/else or as a conditional key."""
        try:
            ev_ = trace.trace(prog, site, loop_mode="body_once")
        except (symeval.Undecided, AnalysisError):
            return False
        ok_offset = ok_other = False
        for e_ in ev_.events:
            if e_["kind"] != "store" or e_.get("root") != "indices" or len(e_["indices"]) != 1 or not isinstance(e_["indices"][0], Rat):
                continue
            leaves = [(e_["conds"], e_["indices"][0])]
            top = e_["indices"][0].as_atom("ifexp")
            if top is not None and all(isinstance(z, Rat) for z in top.args):
                leaves = [(list(e_["conds"]) + [(top.args[0], True)], top.args[1]), (list(e_["conds"]) + [(top.args[0], False)], top.args[2])]
            for conds_, key_ in leaves:
                is_off = [pol for c_, pol in conds_ if isinstance(c_, Rat) and "str:'offset'" in c_.key() and c_.as_atom() is not None and c_.as_atom().func == "cmp_eq"]
                if is_off and is_off[-1] and symeval._strval(key_) == "leadtime":
                    ok_offset = True
                if is_off and not is_off[-1] and symeval._strval(key_) is None:
                    ok_other = True
        return ok_offset and ok_other
    alias_checks = [
        ("offset is an alias of leadtime", any(isinstance(n_, ast.If) and norm(n_.test) == "att == 'offset'" and [norm(b) for b in n_.body] == ["indices['leadtime'] = i"]
                                              for n_ in ast.walk(row_loop)) or offset_alias_by_value()),
        ("'location' is preferred over 'id'", _before(src_loop, "'location' in indices", "'id' in indices")),
        ("'altitude' is preferred over 'elev'", _before(src_loop, "'altitude' in indices", "'elev' in indices")),
        ("'date' (+hour*3600) is preferred over 'unixtime'", _before(src_loop, "'date' in indices", "'unixtime' in indices") and "* 3600" in src_loop and "'hour' in indices" in src_loop),
    ]
    for what, ok in alias_checks:
        ctx.ob("C09.1", site, ok, what, msg="alias rule broken: %s" % what)
    return row_loop, writes, last_def


def _norm_block(node):
    return norm(node)


def _before(src, a, b):
    return a in src and b in src and src.index(a) < src.index(b)


def check_keys(ctx, row_loop, writes, last_def):
    prog = ctx.prog
    site = "verif.input.Text.__init__"
    m = prog.module("verif.input")
    # --- write keys (AST, roles of the components)
    write_roles = {}
    for d, lst in writes.items():
        for st, col, subs in lst:
            keyexpr = subs[0]
            kd = None
            if isinstance(keyexpr, ast.Name):
                kd = last_def(keyexpr.id, st.lineno + 1)
                keyexpr = kd.value if kd is not None else None
            if not isinstance(keyexpr, ast.Tuple):
                raise AnalysisError("%s: key of dictionary '%s' is not a tuple" % (site, d))
            roles = []
            for el in keyexpr.elts:
                if isinstance(el, ast.Name):
                    cands = []
                    for a in ast.walk(row_loop):
                        if isinstance(a, ast.Assign) and a.lineno < (kd or st).lineno + 1:
                            for t in a.targets:
                                if isinstance(t, ast.Name) and t.id == el.id:
                                    cands.append(_role(norm(a.value)))
                    known = sorted(set(r for r in cands if r != "?"))
                    roles.append(known[0] if len(known) == 1 else ("?" if not known else "/".join(known)))
                else:
                    roles.append(_role(norm(el)))
            write_roles[d] = roles
    # --- densification (symbolic trace)
    ev = trace.trace(prog, site, loop_mode="body_once")
    dens = {}
    for e in ev.events:
        if e["kind"] != "store" or not e["root"].startswith("self."):
            continue
        attr = e["root"][5:]
        if attr not in DICT_ATTR.values():
            continue
        v = e["value"]
        g = q.top(v, "getitem")
        if g is None:
            continue
        if attr == "_other_scores" and len(e["indices"]) == 1:
            continue
        dens[attr] = (e, g)
    for d, attr in DICT_ATTR.items():
        ctx.ob("C09.3", site, attr in dens, "attribute %s is filled from a dictionary lookup" % attr, msg="no densification store into self.%s" % attr)
        if attr not in dens:
            continue
        e, g = dens[attr]
        loc = prog.loc(m, e["node"])
        base = g.args[0]
        want_base = "new:dict(str:'%s'())" % d
        base_key = base.key()
        if d == "other":
            ok_src = base_key.startswith("getitem(new:dict(str:'other'())")
        else:
            ok_src = base_key == want_base
        ctx.ob("C09.1", site, ok_src, "self.%s is filled from dictionary '%s'" % (attr, d), loc=loc,
               msg="self.%s is filled from %s" % (attr, base_key[:80]), sample={"rule": "C09.1", "attribute": attr, "dictionary": base_key[:60]})
        key = g.args[1]
        comps = list(key) if isinstance(key, tuple) else [key]
        roles = []
        loopvars = {}
        for c in comps:
            k = c.key() if isinstance(c, Rat) else str(c)
            if "attr:lat(" in k:
                roles.append("lat")
            elif "attr:lon(" in k:
                roles.append("lon")
            elif "attr:elev(" in k:
                roles.append("elev")
            elif "attr:id(" in k:
                roles.append("id")
            else:
                gg = q.top(c, "getitem") if isinstance(c, Rat) else None
                idx = gg.args[1].key() if gg is not None and isinstance(gg.args[1], Rat) else None
                basek = gg.args[0].key() if gg is not None and isinstance(gg.args[0], Rat) else (" ".join(x.key() for x in gg.args[0]) if gg is not None and isinstance(gg.args[0], tuple) else "")
                if idx == "$d":
                    roles.append("time")
                elif idx == "$o":
                    roles.append("leadtime")
                elif idx in ("$q", "$t", "$e"):
                    roles.append("level")
                else:
                    roles.append("?")
        wr = write_roles.get(d)
        ctx.ob("C09.3", site, wr == roles and "?" not in roles, "key of '%s': same components in the same order when written and when looked up %s" % (d, roles),
               loc=loc, msg="dictionary '%s' is written with key components %s but looked up with %s: rows would not be found (or found at the wrong coordinate)" % (d, wr, roles),
               expected=wr, found=roles)
        # store subscripts use the loop variables of the key
        ix = e["indices"]
        flat = []
        for i_ in ix:
            if isinstance(i_, tuple):
                flat.extend(i_)
            else:
                flat.append(i_)
        flat = [x.key() for x in flat if isinstance(x, Rat)]
        if d == "other":
            flat = flat[1:]
        want_ix = ["$d", "$o", "$s"] + ({"x": ["$q"], "cdf": ["$t"], "ens": ["$e"]}.get(d, []))
        ctx.ob("C09.3", site, flat == want_ix, "self.%s is stored at [time, leadtime, location%s] of the loop that built the key" % (attr, ", level" if len(want_ix) == 4 else ""),
               loc=loc, msg="self.%s is stored at %s, expected %s" % (attr, flat, want_ix))
    # the location components of the lookup key belong to the same location s
    for attr, (e, g) in dens.items():
        key = g.args[1]
        comps = [c for c in (key if isinstance(key, tuple) else [key]) if isinstance(c, Rat) and "attr:" in c.key()]
        same = all("$s)" in c.key() for c in comps)
        ctx.ob("C09.4", "verif.input.Text.__init__", same and len(comps) == 4, "%s: id/lat/lon/elev of the key come from the same location [s]" % attr,
               loc=prog.loc(m, e["node"]), msg="location components of the key mix different locations")
    # dimension lists: the list enumerated for the 4th index is the list exported
    fall = [o for o in ev.outcomes if o.kind == "fallthrough"]
    ctx.need(len(fall) >= 1, "%s: a normal exit expected" % site)
    # the paths only differ in what the row loop did (comment line / header / data row); the exported lists are built the same way
    keyset = set(tuple((k, (v.key() if isinstance(v, Rat) else str(v))) for k, v in sorted(o.env.items())
                       if k in ("self.thresholds", "self.quantiles", "self.members", "self.times", "self.leadtimes", "self.locations")) for o in fall)
    env = fall[0].env
    for pub, priv in (("thresholds", "_thresholds"), ("quantiles", "_quantiles"), ("members", "_members"), ("times", "_times"), ("leadtimes", "_leadtimes")):
        pv, iv = env.get("self." + pub), env.get("self." + priv)
        ok = isinstance(pv, Rat) and isinstance(iv, Rat) and pv.equals(form.apply("nparray", [iv]))
        ctx.ob("C09.3", site, ok, "self.%s is the list self.%s that was enumerated while densifying (same order)" % (pub, priv), loc=prog.loc(m, fall[0].node),
               msg="self.%s = %s is not np.array(self.%s): the published values no longer line up with the 4th dimension of the arrays" % (pub, str(pv)[:80], priv))
    lv, liv = env.get("self.locations"), env.get("self._locations")
    ctx.ob("C09.3", site, isinstance(lv, Rat) and isinstance(liv, Rat) and lv.equals(liv), "self.locations is the list enumerated while densifying",
           msg="self.locations differs from the densification list")
    srt = env.get("self._times")
    ctx.ob("C09.3", site, isinstance(srt, Rat) and "call:sorted(" in srt.key() and "call:sorted(" in env.get("self._leadtimes").key(), "times and lead times are sorted ascending",
           msg="times / lead times are not sorted")


def check_classification(ctx):
    """Which header names are quantile / threshold / member / other-score columns: the selection predicate of each classifier,
    however it is written (loop + append, comprehension, helper predicate), is compared by truth table with the documented one."""
    prog = ctx.prog
    m = prog.module("verif.input")
    att = form.apply("elem", [S("fields")])
    first = form.apply("getitem", [att, Rat.const(0)])
    rest = form.apply("call:verif.util.is_number", [form.apply("getitem", [att, ("slice", Rat.const(1), "None", "None")])])

    def is_letter(ch):
        return boolq.prop(form.apply("cmp_eq", [first, form.apply("str:" + repr(ch), [])]))

    def is_name(name):
        return boolq.prop(form.apply("cmp_eq", [att, form.apply("str:" + repr(name), [])]))
    numeric = boolq.prop(rest)
    spec = {"_get_quantile_fields": ("q", None), "_get_threshold_fields": ("p", "pit"), "_get_ens_fields": ("e", "elev")}
    for fn, (letter, excl) in spec.items():
        site = "verif.input.Text." + fn
        elem, seq, found, node = select.selection(prog, site)
        want = ("and", [is_letter(letter), numeric] + ([("not", is_name(excl))] if excl else []))
        try:
            w = boolq.differ(found, want)
        except boolq.TooBig as e:
            raise AnalysisError("%s: selection predicate too large to compare (%s)" % (site, e))
        ctx.ob("C09.2", site, w is None, "column is selected iff first letter '%s', numeric remainder%s" % (letter, ", not '%s'" % excl if excl else ""),
               loc=prog.loc(m, node), msg="%s selects differently from the documented rule when %s" % (fn, boolq.show(w) if w else ""),
               sample={"rule": "C09.2", "function": fn, "equivalent": w is None})
        ctx.ob("C09.2", site, isinstance(elem, Rat) and elem.equals(att) and isinstance(seq, Rat) and seq.key() == "$fields", "the column name itself is collected, from the given header",
               loc=prog.loc(m, node), msg="%s collects %s from %s" % (fn, elem, seq))
    # other fields = complement
    site = "verif.input.Text._get_other_fields"
    elem, seq, found, node = select.selection(prog, site)
    regular = ("atom", form.apply("in", [att, form.apply("self.get_regular_names", [])]).key())
    longer = boolq.prop(form.apply("cmp_lt", [Rat.const(1), form.apply("len", [att])]))
    numbered = ("and", [longer, ("or", [is_letter("q"), is_letter("p"), is_letter("e")]), numeric])
    want = ("and", [("not", regular), ("not", numbered)])
    try:
        w = boolq.differ(found, want)
    except boolq.TooBig as e:
        raise AnalysisError("%s: selection predicate too large to compare (%s)" % (site, e))
    ctx.ob("C09.2", site, w is None and isinstance(elem, Rat) and elem.equals(att), "other fields = not a regular name and not a q/p/e<number> column",
           loc=prog.loc(m, node), msg="_get_other_fields selects differently from the documented complement when %s" % (boolq.show(w) if w else "(element %s)" % elem))
    reg = prog.own_method("verif.input.Input.get_regular_names")
    names = None
    for st in ast.walk(reg):
        if isinstance(st, ast.Return):
            names = const(st.value)
    want = {"obs", "fcst", "id", "location", "lat", "lon", "elev", "altitude", "hour", "date", "unixtime", "leadtime", "offset"}
    ctx.ob("C09.2", "verif.input.Input.get_regular_names", names is not None and set(names) == want, "regular (non-score) column names",
           msg="regular names are %s" % names)


def check_header_names(ctx):
    """The column names of the header line are used as they are written (they name the user's score columns and are what -obs /
    -fcst / Other(name) look up): the key under which a column position is recorded is the header word itself, or 'leadtime' for the
    documented alias 'offset' - not a transformed spelling."""
    prog = ctx.prog
    site = "verif.input.Text.__init__"
    m = prog.module("verif.input")
    ev = trace.trace(prog, site)
    sts = [e for e in trace.stores(ev, "indices") if len(e["indices"]) == 1 and isinstance(e["indices"][0], Rat)]
    ctx.need(sts, "%s: the column positions (indices[name] = i) were not found" % site)

    def word_of(k):
        """k is a word of the whitespace split of a row: split(row)[i] / the element of a loop over split(row)"""
        at = k.as_atom()
        if at is None:
            return False
        if at.func == "getitem" and isinstance(at.args[0], Rat):
            b = at.args[0].as_atom()
        elif at.func.startswith("elem") and at.args and isinstance(at.args[0], Rat):
            b = at.args[0].as_atom()
        else:
            return False
        return b is not None and b.func == "m:split" and len(b.args) == 1 and isinstance(b.args[0], Rat) and b.args[0].as_atom() is not None \
            and b.args[0].as_atom().func.startswith("elem#")
    seen = set()
    for e in sts:
        k = e["indices"][0]
        alts = [k]
        at = k.as_atom("ifexp")
        if at is not None:
            alts = [x for x in at.args[1:3] if isinstance(x, Rat)]
        for a in alts:
            if a.key() in seen:
                continue
            seen.add(a.key())
            ok = a.key() == "str:'leadtime'()" or word_of(a)
            ctx.ob("C09.1", site, ok, "a column position is recorded under the header word itself (or 'leadtime' for 'offset')", loc=prog.loc(m, e["node"]),
                   msg="column positions are recorded under %s, not under the header word as written: score columns are renamed and "
                       "names that differ only in the transformed part collapse" % str(a)[:140], nontrivial=True)


def check_metadata(ctx):
    prog = ctx.prog
    site = "verif.input.Text.__init__"
    m = prog.module("verif.input")
    f = prog.own_method(site)
    src = norm(f)
    # semantic form of the metadata branch: for a row R of the file, with TOK = R[1:].split(),
    #   self._variable_<a> is assigned under exactly the positive conditions  R[0] == '#'  and  TOK[0] == '<key>'
    #   (negative conditions may only be the empty-line guard and the other keys), in every iteration of the row loop whatever the
    #   earlier rows were, and the value is ' '.join(TOK[1:]) (name, units) or TOK[1] (x0, x1).
    ev = trace.trace(prog, site)
    metas = [e for e in trace.assigns(ev) if e["name"].startswith("self._variable_") and e["loops"]]
    ctx.need(metas, "%s: no metadata assignments inside the row loop" % site)

    def eq_str(c):
        at = c.as_atom() if isinstance(c, Rat) else None
        if at is None or at.func != "cmp_eq" or not isinstance(at.args[0], Rat):
            return None
        ats = at.args[0].atoms(deep=False)
        strs = [a for a in ats if a.func.startswith("str:")]
        others = [a for a in ats if not a.func.startswith("str:")]
        if len(strs) == 1 and len(others) == 1:
            return others[0], strs[0].func[5:-1]
        if not strs and len(others) == 1:
            return others[0], None
        return None

    def row_of(c):
        r = eq_str(c)
        if r is None or r[1] != "#" or r[0].func != "getitem" or not isinstance(r[0].args[0], Rat):
            return None
        row = r[0].args[0].as_atom()
        return row if row is not None and row.func.startswith("elem#") and isinstance(r[0].args[1], Rat) and r[0].args[1].const_value() == 0 else None

    def is_tok(x, row):
        """x == row[1:].split()"""
        at = x.as_atom() if isinstance(x, Rat) else None
        if at is None or at.func != "m:split" or len(at.args) != 1 or not isinstance(at.args[0], Rat):
            return False
        g = at.args[0].as_atom()
        return g is not None and g.func == "getitem" and isinstance(g.args[0], Rat) and g.args[0].as_atom() is row and \
            isinstance(g.args[1], tuple) and tuple(str(z) for z in g.args[1]) == ("slice", "1", "None", "None")

    def classify(e, conds, row):
        """None if the conditions are exactly the metadata pattern for `row`, else a description of the deviation."""
        pos_keys, hash_ok = [], False
        for c, pol in conds:
            r = eq_str(c)
            if r is not None and r[1] == "#" and row_of(c) is row:
                if not pol:
                    return "reached on rows that do not start with '#'"
                hash_ok = True
                continue
            if r is not None and r[0].func == "getitem" and is_tok(r[0].args[0], row) and isinstance(r[0].args[1], Rat) and r[0].args[1].const_value() == 0 \
                    and r[1] is not None:
                if pol:
                    pos_keys.append(r[1])
                continue
            if r is not None and r[1] is None and r[0].func == "len" and is_tok(r[0].args[0], row) and not pol:
                continue
            return "additionally conditional on %s being %s" % (str(c)[:90], pol)
        if not hash_ok:
            return "not conditional on the row starting with '#'"
        return None if len(pos_keys) == 1 else "keys %s" % pos_keys, pos_keys

    def value_ok(attr, v, row):
        at = v.as_atom() if isinstance(v, Rat) else None
        if at is None:
            return False
        if attr in ("_variable_name", "_variable_units"):
            if at.func != "m:join" or len(at.args) != 2 or not isinstance(at.args[1], Rat):
                return False
            sep = at.args[0].as_atom() if isinstance(at.args[0], Rat) else None
            g = at.args[1].as_atom()
            return sep is not None and sep.func == "str:' '" and g is not None and g.func == "getitem" and is_tok(g.args[0], row) and \
                isinstance(g.args[1], tuple) and tuple(str(z) for z in g.args[1]) == ("slice", "1", "None", "None")
        return at.func == "getitem" and is_tok(at.args[0], row) and isinstance(at.args[1], Rat) and at.args[1].const_value() == 1

    first = metas[0]
    row1 = None
    for c, pol in first["conds"]:
        row1 = row_of(c)
        if row1 is not None:
            break
    ctx.need(row1 is not None and row1.func == "elem#1", "%s: the row symbol of the first iteration was not identified" % site)
    row2 = form.apply("elem#2", list(row1.args)).as_atom()
    for key, attr in (("variable:", "_variable_name"), ("units:", "_variable_units"), ("x0:", "_variable_x0"), ("x1:", "_variable_x1")):
        evs = [e for e in metas if e["name"] == "self." + attr]
        it1 = [e for e in evs if e["iter"] == (1,)]
        it2 = [e for e in evs if e["iter"] == (2,)]
        problems = []
        for e in it1:
            r = classify(e, e["conds"], row1)
            if r is None or isinstance(r, str):
                problems.append((e, r or "?"))
            elif r[0] is not None or r[1] != [key]:
                problems.append((e, "set for key(s) %s instead of '%s'" % (r[1], key)))
            elif not value_ok(attr, e["value"], row1):
                problems.append((e, "value is %s" % str(e["value"])[:100]))
        after_data = 0
        for e in it2:
            # the conditions added in the second iteration start at the first one about row 2
            idx = [i for i, (c, pol) in enumerate(e["conds"]) if row_of(c) is row2]
            if not idx:
                problems.append((e, "second row: not conditional on the row starting with '#'"))
                continue
            r = classify(e, e["conds"][idx[0]:], row2)
            if isinstance(r, str) or r is None:
                problems.append((e, "on a later row: " + (r or "?")))
            elif r[0] is not None or r[1] != [key]:
                problems.append((e, "on a later row: set for key(s) %s" % r[1]))
            elif not value_ok(attr, e["value"], row2):
                problems.append((e, "on a later row: value is %s" % str(e["value"])[:100]))
            pre = e["conds"][:idx[0]]
            if any(row_of(c) is row1 and not pol for c, pol in pre):
                after_data += 1
        if not it1:
            problems.append((None, "never set from a '# %s' line" % key))
        elif not after_data:
            problems.append((it1[0], "not set when the '# %s' line comes after the header or a data row (metadata lines are honoured only at the top of the file)" % key))
        ctx.ob("C09.5", site, not problems, "'# %s' sets %s from the rest of the line, on any line of the file" % (key, attr),
               loc=prog.loc(m, problems[0][0]["node"]) if problems and problems[0][0] else None,
               msg="metadata line '# %s': %s" % (key, "; ".join(p_[1] for p_ in problems[:2])),
               sample={"rule": "C09.5", "key": key, "events": len(evs)})
    gv = prog.own_method("verif.input.Text._get_variable")
    outs = [o for o in symeval.Evaluator(m).run(gv) if o.kind == "return"]
    want = form.apply("call:verif.variable.Variable", [S("self._variable_name"), S("self._variable_units")], {"x0": S("self._variable_x0"), "x1": S("self._variable_x1")})
    ctx.ob("C09.5", "verif.input.Text._get_variable", len(outs) == 1 and outs[0].value.equals(want), "Variable(name, units, x0=x0, x1=x1)", loc=prog.loc(m, gv),
           msg="_get_variable returns %s" % [str(o.value) for o in outs])
    var = prog.cls("verif.variable.Variable")
    params = [a.arg for a in var.methods["__init__"].args.args]
    ctx.ob("C09.5", "verif.variable.Variable.__init__", params[:3] == ["self", "name", "units"] and "x0" in params and "x1" in params, "Variable(name, units, ..., x0, x1) signature",
           msg="Variable.__init__ parameters are %s" % params)
    # C09.6 guarded indexing of whitespace splits
    for st in ast.walk(f):
        if isinstance(st, ast.Assign) and isinstance(st.value, ast.Call) and isinstance(st.value.func, ast.Attribute) and st.value.func.attr == "split" \
                and not st.value.args and len(st.targets) == 1 and isinstance(st.targets[0], ast.Name):
            name = st.targets[0].id
            if name != "curr":
                continue
            # constant index uses of `curr` must be dominated by a length guard in the same block
            parent_body = None
            pmap = parent_map(f)
            par = pmap.get(st)
            body = getattr(par, "body", [])
            idx = body.index(st) if st in body else -1
            guarded = False
            for nxt in body[idx + 1:]:
                if isinstance(nxt, ast.If) and "len(%s)" % name in norm(nxt.test):
                    guarded = any(isinstance(x, (ast.Continue, ast.Return)) for x in nxt.body) or True
                    break
                if any(isinstance(n_, ast.Subscript) and dotted(n_.value) == name for n_ in ast.walk(nxt)):
                    break
            ctx.ob("C09.6", site, guarded, "constant index into the whitespace split of a comment line is guarded by a length test", loc=prog.loc(m, st),
                   msg="`%s = ....split()` is indexed without a length guard: a line consisting of '#' alone raises IndexError" % name)
    # location metadata: the Location stored for an id is built from the row's own lat/lon/elev; later rows reuse it
    ok = "location = verif.location.Location(id, currLat, currLon, currElev)" in src and "locationInfo[id] = location" in src and \
        "lat = locationInfo[id].lat" in src and "lon = locationInfo[id].lon" in src and "elev = locationInfo[id].elev" in src
    ctx.ob("C09.4", site, ok, "Location(id, lat, lon, elev) of the row is stored per id and reused for later rows", msg="the per-id location bookkeeping changed")
    # the position components of the row key are those of the Location stored for the row's id (first description wins) and nothing else:
    # the densification looks rows up with the stored Location's lat/lon/elev, so a key built from the row's own (revised, more precise)
    # position is never found again
    f_ = prog.func(site)
    for n_ in ast.walk(f_):
        if not (isinstance(n_, ast.Assign) and len(n_.targets) == 1 and isinstance(n_.targets[0], ast.Name) and isinstance(n_.value, ast.Tuple)
                and len(n_.value.elts) >= 6 and all(isinstance(e_, ast.Name) for e_ in n_.value.elts[:6])):
            continue
        names = [e_.id for e_ in n_.value.elts[:6]]
        idname = names[2]
        for pos, role in ((3, "lat"), (4, "lon"), (5, "elev")):
            defs = [a for a in ast.walk(f_) if isinstance(a, ast.Assign) and a.lineno < n_.lineno and any(isinstance(t, ast.Name) and t.id == names[pos] for t in a.targets)]
            near = [a for a in defs if a.lineno > n_.lineno - 40]
            for a in near:
                v = a.value
                base_ok = isinstance(v, ast.Attribute) and v.attr == role and any(
                    (isinstance(x, ast.Subscript) and dotted(x.slice) == idname) or
                    (isinstance(x, ast.Call) and isinstance(x.func, ast.Attribute) and x.func.attr == "get" and x.args and dotted(x.args[0]) == idname)
                    for x in ast.walk(v.value))
                if isinstance(v, ast.Constant) or (isinstance(v, ast.Attribute) and dotted(v) in ("np.nan", "numpy.nan")):
                    continue          # the default before the row is read
                ctx.ob("C09.4", site, base_ok, "row key: %s is the %s of the Location stored for the row's id" % (names[pos], role), loc=prog.loc(m, a),
                       msg="the %s component of the row key is `%s`, not the %s of the Location stored for this id: rows whose own position differs from the "
                           "first description of the station are stored under a key the array-filling loop never looks up" % (role, norm(v)[:90], role))
        break
    loc = prog.cls("verif.location.Location")
    params = [a.arg for a in loc.methods["__init__"].args.args]
    ctx.ob("C09.4", "verif.location.Location.__init__", params == ["self", "id", "lat", "lon", "elev"], "Location(id, lat, lon, elev) parameter order",
           msg="Location.__init__ parameters are %s" % params)
    for a in ("id", "lat", "lon", "elev"):
        ok = "self.%s = %s" % (a, a) in norm(loc.methods["__init__"])
        ctx.ob("C09.4", "verif.location.Location.__init__", ok, "Location.%s <- parameter %s" % (a, a), msg="Location.%s is not set from parameter %s" % (a, a))


def _occurrences(x, conds, out):
    """(symbol name, conditions of the conditional expressions it sits under) for every symbol occurrence in a value"""
    if isinstance(x, (tuple, list)):
        for y in x:
            _occurrences(y, conds, out)
        return
    if not isinstance(x, Rat):
        return
    for a in x.atoms(deep=False):
        if a.func.startswith("$") and not a.args:
            out.append((a.func[1:], list(conds)))
        elif a.func == "ifexp" and len(a.args) == 3 and isinstance(a.args[0], Rat):
            _occurrences(a.args[0], conds, out)
            _occurrences(a.args[1], conds + [(a.args[0], True)], out)
            _occurrences(a.args[2], conds + [(a.args[0], False)], out)
        else:
            for y in a.args:
                _occurrences(y, conds, out)


def check_row_independence(ctx):
    """Every value is stored at its OWN coordinate: what one data row stores (key and value) depends on the rows before it only through
    the header (column positions) and the per-id location table - not through a scalar left over from the previous row.
    The body of the row loop is folded once with everything it inherits from earlier iterations symbolic.  A local that the body
    assigns from the row's text under condition Q and whose INHERITED value reaches a stored key/value under condition P is a
    leftover of an earlier row whenever P and Q can hold together - compared over the conditions that are the same for all rows
    (tests on `indices` / `header`), the row-specific ones left free.  The defaults (`unixtime = 0` before the loop, used when the
    file has no time column) pass: there P says "no date and no unixtime column" and Q says "one of them exists"."""
    from .. import boolq
    prog = ctx.prog
    site = "verif.input.Text.__init__"
    m = prog.module("verif.input")
    f = prog.own_method(site)
    loop = None
    for st in ast.walk(f):
        if isinstance(st, ast.For) and dotted(st.iter) == "file" and isinstance(st.target, ast.Name):
            loop = st
    if loop is None:
        ctx.undecided_item("C09.7", site, "the loop over the lines of the file is not in this function")
        return
    rowvar = loop.target.id
    builtin = {"self", "np", "verif", "float", "int", "len", "range", "dict", "list", "set", "str", "True", "False", "None", "enumerate", "zip", "any", "all",
               "sorted", "max", "min", "abs", "tuple", "isinstance"}
    names = set(n.id for n in ast.walk(loop) if isinstance(n, ast.Name)) - set(m.aliases) - builtin - {rowvar}
    env = {n: Rat.sym(n) for n in names}
    env[rowvar] = Rat.sym(rowvar)
    ev = symeval.Evaluator(m)
    ev.loop_mode, ev.merge_ifs, ev.record = "unroll2", True, True
    for c in m.classes.values():
        if any(g is f for g in c.methods.values()):
            ev.cls = c
    try:
        ev.run_stmts(loop.body, env=env)
    except (symeval.Undecided, AnalysisError) as e:
        ctx.undecided_item("C09.7", site, "the body of the row loop cannot be folded (%s)" % e)
        return
    assigned = {}
    for e in ev.events:
        if e["kind"] == "assign" and isinstance(e.get("name"), str) and "." not in e["name"] and isinstance(e.get("value"), Rat) and rowvar in e["value"].key():
            assigned.setdefault(e["name"], []).append(e["conds"])
    carried = set(assigned) & names

    def stable(k):
        return ("$indices" in k or "$header" in k) and rowvar not in k

    def restrict(f_, prime):
        if f_[0] == "atom":
            return f_ if stable(f_[1]) else ("atom", f_[1] + prime)
        if f_[0] == "not":
            return ("not", restrict(f_[1], prime))
        if f_[0] in ("and", "or"):
            return (f_[0], [restrict(x, prime) for x in f_[1]])
        return f_
    stores = [e for e in ev.events if e["kind"] == "store" and isinstance(e.get("root"), str) and not e["root"].startswith("self.")]
    ctx.need(len(stores) >= 5, "%s: fewer than 5 dictionary stores in the body of the row loop (%d)" % (site, len(stores)))
    bad = {}
    for e in stores:
        occ = []
        _occurrences(list(e["indices"]) + [e["value"]], [], occ)
        for v, vc in occ:
            if v not in carried:
                continue
            P = restrict(boolq.conj(list(e["conds"]) + vc), "")
            Q = restrict(boolq.disj(boolq.conj(c_) for c_ in assigned[v]), "'")
            try:
                w = boolq.differ(("and", [P, Q]), ("const", False), limit=14)
            except boolq.TooBig:
                w = None
            if w is not None:
                bad.setdefault((e["root"], v), (e, boolq.show({k: x for k, x in w.items() if x and stable(k)})))
    roots = sorted(set(e["root"] for e in stores))
    for root in roots:
        mine = sorted(v for (r_, v) in bad if r_ == root)
        e0 = bad[(root, mine[0])][0] if mine else [e for e in stores if e["root"] == root][0]
        ctx.ob("C09.7", site, not mine, "what a row stores in '%s' does not depend on a scalar left over from an earlier row" % root, loc=prog.loc(m, e0["node"]),
               msg="the key / value stored in '%s' uses the value that %s kept from an EARLIER row (the same variable is assigned from the row's own text, e.g. when %s): "
                   "the value lands at another row's coordinate" % (root, "/".join(mine), bad[(root, mine[0])][1][:160] if mine else ""),
               sample={"rule": "C09.7", "dictionary": root, "leftover_variables": mine, "row_assigned_locals": len(carried)})


def check_own_storage(ctx):
    """C09.8: every field array the reader fills has its own storage.  ``dict.fromkeys(names, <array>)`` and ``[<array>] * n`` evaluate
    the allocation once: every extra score column (or ensemble member, threshold ...) would then be a view of one array and show
    the values of the column stored last."""
    from .. import lints
    prog = ctx.prog
    ctx.control("C09.8", lints.control(), "shared-allocation lint recognises dict.fromkeys(keys, alloc) and [alloc] * n and stays silent on immutable values")
    m = prog.module("verif.input")
    hits = lints.shared_allocations(m.tree)
    n_alloc = sum(1 for n in ast.walk(m.tree) if isinstance(n, ast.Call) and isinstance(n.func, ast.Attribute) and n.func.attr in ("zeros", "ones", "full", "empty"))
    ctx.need(n_alloc >= 8, "C09.8: fewer array allocations in verif/input.py than confirmed (%d)" % n_alloc)
    ctx.ob("C09.8", "verif.input", not hits, "no mutable allocation of verif/input.py is shared between keys or positions (%d array allocations examined)" % n_alloc,
           loc=prog.loc(m, hits[0][0]) if hits else None, msg="; ".join(h[1] for h in hits))


def run(ctx):
    ctx.rule("C09.1", "column -> dictionary -> attribute wiring; level = float(name[1:]); aliases")
    ctx.rule("C09.2", "column classification predicates and their complement")
    ctx.rule("C09.3", "write key and lookup key agree; store subscripts; dimension lists exported unchanged")
    ctx.rule("C09.4", "location metadata attached to the right id")
    ctx.rule("C09.5", "metadata lines set the variable")
    ctx.rule("C09.6", "whitespace splits of comment lines are indexed under a length guard")
    row_loop, writes, last_def = check_row_parsing(ctx)
    check_keys(ctx, row_loop, writes, last_def)
    check_classification(ctx)
    check_metadata(ctx)
    check_header_names(ctx)
    ctx.rule("C09.7", "row independence: no scalar left over from an earlier row reaches a stored key or value")
    check_row_independence(ctx)
    ctx.rule("C09.8", "own storage: no array of the reader is shared between fields (dict.fromkeys / list repetition of one allocation)")
    check_own_storage(ctx)
    from . import c04
    from .c04 import _import
    sub = type(ctx)(ctx.prog, "C04", ctx.tier, True)
    c04.check_reads(sub)
    _import(ctx, sub, "C04.3", "C09.1")
    ctx.floor("C09.1", 30)
    ctx.floor("C09.3", 20)
    ctx.floor("C09.2", 7)


CLAIM = {
    "level": "Static WIRE/INDEX analysis of the text reader: the wiring of every kind of column to its attribute, agreement of the key written "
             "and the key looked up (component roles and order), the index variables of the densification stores, identity of the enumerated "
             "and exported dimension lists, classification predicates, aliases, metadata and comment-line handling. Necessary conditions for "
             "every well-formed file; no file is read.",
    "note": "Trusted: CPython ast, vsa symbolic folding, str.split/float. Part of the row-parsing rules are syntactic patterns over the current "
            "structure of Text.__init__ (a restructuring yields ANALYSIS-ERROR or a finding to triage, never a silent pass).",
    "technique": "static analysis: C09.7 row independence (the row-loop body folded with its inherited state symbolic; satisfiability of read-condition and assign-condition over the row-invariant tests); provenance of dictionary keys/values (AST def-use + symbolic event log), positional index discipline, "
                 "predicate-set comparison, guard/use rule for split(), provenance of the row key's position components (the Location stored for the row's id); C09.8 shared-allocation lint (dict.fromkeys(keys, alloc), [alloc] * n) over verif/input.py with a built-in control",
}
