"""C10 - NetCDF input is read faithfully and agrees with the text format; text2nc."""
import ast

from .. import form, q, symeval, trace, ncwriter
from ..core import AnalysisError, const, dotted, norm, parent_map, calls_in, call_name
from ..form import Rat

EXPLANATION = (
    "WIRE/sibling analysis: every property/method of input.Netcdf is checked to read the documented variable into the documented "
    "attribute (obs, fcst, pit, ensemble, cdf->threshold_scores, x->quantile_scores, threshold, quantile, time, leadtime, location/"
    "lat/lon/altitude -> Location(id, lat, lon, elev) in that argument order, global attributes -> Variable), with the literal of the "
    "presence guard equal to the literal read (contradiction rule) and every read through verif.util.clean (shared with C04). The "
    "table (variable, dimensions, dtype, value) written by scripts/text2nc.py is extracted by symbolic folding and composed with the "
    "reader's table: the composition must be the identity on attribute names, with dimension order (time, leadtime, location[, 4th]), "
    "floating types for data, coordinate variables fed by the unmodified dimension lists (no re-ordering), and every field the text "
    "reader can produce and the NetCDF reader can consume must be written. File-type detection uses the file's content only.")
ASSUMPTIONS = ["netCDF4 library semantics (masking, dtype conversion to float32)", "equality of scores between the two readers on data is not decided"]
AUDIT = {"functions": ["scripts.text2nc.main", "verif.input.get_input", "verif.input.Netcdf._get_locations", "verif.input.Netcdf._get_variable"],
         "classes": ["verif.input.Netcdf"]}

READER = {  # method/property -> (netcdf variable, attribute name it provides)
    "obs": "obs", "fcst": "fcst", "pit": "pit", "ensemble": "ensemble", "threshold_scores": "cdf", "quantile_scores": "x",
    "_get_thresholds": "threshold", "_get_quantiles": "quantile", "_get_times": "time", "_get_leadtimes": "leadtime",
}
INIT_ATTR = {"times": "_get_times", "leadtimes": "_get_leadtimes", "locations": "_get_locations", "thresholds": "_get_thresholds",
             "quantiles": "_get_quantiles", "variable": "_get_variable"}
WRITER = {  # netcdf variable -> (dims, source attribute description)
    "time": (("time",), "attr:times($INPUT)"),
    "leadtime": (("leadtime",), "attr:leadtimes($INPUT)"),
    "location": (("location",), "map(attr:id(elem(attr:locations($INPUT))),attr:locations($INPUT))"),
    "lat": (("location",), "map(attr:lat(elem(attr:locations($INPUT))),attr:locations($INPUT))"),
    "lon": (("location",), "map(attr:lon(elem(attr:locations($INPUT))),attr:locations($INPUT))"),
    "altitude": (("location",), "map(attr:elev(elem(attr:locations($INPUT))),attr:locations($INPUT))"),
    "obs": (("time", "leadtime", "location"), "attr:obs($INPUT)"),
    "fcst": (("time", "leadtime", "location"), "attr:fcst($INPUT)"),
    "cdf": (("time", "leadtime", "location", "threshold"), "attr:threshold_scores($INPUT)"),
    "threshold": (("threshold",), "attr:thresholds($INPUT)"),
    "x": (("time", "leadtime", "location", "quantile"), "attr:quantile_scores($INPUT)"),
    "quantile": (("quantile",), "attr:quantiles($INPUT)"),
    "ensemble": (("time", "leadtime", "location", None), "attr:ensemble($INPUT)"),
}


def S(n):
    return Rat.sym(n)


def reads_of(func):
    """(literal read, guard literal or None, negated?) for self._file.variables[...] loads of a function."""
    pm = parent_map(func)
    out = []
    for node in ast.walk(func):
        if isinstance(node, ast.Subscript) and dotted(node.value) == "self._file.variables" and isinstance(node.ctx, ast.Load):
            lit = const(node.slice)
            guard = None
            cur = node
            while cur in pm:
                par = pm[cur]
                if isinstance(par, ast.If):
                    t = par.test
                    if isinstance(t, ast.Compare) and len(t.ops) == 1 and isinstance(t.ops[0], (ast.In, ast.NotIn)) and \
                            dotted(t.comparators[0]) == "self._file.variables":
                        in_body = any(cur is s or cur in ast.walk(s) for s in par.body)
                        neg = isinstance(t.ops[0], ast.NotIn)
                        if in_body != neg:
                            guard = const(t.left)
                            break
                cur = par
            out.append((lit, guard, node))
    return out


def check_reader(ctx):
    prog = ctx.prog
    m = prog.module("verif.input")
    c = prog.cls("verif.input.Netcdf")
    for meth, var in READER.items():
        f = c.methods.get(meth)
        site = c.qual + "." + meth
        ctx.ob("C10.1", site, f is not None, "Netcdf.%s exists" % meth, msg="Netcdf.%s is gone" % meth)
        if f is None:
            continue
        rs = reads_of(f)
        lits = [r[0] for r in rs]
        ctx.ob("C10.1", site, lits == [var], "Netcdf.%s reads variable '%s'" % (meth, var), loc=prog.loc(m, f),
               msg="Netcdf.%s reads %s, documented variable is '%s'" % (meth, lits, var), sample={"rule": "C10.1", "attribute": meth, "variable": lits})
        for lit, guard, node in rs:
            if guard is not None:
                ctx.ob("C10.1", site, guard == lit, "presence guard '%s' matches the variable read" % guard, loc=prog.loc(m, node),
                       msg="Netcdf.%s tests for '%s' but reads '%s'" % (meth, guard, lit))
    # constructor: attribute <- getter
    init = c.methods["__init__"]
    for attr, getter in INIT_ATTR.items():
        ok = any(isinstance(st, ast.Assign) and dotted(st.targets[0]) == "self." + attr and isinstance(st.value, ast.Call) and dotted(st.value.func) == "self." + getter
                 for st in ast.walk(init))
        ctx.ob("C10.1", c.qual + ".__init__", ok, "self.%s = self.%s()" % (attr, getter), loc=prog.loc(m, init), msg="self.%s is not set from %s()" % (attr, getter))
    # locations
    f = c.methods["_get_locations"]
    site = c.qual + "._get_locations"
    want = {"lat": "lat", "lon": "lon", "id": "location", "elev": "altitude"}
    got = {}
    for st in ast.walk(f):
        if isinstance(st, ast.Assign) and len(st.targets) == 1 and isinstance(st.targets[0], ast.Name) and isinstance(st.value, ast.Call) \
                and call_name(m, st.value) == "verif.util.clean":
            for lit, guard, node in reads_of(st):
                got[st.targets[0].id] = (lit, guard)
    for name, var in want.items():
        g = got.get(name)
        ctx.ob("C10.1", site, g is not None and g[0] == var and g[1] in (var, None), "%s <- variable '%s' (guard on the same name)" % (name, var), loc=prog.loc(m, f),
               msg="location %s is read from %s" % (name, g))
    ctor = [k for k in calls_in(f) if call_name(m, k) == "verif.location.Location"]
    ok = len(ctor) == 1 and [norm(a) for a in ctor[0].args] == ["id[i]", "lat[i]", "lon[i]", "elev[i]"]
    ctx.ob("C10.1", site, ok, "Location(id[i], lat[i], lon[i], elev[i])", loc=prog.loc(m, f), msg="Location is built with %s" % ([norm(a) for a in ctor[0].args] if ctor else None))
    # defaults when variables are absent
    src = norm(f)
    ctx.ob("C10.1", site, "id = np.arange(len(lat))" in src and "elev = np.nan * np.zeros(lat.shape)" in src, "absent location -> 0..L-1, absent altitude -> NaN",
           loc=prog.loc(m, f), msg="defaults for absent location/altitude changed")
    # variable metadata
    f = c.methods["_get_variable"]
    outs = [o for o in symeval.Evaluator(m).run(f) if o.kind == "return"]
    ok = False
    for o in outs:
        at = q.top(o.value, "call:verif.variable.Variable")
        if at is None:
            continue
        kw = {a[0][3:]: a[1] for a in at.args if isinstance(a, tuple) and a and isinstance(a[0], str) and a[0].startswith("kw:")}
        name_k = at.args[0].key()
        ok = ("$self._file.long_name" in name_k or "$self._file.standard_name" in name_k or "Unknown variable" in name_k) and "x0" in kw and "x1" in kw and \
            ("$self._file.x0" in kw["x0"].key() or kw["x0"].key() == "$None") and ("$self._file.x1" in kw["x1"].key() or kw["x1"].key() == "$None") and \
            ("$self._file.units" in at.args[1].key() or "Unknown units" in at.args[1].key() or "%" in at.args[1].key())
        ctx.ob("C10.1", c.qual + "._get_variable", ok, "Variable(long_name|standard_name, units, x0=x0, x1=x1) from the global attributes", loc=prog.loc(m, o.node),
               msg="_get_variable returns %s" % str(o.value)[:200], nontrivial=False)
    src = norm(f)
    ctx.ob("C10.1", c.qual + "._get_variable", _before(src, "hasattr(self._file, 'long_name')", "hasattr(self._file, 'standard_name')"), "long_name is preferred over standard_name",
           loc=prog.loc(m, f), msg="name precedence changed")
    # other fields = everything that is not a regular name
    init_src = norm(init)
    ctx.ob("C10.1", c.qual + ".__init__", "self.other_fields = [var for var in self._file.variables if var not in regular_names]" in init_src and
           "['threshold', 'cdf', 'quantile', 'x']" in init_src, "other fields = variables that are not regular/probabilistic names", loc=prog.loc(m, init),
           msg="the rule for other fields changed")
    ctx.floor("C10.1", 30)


def _before(src, a, b):
    return a in src and b in src and src.index(a) < src.index(b)


def check_writer(ctx):
    prog = ctx.prog
    site = "scripts.text2nc.main"
    m = prog.module("scripts.text2nc")
    table, ev = ncwriter.writer_table(prog, site)
    for var, (dims, src) in WRITER.items():
        row = table.get(var)
        ctx.ob("C10.2", site, row is not None, "variable '%s' is written" % var,
               msg="text2nc does not write '%s': %s of a text file is lost in the conversion although the NetCDF reader supports it" % (var, src))
        if row is None:
            continue
        loc = prog.loc(m, row["node"])
        d_ok = len(row["dims"]) == len(dims) and all(w is None or w == g for w, g in zip(dims, row["dims"]))
        ctx.ob("C10.2", site, d_ok, "'%s' has dimensions %s" % (var, dims), loc=loc, msg="'%s' is created with dimensions %s, documented %s" % (var, row["dims"], dims))
        v = row["value"]
        ok = isinstance(v, Rat) and v.key() == src
        ctx.ob("C10.2", site, ok, "'%s' <- %s" % (var, src), loc=prog.loc(m, row.get("store_node", row["node"])),
               msg="'%s' is filled with %s, expected %s unchanged (same order as the dimension it indexes)" % (var, str(v)[:160], src),
               expected=src, found=str(v)[:160], sample={"rule": "C10.2", "variable": var, "dims": row["dims"], "dtype": row["dtype"], "source": str(v)[:120]})
        if len(dims) >= 3 or var in ("lat", "lon", "altitude", "leadtime", "threshold", "quantile", "time"):
            ctx.ob("C10.2", site, (row["dtype"] or "").startswith("f"), "'%s' is stored as floating point" % var, loc=loc, msg="'%s' has dtype %s" % (var, row["dtype"]))
    ncwriter.check_exact_coordinates(ctx, "C10.2", site, prog, m, table)
    others = [k for k in table if k.startswith("<")]
    ok = False
    for k in others:
        row = table[k]
        v = row["value"]
        ok = row["dims"] == ("time", "leadtime", "location") and isinstance(v, Rat) and "m:other_score($INPUT," in v.key()
    ctx.ob("C10.2", site, ok, "every other field is written as a (time, leadtime, location) variable from other_score(name)",
           msg="other fields are not written from input.other_score(name)")
    # global attributes
    src = norm(prog.func(site))
    ctx.ob("C10.2", site, "output.standard_name = variable.name" in src and "variable.units.replace('$', '')" in src, "variable name and units are written as global attributes",
           msg="name/units global attributes changed")
    ctx.floor("C10.2", 35)


def check_detection(ctx):
    prog = ctx.prog
    m = prog.module("verif.input")
    f = prog.func("verif.input.get_input")
    outs = symeval.Evaluator(m).run(f)
    rets = [o for o in outs if o.kind == "return"]
    want = {"call:verif.input.Netcdf($filename)": ["call:verif.util.is_valid_nc($filename)", "call:verif.input.Netcdf.is_valid($filename)"],
            "call:verif.input.Text($filename)": ["call:verif.input.Text.is_valid($filename)"]}
    for o in rets:
        k = o.value.key() if isinstance(o.value, Rat) else ""
        if k in want:
            trues = [c.key() for c, pol in o.conds if pol]
            ok = all(w in trues for w in want[k])
            ctx.ob("C10.3", "verif.input.get_input", ok, "%s is chosen after %s" % (k.split("(")[0].split(".")[-1], " and ".join(w.split("(")[0].split("call:")[-1] for w in want[k])),
                   loc=prog.loc(m, o.node), msg="%s is chosen under %s" % (k, trues))
    ctx.ob("C10.3", "verif.input.get_input", sum(1 for o in outs if o.kind == "error") >= 2, "invalid files stop with an error", msg="error exits for invalid files are gone")
    # no decision on the file name
    n = 0
    for qual in ("verif.input.get_input", "verif.util.is_valid_nc", "verif.input.Netcdf.is_valid", "verif.input.Comps.is_valid", "verif.input.Text.is_valid"):
        fn = prog.func(qual)
        mm = prog.module(".".join(qual.split(".")[:2]))
        bad = []
        for node in ast.walk(fn):
            if isinstance(node, ast.Attribute) and node.attr in ("endswith", "splitext", "suffix", "rfind", "rsplit") and "filename" in norm(node):
                bad.append(node)
            if isinstance(node, ast.Subscript) and dotted(node.value) == "filename":
                bad.append(node)
        n += 1
        ctx.ob("C10.3", qual, not bad, "the decision does not look at the file name", loc=prog.loc(mm, bad[0]) if bad else None,
               msg="%s inspects the file name (%s): the type must be detected from content" % (qual, norm(bad[0]) if bad else ""))
    f = prog.func("verif.util.is_valid_nc")
    ctx.ob("C10.3", "verif.util.is_valid_nc", "netCDF4.Dataset(filename, 'r')" in norm(f), "is_valid_nc opens the file", msg="is_valid_nc no longer opens the file")
    f = prog.own_method("verif.input.Netcdf.is_valid")
    src = norm(f)
    ctx.ob("C10.3", "verif.input.Netcdf.is_valid", "['time', 'location', 'leadtime']" in src and "['time', 'leadtime']" in src, "required dimensions and variables of the verif layout",
           msg="the required dimension/variable sets changed")


def run(ctx):
    ctx.rule("C10.1", "NetCDF reader: variable -> attribute wiring, guard literal = read literal, Location/Variable argument positions")
    ctx.rule("C10.2", "text2nc writes every field with the documented name, dimension order, type and unmodified source; composition with the reader is the identity")
    ctx.rule("C10.3", "file type detected from content only")
    check_reader(ctx)
    check_writer(ctx)
    check_detection(ctx)
    from . import c04
    from .c04 import _import
    sub = type(ctx)(ctx.prog, "C04", ctx.tier, True)
    c04.check_reads(sub)
    c04.check_clean(sub)
    _import(ctx, sub, "C04.1", "C10.1")
    _import(ctx, sub, "C04.2", "C10.1")
    # composition: reader(var) o writer(attr) = identity on attribute names
    inv = {v: k for k, v in READER.items()}
    attr_of_var = {"obs": "obs", "fcst": "fcst", "cdf": "threshold_scores", "x": "quantile_scores", "ensemble": "ensemble",
                   "threshold": "thresholds", "quantile": "quantiles", "time": "times", "leadtime": "leadtimes"}
    for var, attr in attr_of_var.items():
        src = WRITER[var][1]
        ctx.ob("C10.2", "composition", ("attr:%s($INPUT)" % attr) == src, "write(%s) then read('%s') yields attribute %s again" % (attr, var, attr),
               msg="writer/reader tables disagree on '%s'" % var, nontrivial=False)


CLAIM = {
    "level": "Static WIRE / writer-reader table analysis: the NetCDF reader's variable->attribute table (with guard/read agreement), the table "
             "written by text2nc extracted from its source, and their composition; dimension order and dtype classes; unmodified coordinate "
             "lists; content-only format detection; cleaning of every read (C04). Necessary conditions for the two formats to yield the same "
             "dataset; no file is written or read.",
    "note": "Trusted: CPython ast, vsa symbolic folding, netCDF4 semantics. Not decided: numerical agreement of scores, float32 rounding.",
    "technique": "static analysis: literal/guard contradiction rule, extraction of the writer's (name, dims, dtype, value) table by symbolic "
                 "folding, table composition, exact NetCDF type of the time coordinate, who-may-inspect (file name) = 0",
}
