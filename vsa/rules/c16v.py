"""C16.7 - the series of six diagrams by value.

``_plot_core`` of the diagram is folded (one generic iteration per loop), the two array arguments of the call that draws the
series of input f are taken apart - the element that finally sits at the generic index of the store chain, read-backs resolved
(vsa.arrays) - the sub-terms that stand for "the observed event", "the forecast probability", "the level" ... are replaced by
symbols, and what is left is compared as a rational function with the definition (Murphy diagram: Ehm et al. 2016 elementary
score; ROC: F = b/(b+d), H = a/(a+c); error decomposition: sqrt(mse - bias^2) against bias; performance diagram: 1 - FAR against
POD; deterministic ROC: false-alarm rate against hit rate).  The provenance of every replaced sub-term is then checked
structurally: which fields were requested, of which input, which element of the result is the observation, which bin type and
threshold turn it into an event.  Nothing here depends on names of locals, the number of statements or the order of independent
stores; a re-spelling that the evaluator cannot fold is reported as undecided (ANALYSIS-ERROR), never as a violation."""
from .. import arrays, form, plotargs, q, symeval
from ..form import Rat

RULE = "C16.7"


def _k(x):
    return arrays._ikey(x)


def _is_series(k):
    lab = k["kwargs"].get("label")
    return k["kind"] == "plot" and len(k["args"]) >= 2 and isinstance(lab, Rat) and "get_legend" in lab.key()


def _series_input_index(k):
    """$f of labels[f]"""
    lab = k["kwargs"]["label"]
    for a in q.atoms(lab, "getitem"):
        if "get_legend" in _k(a.args[0]):
            return a.args[1]
    return None


def _get_scores_parts(g):
    """atom call:data.get_scores((fields...), input, axis[, index]) -> (field keys, input, axis, index)"""
    if g.func != "call:data.get_scores" or len(g.args) < 2:
        return None
    fields = g.args[0]
    if not isinstance(fields, tuple):
        return None
    rest = list(g.args[1:]) + [None, None]
    return [_k(x) for x in fields], rest[0], rest[1], rest[2]


def _scores_elem(a, pos):
    """is atom a == getitem(call:data.get_scores(...), pos)?  returns the get_scores atom"""
    if a.func != "getitem" or len(a.args) != 2 or not isinstance(a.args[0], Rat):
        return None
    g = a.args[0].as_atom("call:data.get_scores")
    if g is None or _k(a.args[1]) != str(pos):
        return None
    return g


def _expr(text, names):
    return symeval.eval_expr_string(text, env={n: Rat.sym(n) for n in names})


def _strip_nan_guard(v):
    """ifexp(cond, V, nan) -> (cond, V); anything else -> (None, v)"""
    at = v.as_atom("ifexp") if isinstance(v, Rat) else None
    if at is not None and len(at.args) == 3 and isinstance(at.args[2], Rat) and at.args[2].key() in ("$nan", "$np.nan"):
        return at.args[0], at.args[1]
    return None, v


def _column_elem(arg):
    """arg = A[:, f]  ->  (element (i, f) of A after all stores, i, f)  where (i, f) is the index A is stored at"""
    at = arg.as_atom("getitem") if isinstance(arg, Rat) else None
    if at is None or not isinstance(at.args[1], tuple) or len(at.args[1]) != 2:
        return None
    row, col = at.args[1]
    if not (isinstance(row, tuple) and row and row[0] == "slice" and all(x == "None" for x in row[1:])):
        return None
    idxs = []

    def stores(a):
        if not isinstance(a, Rat):
            return
        s = a.as_atom("setitem")
        if s is not None:
            idxs.append(s.args[1])
            stores(s.args[0])
            return
        e = a.as_atom("ifexp")
        if e is not None:
            stores(e.args[1])
            stores(e.args[2])
    stores(at.args[0])
    for ix in idxs:
        if isinstance(ix, tuple) and len(ix) == 2 and _k(ix[1]) == _k(col):
            v = arrays.elem_at(at.args[0], ix)
            if v is not None:
                return arrays.read_back(v), ix[0], col
    return None


def _fold(ctx, cname):
    prog = ctx.prog
    c = prog.cls("verif.output." + cname)
    try:
        calls, ev = plotargs.draw_calls(prog, c, merge=True)
    except symeval.Undecided as e:
        ctx.undecided_item(RULE, c.qual, str(e))
        return c, None
    return c, calls


def _ob(ctx, c, k, ok, what, msg):
    m = ctx.prog.module("verif.output")
    ctx.ob(RULE, c.qual + "._plot_core", ok, what, loc=ctx.prog.loc(m, k["node"]) if k is not None else None, msg=msg)


def _same_scores(ctx, c, k, atoms_by_name, fields, f_idx, pos):
    """every atom abstracted as NAME is element pos[NAME] of one and the same get_scores(fields, f_idx, ...) request"""
    gs = {}
    ok = True
    why = ""
    for name, ats in atoms_by_name.items():
        if name not in pos:
            continue
        for a in ats:
            inner = a
            # O / P may be wrapped: apply_threshold(getitem(G, 0), ...) - descend to the getitem
            cand = [x for x in [inner] + q.atoms(Rat.of_atom(inner), "getitem") if _scores_elem(x, pos[name]) is not None]
            if not cand:
                ok, why = False, "%s is not element %d of a get_scores request: %s" % (name, pos[name], str(Rat.of_atom(a))[:120])
                continue
            g = _scores_elem(cand[0], pos[name])
            gs[g.id] = g
    if len(gs) != 1:
        ok, why = False, why or "the quantities of one point come from %d different get_scores requests" % len(gs)
    for g in gs.values():
        parts = _get_scores_parts(g)
        if parts is None:
            ok, why = False, "get_scores request not understood"
            continue
        fk, inp, axis, index = parts
        if len(fk) != len(fields) or any(not x.startswith(y) for x, y in zip(fk, fields)):
            ok, why = False, "fields requested are %s, expected %s in this order" % (fk, fields)
        if f_idx is not None and _k(inp) != _k(f_idx):
            ok, why = False, "scores of input %s drawn in the series labelled with input %s" % (_k(inp), _k(f_idx))
    _ob(ctx, c, k, ok, "the quantities of a point are elements of one get_scores(%s) request of the series' own input" % ", ".join(x.split(".")[-1] for x in fields),
        "%s: %s" % (c.name, why))
    return list(gs.values())[0] if len(gs) == 1 else None


# ---------------------------------------------------------------------------------------------------------------- Murphy
def murphy(ctx):
    c, calls = _fold(ctx, "Murphy")
    if calls is None:
        return
    ser = [k for k in calls if _is_series(k)]
    ctx.need(ser, "Murphy: series call not found")
    ref = _expr("2*E*mean((P > E) & (O == 0)) + 2*(1-E)*mean((P < E) & (O == 1)) + 2*E*(1-E)*mean(P == E)", "EPO")
    for k in ser:
        x, y = k["args"][0], k["args"][1]
        idx = arrays.store_index(y)
        v = arrays.final_elem(y, idx) if idx is not None else None
        if v is None:
            ctx.undecided_item(RULE, c.qual, "the drawn y is not a store chain over one index")
            raise symeval.Undecided("Murphy: y of the series is not a store chain over one index")
        tab = [("O", lambda a: a.func == "call:verif.util.apply_threshold"),
               ("P", lambda a: a.func == "call:verif.util.apply_threshold_prob"),
               ("E", lambda a: a.func == "getitem" and _k(a.args[0]) == _k(x) and _k(a.args[1]) == _k(idx))]
        v2, seen = arrays.abstract(v, tab)
        ok = v2.equals(ref)
        _ob(ctx, c, k, ok, "Murphy diagram: y[t] = mean elementary score 2*theta*[p>theta, o=0] + 2*(1-theta)*[p<theta, o=1] + 2*theta*(1-theta)*[p=theta] at theta = x[t]",
            "Murphy diagram: the mean elementary score at x[t] is %s" % str(v2)[:300])
        f_idx = _series_input_index(k)
        g = _same_scores(ctx, c, k, seen, ["call:verif.field.Obs()", "call:verif.field.Threshold("], f_idx, {"O": 0, "P": 1})
        # event wiring: both through the user's bin type and the -r threshold that the Threshold field was requested for
        ok, why = True, ""
        thr = None
        if g is not None:
            fld = g.args[0][1]
            ta = fld.as_atom("call:verif.field.Threshold") if isinstance(fld, Rat) else None
            thr = ta.args[0] if ta is not None and ta.args else None
        for name in ("O", "P"):
            for a in seen.get(name, []):
                if len(a.args) < 3 or _k(a.args[1]) != "$self.bin_type" or thr is None or _k(a.args[2]) != _k(thr):
                    ok, why = False, "%s is %s" % (name, str(Rat.of_atom(a))[:200])
        if not seen.get("O") or not seen.get("P"):
            ok, why = False, "observed event / event probability not found in the drawn value"
        _ob(ctx, c, k, ok, "Murphy diagram: observed event and event probability are both taken with the user's bin type at the -r threshold the probability was requested for",
            "Murphy diagram: event wiring changed: %s" % why)


# ---------------------------------------------------------------------------------------------------------------- ROC
def roc(ctx):
    c, calls = _fold(ctx, "Roc")
    if calls is None:
        return
    ser = [k for k in calls if _is_series(k)]
    ctx.need(ser, "ROC: series call not found")
    ref_x = _expr("masum(FW & (OW == 0)) / (masum(FW & (OW == 0)) + masum((FW == 0) & (OW == 0)))", ["FW", "OW"])
    ref_y = _expr("masum(FW & OW) / (masum(FW & OW) + masum((FW == 0) & OW))", ["FW", "OW"])
    ref_c = _expr("(masum(FW & OW) + masum((FW == 0) & OW) > 0) & (masum(FW & (OW == 0)) + masum((FW == 0) & (OW == 0)) > 0)", ["FW", "OW"])
    for k in ser:
        f_idx = _series_input_index(k)
        vals = []
        seen_all = {}
        for arg, ref, nm in ((k["args"][0], ref_x, "x = b/(b+d)"), (k["args"][1], ref_y, "y = a/(a+c)")):
            cat = arg.as_atom("call:numpy.concatenate") if isinstance(arg, Rat) else None
            parts = cat.args[0] if cat is not None and isinstance(cat.args[0], tuple) else None
            ok = parts is not None and len(parts) == 3 and _k(parts[0]) in ("[1]", "(1)") and _k(parts[2]) in ("[0]", "(0)")
            _ob(ctx, c, k, ok, "ROC: the curve runs from (1,1) to (0,0): concatenate([1], values, [0])", "ROC end points changed: %s" % (_k(parts)[:80] if parts is not None else str(arg)[:80]))
            if not ok:
                continue
            body = parts[1]
            # the stored element: through the guard "both rates defined"
            idxs = [a.args[1] for a in q.atoms(body, "setitem")]
            v = None
            for ix in idxs:
                v = arrays.elem_at(body, ix)
                if v is not None:
                    v = arrays.read_back(v)
                    break
            if v is None:
                raise symeval.Undecided("ROC: the values between the end points are not a store chain")

            def is_fw(a):
                return a.func == "m:within" and "str:'above='" in _k(a.args[0])

            def is_ow(a):
                return a.func == "m:within" and not is_fw(a)
            v2, seen = arrays.abstract(v, [("FW", is_fw), ("OW", is_ow)])
            for n_, ats in seen.items():
                seen_all.setdefault(n_, []).extend(ats)
            cond, core = _strip_nan_guard(v2)
            ok = core.equals(ref)
            _ob(ctx, c, k, ok, "ROC: %s from the 2x2 table of (p >= level) against the observed event" % nm, "ROC: %s is %s" % (nm.split(" ")[0], str(core)[:300]))
            okc = cond is not None and cond.key() == ref_c.key()
            if cond is not None and not okc:
                try:
                    from .. import boolq
                    okc = boolq.equivalent(cond, ref_c)
                except Exception:
                    okc = False
            _ob(ctx, c, k, okc, "ROC: a point is NaN exactly when a + c = 0 or b + d = 0", "ROC: the point is drawn under %s" % (str(cond)[:200]))
        # wiring of FW / OW
        ok, why = True, ""
        fw, ow = seen_all.get("FW", []), seen_all.get("OW", [])
        if not fw or not ow:
            ok, why = False, "forecast / observed event not found"
        pgs = {}
        for a in fw:
            iv, p = a.args[0], a.args[1]
            e = iv.as_atom("elem") if isinstance(iv, Rat) else None
            gi = e.args[0].as_atom("call:verif.util.get_intervals") if e is not None and isinstance(e.args[0], Rat) else None
            if gi is None or _k(gi.args[0]) != "str:'above='()":
                ok, why = False, "forecast 'yes' is not p >= level: %s" % _k(iv)[:120]
            pa = p.as_atom("call:verif.util.apply_threshold_prob") if isinstance(p, Rat) else None
            if pa is None or _k(pa.args[1]) != "$self.bin_type":
                ok, why = False, "probabilities are not flipped to the event of the user's bin type: %s" % _k(p)[:120]
            else:
                ge = pa.args[0].as_atom("getitem") if isinstance(pa.args[0], Rat) else None
                g = _scores_elem(ge, 1) if ge is not None else None
                if g is None:
                    ok, why = False, "the probability is not element 1 of the get_scores request"
                else:
                    pgs[g.id] = (g, pa)
        for a in ow:
            iv, o = a.args[0], a.args[1]
            gi0 = iv.as_atom("getitem") if isinstance(iv, Rat) else None
            gi = gi0.args[0].as_atom("call:verif.util.get_intervals") if gi0 is not None and isinstance(gi0.args[0], Rat) else None
            if gi is None or _k(gi.args[0]) != "$self.bin_type" or _k(gi0.args[1]) != "0":
                ok, why = False, "observed event is not the interval of the user's bin type: %s" % _k(iv)[:120]
            ge = o.as_atom("getitem") if isinstance(o, Rat) else None
            g = _scores_elem(ge, 0) if ge is not None else None
            if g is None or (pgs and g.id not in pgs):
                ok, why = False, "the observation is not element 0 of the same get_scores request as the probability"
        for g, pa in pgs.values():
            parts = _get_scores_parts(g)
            fk, inp = parts[0], parts[1]
            if len(fk) != 2 or not fk[0].startswith("call:verif.field.Obs()") or not fk[1].startswith("call:verif.field.Threshold("):
                ok, why = False, "fields requested: %s" % fk
            elif f_idx is not None and _k(inp) != _k(f_idx):
                ok, why = False, "scores of input %s in the series of input %s" % (_k(inp), _k(f_idx))
            else:
                ta = g.args[0][1].as_atom("call:verif.field.Threshold")
                if ta is None or _k(ta.args[0]) != _k(pa.args[2]):
                    ok, why = False, "probability requested for threshold %s, flipped at %s" % (_k(ta.args[0]) if ta else "?", _k(pa.args[2]))
        _ob(ctx, c, k, ok, "ROC: forecast 'yes' = flipped probability >= level ('above=' intervals over the levels), observed event = interval of the user's bin type, "
            "both from one get_scores(Obs, Threshold(t)) request of the series' own input", "ROC event wiring: %s" % why)


# ---------------------------------------------------------------------------------------------------------------- Error decomposition
def error(ctx):
    c, calls = _fold(ctx, "Error")
    if calls is None:
        return
    ser = [k for k in calls if _is_series(k)]
    ctx.need(ser, "Error: series call not found")
    ref_x = _expr("sqrt(mean((O - F)**2) - mean(O - F)**2)", "OF")
    ref_y = _expr("mean(O - F)", "OF")
    for k in ser:
        f_idx = _series_input_index(k)
        seen_all = {}
        for arg, ref, nm in ((k["args"][0], ref_x, "x = unsystematic error sqrt(mse - bias^2)"), (k["args"][1], ref_y, "y = systematic error mean(obs - fcst)")):
            hit = _column_elem(arg)
            if hit is None:
                # one array per input, stored at the slice index
                idx1 = None
                for a_ in q.atoms(arg, "setitem") + ([arg.as_atom("setitem")] if arg.as_atom("setitem") is not None else []):
                    if arrays.elem_at(arg, a_.args[1]) is not None:
                        idx1 = a_.args[1]
                v1 = arrays.final_elem(arg, idx1) if idx1 is not None else None
                if v1 is None:
                    raise symeval.Undecided("Error: the drawn series is neither column f of a matrix stored at (i, f) nor an array stored at the slice index")
                hit = (v1, idx1, f_idx)
            v, i_idx, col = hit
            ok = f_idx is None or col is None or _k(col) == _k(f_idx)
            _ob(ctx, c, k, ok, "error decomposition: the series of input f is column f", "error decomposition: column %s drawn with the label of input %s" % (_k(col), _k(f_idx)))
            v2, seen = arrays.abstract(v, [("O", lambda a: _scores_elem(a, 0) is not None), ("F", lambda a: _scores_elem(a, 1) is not None)])
            for n_, ats in seen.items():
                seen_all.setdefault(n_, []).extend(ats)
            cond, core = _strip_nan_guard(v2)
            ok = core.equals(ref)
            _ob(ctx, c, k, ok, "error decomposition: %s" % nm, "error decomposition: %s is %s" % (nm.split(" ")[0], str(core)[:300]))
        _same_scores(ctx, c, k, seen_all, ["call:verif.field.Obs()", "call:verif.field.Fcst()"], f_idx, {"O": 0, "F": 1})


# ---------------------------------------------------------------------------------------------------------------- Performance / DRoc
def _metric_point(ctx, c, k, arg, want_metric, transform, what, f_idx, n_intervals):
    """arg is a store chain whose element is transform(<want_metric>().compute_from_obs_fcst(obs, fcst, interval...))"""
    own = []

    def walk(a):
        # the array's own store chain: bases and stored values, both branches of a conditional, the array a selection or a
        # probit transform is applied to - not the conditions and not the indices
        if not isinstance(a, Rat):
            return
        for fn_, sub in (("setitem", (0, 2)), ("ifexp", (1, 2)), ("getitem", (0,)), ("call:scipy.stats.norm.ppf", (0,))):
            at = a.as_atom(fn_)
            if at is not None:
                if fn_ == "setitem":
                    own.append(at)
                for j in sub:
                    if j < len(at.args):
                        walk(at.args[j])
                return
    walk(arg)
    cands = [a for a in own if isinstance(a.args[2], Rat) and "m:compute_from_obs_fcst" in a.args[2].key()
             and not any(x.func == "setitem" for x in q.atoms(a.args[2]))]
    if not cands:
        raise symeval.Undecided("%s: no stored compute_from_obs_fcst value in the drawn array" % c.name)
    v = arrays.read_back(cands[0].args[2])
    v2, seen = arrays.abstract(v, [("M", lambda a: a.func == "m:compute_from_obs_fcst")])
    ref = _expr(transform, ["M"])
    cond, core = _strip_nan_guard(v2)
    okv = core.equals(ref)
    ms = seen.get("M", [])
    ok, why = okv and len(ms) == 1, "" if okv else "the drawn value is %s" % str(core)[:160]
    g = None
    if len(ms) == 1:
        m_ = ms[0]
        inst = _k(m_.args[0])
        if not inst.startswith("call:verif.metric.%s(" % want_metric):
            ok, why = False, "the metric is %s, expected %s" % (inst, want_metric)
        args = list(m_.args[1:])
        if len(args) != 2 + n_intervals:
            ok, why = False, "%d arguments after the metric, expected obs, fcst and %d interval(s)" % (len(args), n_intervals)
        else:
            o_, f_ = args[0], args[1]
            go = _scores_elem(o_.as_atom("getitem"), 0) if isinstance(o_, Rat) and o_.as_atom("getitem") is not None else None
            gf = _scores_elem(f_.as_atom("getitem"), 1) if isinstance(f_, Rat) and f_.as_atom("getitem") is not None else None
            if go is None or gf is None or go.id != gf.id:
                ok, why = False, "obs / fcst arguments are not elements 0 / 1 of one get_scores request: (%s, %s)" % (_k(o_)[:80], _k(f_)[:80])
            else:
                g = go
                parts = _get_scores_parts(g)
                fk, inp = parts[0], parts[1]
                if len(fk) != 2 or not fk[0].startswith("call:verif.field.Obs()") or not fk[1].startswith("call:verif.field.Fcst()"):
                    ok, why = False, "fields requested: %s" % fk
                elif f_idx is not None and _k(inp) != _k(f_idx):
                    ok, why = False, "scores of input %s in the series of input %s" % (_k(inp), _k(f_idx))
            iv = args[2] if len(args) > 2 else None
            ia = iv.as_atom("getitem") if isinstance(iv, Rat) else None
            gi = ia.args[0].as_atom("call:verif.util.get_intervals") if ia is not None and isinstance(ia.args[0], Rat) else None
            if ok and (gi is None or _k(gi.args[0]) != "$self.bin_type" or "self.thresholds" not in _k(gi.args[1])):
                ok, why = False, "the observed event is not the interval of the user's bin type at the -r threshold: %s" % (_k(iv)[:120] if iv is not None else None)
    _ob(ctx, c, k, ok, what, "%s: %s" % (c.name, why))
    return g


def performance(ctx):
    c, calls = _fold(ctx, "Performance")
    if calls is None:
        return
    ser = [k for k in calls if k["kind"] == "plot" and len(k["args"]) >= 2 and isinstance(k["args"][0], Rat) and "m:compute_from_obs_fcst" in k["args"][0].key()]
    ctx.need(len(ser) >= 2, "Performance: the two drawing calls (points, potential) were not found")
    for k in ser:
        lab = k["kwargs"].get("label")
        f_idx = None
        if isinstance(lab, Rat):
            for a in q.atoms(lab, "getitem"):
                if "get_legend" in _k(a.args[0]):
                    f_idx = a.args[1]
        pot = "_get_f_intervals" in k["args"][0].key()
        n = 2 if pot else 1
        g1 = _metric_point(ctx, c, k, k["args"][0], "Far", "1 - M", "performance diagram%s: x = 1 - FAR(obs, fcst, event)" % (" (potential)" if pot else ""), f_idx, n)
        g2 = _metric_point(ctx, c, k, k["args"][1], "Hit", "M", "performance diagram%s: y = POD(obs, fcst, event)" % (" (potential)" if pot else ""), f_idx, n)
        ok = g1 is not None and g2 is not None and g1.id == g2.id
        _ob(ctx, c, k, ok, "performance diagram: x and y of a point come from the same get_scores request", "performance diagram: x and y of a point come from different requests")


def droc(ctx):
    c, calls = _fold(ctx, "DRoc")
    if calls is None:
        return
    ser = [k for k in calls if _is_series(k)]
    ctx.need(ser, "DRoc: series call not found")
    for k in ser:
        f_idx = _series_input_index(k)
        g1 = _metric_point(ctx, c, k, k["args"][0], "Fa", "M", "DROC: x = false alarm rate of (observed event, forecast interval)", f_idx, 2)
        g2 = _metric_point(ctx, c, k, k["args"][1], "Hit", "M", "DROC: y = hit rate of (observed event, forecast interval)", f_idx, 2)
        ok = g1 is not None and g2 is not None and g1.id == g2.id
        _ob(ctx, c, k, ok, "DROC: x and y of a point come from the same get_scores request", "DROC: x and y of a point come from different requests")


# ---------------------------------------------------------------------------------------------------------------- Reliability
def _strip_guards(v):
    """ifexp(c1, ifexp(c2, V, default), default) -> ([c1, c2], V) where default is NaN or 0"""
    conds = []
    while isinstance(v, Rat):
        at = v.as_atom("ifexp")
        if at is None or len(at.args) != 3 or not isinstance(at.args[2], Rat):
            break
        d = at.args[2]
        if d.key() not in ("$nan", "$np.nan") and not d.is_zero():
            break
        conds.append(at.args[0])
        v = at.args[1]
    return conds, v


def _row_elem(arg):
    """arg = A[f] -> (element (f, i) of A after all stores, i, f)"""
    at = arg.as_atom("getitem") if isinstance(arg, Rat) else None
    if at is None or not isinstance(at.args[1], Rat):
        return None
    row = at.args[1]
    idxs = []

    def stores(a):
        if not isinstance(a, Rat):
            return
        s_ = a.as_atom("setitem")
        if s_ is not None:
            idxs.append(s_.args[1])
            stores(s_.args[0])
            return
        e = a.as_atom("ifexp")
        if e is not None:
            stores(e.args[1])
            stores(e.args[2])
    stores(at.args[0])
    for ix in idxs:
        if isinstance(ix, tuple) and len(ix) == 2 and _k(ix[0]) == _k(row):
            v = arrays.elem_at(at.args[0], ix)
            if v is not None:
                return arrays.read_back(v), ix[1], row
    return None


def reliability(ctx):
    c, calls = _fold(ctx, "Reliability")
    if calls is None:
        return
    ser = [k for k in calls if _is_series(k)]
    ctx.need(ser, "Reliability: series call not found")
    ref_x = _expr("mean(P[I])", "PI")
    ref_y = _expr("mean(O[I])", "OI")
    for k in ser:
        f_idx = _series_input_index(k)
        hx, hy = _column_elem(k["args"][0]), _row_elem(k["args"][1])
        if hx is None:
            hx = _row_elem(k["args"][0])
        if hy is None:
            hy = _column_elem(k["args"][1])
        if hx is None or hy is None:
            raise symeval.Undecided("Reliability: the drawn series is not a row / column f of a matrix stored at the bin index")
        sel = {}
        seen_all = {}

        def is_sel(a):
            if a.func == "getitem" and isinstance(a.args[0], Rat) and a.args[0].as_atom("where") is not None and _k(a.args[1]) == "0":
                sel[a.id] = a
                return True
            return False
        res = []
        for (v, i_idx, col), ref, nm in ((hx, ref_x, "x = mean forecast probability of the cases in the bin"), (hy, ref_y, "y = observed frequency of the cases in the bin")):
            ok = f_idx is None or _k(col) == _k(f_idx)
            _ob(ctx, c, k, ok, "reliability diagram: the series of input f is row / column f", "reliability diagram: row / column %s drawn with the label of input %s" % (_k(col), _k(f_idx)))
            v2, seen = arrays.abstract(v, [("I", is_sel), ("O", lambda a: a.func == "call:verif.util.apply_threshold"),
                                           ("P", lambda a: a.func == "call:verif.util.apply_threshold_prob")])
            for n_, ats in seen.items():
                seen_all.setdefault(n_, []).extend(ats)
            conds, core = _strip_guards(v2)
            ok = isinstance(core, Rat) and core.equals(ref)
            _ob(ctx, c, k, ok, "reliability diagram: %s" % nm, "reliability diagram: %s is %s" % (nm.split(" ")[0], str(core)[:200]))
            res.append(i_idx)
        ok = len(sel) == 1 and _k(res[0]) == _k(res[1])
        _ob(ctx, c, k, ok, "reliability diagram: x and y of a point are means over one and the same selection of cases, stored at the same bin index",
            "reliability diagram: x and y of a point use %d different selections / bin indices (%s, %s)" % (len(sel), _k(res[0]), _k(res[1])))
        g = _same_scores(ctx, c, k, {n_: a for n_, a in seen_all.items() if n_ in ("O", "P")}, ["call:verif.field.Obs()", "call:verif.field.Threshold("], f_idx, {"O": 0, "P": 1})
        ok, why = bool(seen_all.get("O")) and bool(seen_all.get("P")), "observed event / probability not found"
        thr = None
        if g is not None:
            ta = g.args[0][1].as_atom("call:verif.field.Threshold") if isinstance(g.args[0][1], Rat) else None
            thr = ta.args[0] if ta is not None and ta.args else None
        for name in ("O", "P"):
            for a in seen_all.get(name, []):
                if len(a.args) < 3 or _k(a.args[1]) != "$self.bin_type" or thr is None or _k(a.args[2]) != _k(thr):
                    ok, why = False, "%s is %s" % (name, str(Rat.of_atom(a))[:200])
        _ob(ctx, c, k, ok, "reliability diagram: observed event and event probability are taken with the user's bin type at the threshold the probability was requested for",
            "reliability diagram: event wiring changed: %s" % why)


# ---------------------------------------------------------------------------------------------------------------- maps
def map_columns(ctx):
    """C16.8: on the map of input f (panel f + 1 of _setup_map) every marker is selected and coloured by column f of the score matrix:
    the validity mask of one input is not the validity mask of another (a score can be undefined for one input only)."""
    from ..core import AnalysisError
    prog = ctx.prog
    c = prog.cls("verif.output.Standard")
    m = prog.module("verif.output")
    site = c.qual + "._map_core"
    try:
        calls, ev = plotargs.draw_calls(prog, c, method="_map_core", merge=True)
    except symeval.Undecided as e:
        raise AnalysisError("C16.8: %s cannot be folded: %s" % (site, e))
    n = 0
    for k in calls:
        if k["kind"] not in ("scatter", "plot"):
            continue
        vals = [a for a in list(k["args"]) + list(k["kwargs"].values()) if isinstance(a, Rat)]
        panel = None
        for v in vals:
            for a in q.atoms(v, pred=lambda a: a.func.endswith("_setup_map") and len(a.args) >= 3):
                panel = a.args[2]
        if panel is None or not isinstance(panel, Rat):
            continue
        f_key = (panel - Rat.const(1)).key()
        cols = set()
        for v in vals:
            for a in q.atoms(v, "getitem"):
                ix = a.args[1]
                if isinstance(ix, tuple) and len(ix) == 2 and isinstance(ix[1], Rat) and "_get_x_y" in _k(a.args[0]):
                    cols.add(ix[1].key())
        if not cols:
            continue
        n += 1
        bad = sorted(x for x in cols if x != f_key)
        ctx.ob("C16.8", site, not bad, "map of input f: markers are selected and coloured by column f of the scores", loc=prog.loc(m, k["node"]),
               msg="on the map of input %s the %s call selects / colours its markers by column %s of the score matrix: a location whose score is "
                   "undefined for one input only is dropped from, or drawn without colour on, another input's map" % (f_key, k["kind"], ", ".join(bad)))
    ctx.need(n >= 4, "C16.8: fewer drawing calls with a score column in Standard._map_core than confirmed (%d)" % n)


def check_diagram_values(ctx):
    from ..core import AnalysisError
    n0 = ctx.rule_counts.get(RULE, 0)
    for fn in (murphy, roc, error, performance, droc, reliability):
        try:
            fn(ctx)
        except symeval.Undecided as e:
            raise AnalysisError("C16.7 %s: outside the analysable fragment: %s" % (fn.__name__, e))
    ctx.floor(RULE, 30)
