"""C13 - command-line options mean what the help text says."""
import ast
import json
import os
import re
from fractions import Fraction

from .. import boolq, form, q, symeval, trace
from ..core import AnalysisError, const, dotted, norm, calls_in, call_name, parent_map
from ..form import Rat
from ..harness import VERIF_DIR

EXPLANATION = (
    "WIRE/ORDER/EXH analysis of driver.run and util.parse_numbers: for every documented flag the branch of the argument loop is "
    "located, the kind of interpretation of its value is classified from the expression's syntax tree (number vector, date vector, "
    "ints, label, name lookup ...) and the variable it sets is followed to its sink (a Data(...) keyword, an attribute of the output "
    "object, or the local dispatch) and compared with the reference table; flags without a value are exactly the documented "
    "boolean ones, all others sit behind the 'Missing value' guard and consume one extra argument; each branch assigns only its own "
    "variables (order independence); unknown flags, ranges without exactly two values, -T <= 0, -q outside [0,1], unknown axis / "
    "aggregator names and invalid files end in a no-return error; parse_numbers rejects foreign characters, empty pieces, more "
    "than three colon pieces and a zero step, includes the end point via a signed epsilon and steps dates with calendar arithmetic; "
    "--config tokens of ALL config files are appended before the single parsing loop; help text, parser and registries agree.")
ASSUMPTIONS = ["numpy.arange / float parsing behave as documented; the arithmetic of parse_numbers on concrete decimal grids is not decided"]
AUDIT = {"functions": ["verif.driver.run", "verif.util.parse_numbers", "verif.axis.get", "verif.aggregator.get", "verif.field.get"]}


def load_options():
    with open(os.path.join(VERIF_DIR, "tables", "options.json")) as f:
        return json.load(f)


def kind_of(m, expr):
    """Classify how an option value is interpreted from the syntax tree of the assigned expression."""
    src = norm(expr)
    if isinstance(expr, ast.Constant) and expr.value is True:
        return "true"
    if isinstance(expr, ast.Constant) and expr.value is False:
        return "false"
    if isinstance(expr, ast.Name) and expr.id == "arg_next":
        return "raw"
    if isinstance(expr, ast.Call):
        rn = call_name(m, expr)
        a0 = norm(expr.args[0]) if expr.args else None
        if rn == "verif.util.parse_numbers" and a0 == "arg_next":
            if len(expr.args) == 1 and not expr.keywords:
                return "numbers"
            flag = expr.args[1] if len(expr.args) > 1 else (expr.keywords[0].value if expr.keywords else None)
            return "dates" if const(flag) is True else "numbers"
        if rn == "verif.util.parse_dates" and a0 == "arg_next":
            return "dates"
        if rn == "verif.util.parse_ints" and a0 == "arg_next":
            return "intlist"
        if rn == "verif.util.parse_label" and a0 == "arg_next":
            return "label"
        if rn == "verif.util.parse_colors" and a0 == "arg_next":
            return "colors"
        if rn == "float" and a0 == "arg_next":
            return "float"
        if rn == "int" and a0 == "arg_next":
            return "int"
        if rn == "numpy.array" and expr.args and isinstance(expr.args[0], ast.Call) and kind_of(m, expr.args[0]) == "numbers":
            return "array"
        if rn in ("verif.axis.get", "verif.aggregator.get", "verif.field.get", "verif.input.get_input") and a0 in ("arg_next", "axisname"):
            return {"verif.axis.get": "axis", "verif.aggregator.get": "aggregator", "verif.field.get": "field", "verif.input.get_input": "input"}[rn]
        if isinstance(expr.func, ast.Attribute) and expr.func.attr == "split" and [const(a) for a in expr.args] == [","]:
            inner = expr.func.value
            if isinstance(inner, ast.Name) and inner.id == "arg_next":
                return "list"
            if isinstance(inner, ast.Call) and kind_of(m, inner) == "label":
                return "labellist"
        if isinstance(expr.func, ast.Attribute) and expr.func.attr == "replace" and norm(expr.func.value) == "arg_next" and [const(a) for a in expr.args] == ["_", " "]:
            return "underscore"
    if isinstance(expr, ast.ListComp) and len(expr.generators) == 1 and isinstance(expr.elt, ast.Call) and dotted(expr.elt.func) == "int" \
            and isinstance(expr.generators[0].iter, ast.Call) and kind_of(m, expr.generators[0].iter) == "numbers":
        return "ints"
    return "?" + src[:40]


def _conv_hook(ev, node, rname, args, kwargs, path):
    # float()/int() are identities for the algebra; here they are the documented interpretation of an option value
    if rname in ("float", "int") and len(args) == 1 and isinstance(args[0], Rat):
        return form.apply("conv:" + rname, [args[0]])
    return None


def option_effects(m, loop, flag):
    """By value: the body of the option loop folded once with `arg` fixed to the literal flag, everything else symbolic.
    -> (changed variables {name: value}, arguments consumed (1 or 2, None if unclear), the symbol standing for the next argument)
    or None when the body cannot be folded.  Independent of how the dispatch is written (elif chain, `arg in TABLE`, helper)."""
    body = [st for st in loop.body if not (isinstance(st, ast.Assign) and any(isinstance(t, ast.Name) and t.id == "arg" for t in st.targets))]
    names = set(n.id for n in ast.walk(loop) if isinstance(n, ast.Name))
    ev = symeval.Evaluator(m, call_hook=_conv_hook)
    ev.merge_ifs = True
    probe = symeval.Evaluator(m)
    env = {n: Rat.sym(n) for n in names if n not in m.aliases and n not in ("int", "float", "len", "arg", "str", "range", "list", "True", "False", "None")
           and probe._module_constant(n, None) is None}
    env["arg"] = form.apply("str:" + repr(flag), [])
    base = dict(env)
    try:
        live = ev.run_stmts(body, env=env)
    except (symeval.Undecided, AnalysisError, RecursionError):
        return None
    if len(live) != 1:
        return None
    changed = {}
    for k, v in live[0].env.items():
        if k in ("arg", "arg_next") or "." in k:
            continue
        if k not in base or not isinstance(v, Rat) or v.key() != base[k].key():
            changed[k] = v
    consumed = None
    iv = changed.pop("i", None)
    if isinstance(iv, Rat):
        d = (iv - Rat.sym("i")).const_value()
        consumed = int(d) if d is not None else None
    nxt = ev.ev(ast.parse("argv[i + 1]", mode="eval").body, symeval.Path(dict(base), []))
    return changed, consumed, nxt


def kind_of_value(v, nxt):
    """How an option value is interpreted, read off the VALUE the option variable receives (nxt = the next command-line word)."""
    if isinstance(v, list):
        return "?list"
    c = v.const_value()
    if c is not None:
        return "true" if c == 1 else ("false" if c == 0 else "?const")
    if v.key() == nxt.key():
        return "raw"
    at = v.as_atom()
    if at is None:
        return "?" + v.key()[:40]
    a0 = at.args[0] if at.args and isinstance(at.args[0], Rat) else None
    on_next = a0 is not None and a0.key() == nxt.key()
    f = at.func
    if f == "call:verif.util.parse_numbers" and on_next:
        extra = [a for a in at.args[1:] if isinstance(a, Rat)] + [kv[1] for kv in (getattr(at, "kwargs", None) or ()) if isinstance(kv[1], Rat)]
        if not extra:
            return "numbers"
        return "dates" if extra[0].const_value() == 1 else "numbers"
    simple = {"call:verif.util.parse_dates": "dates", "call:verif.util.parse_ints": "intlist", "call:verif.util.parse_label": "label",
              "call:verif.util.parse_colors": "colors", "conv:float": "float", "conv:int": "int", "call:verif.axis.get": "axis",
              "call:verif.aggregator.get": "aggregator", "call:verif.field.get": "field", "call:verif.input.get_input": "input"}
    if f in simple and on_next and len(at.args) == 1:
        return simple[f]
    if f in ("nparray", "call:numpy.array") and a0 is not None and kind_of_value(a0, nxt) == "numbers":
        return "array"
    if f == "m:split" and len(at.args) == 2 and isinstance(at.args[1], Rat) and _strval(at.args[1]) == ",":
        if on_next:
            return "list"
        if a0 is not None and kind_of_value(a0, nxt) == "label":
            return "labellist"
    if f == "m:replace" and on_next and len(at.args) == 3 and [_strval(x) for x in at.args[1:]] == ["_", " "]:
        return "underscore"
    if f == "map" and len(at.args) == 2 and isinstance(at.args[1], Rat) and kind_of_value(at.args[1], nxt) == "numbers":
        b = at.args[0].as_atom() if isinstance(at.args[0], Rat) else None
        if b is not None and b.func == "conv:int" and len(b.args) == 1 and isinstance(b.args[0], Rat) and (b.args[0].as_atom() is not None) \
                and b.args[0].as_atom().func.startswith("elem"):
            return "ints"
    return "?" + v.key()[:40]


def _strval(r):
    return symeval._strval(r)


def arg_loop(f, prog=None):
    """[the --config loop, the option loop].  The option loop is the top-level `while` of run() that collects the positional
    arguments (it mentions `ifiles`); the --config loop is the other top-level `while` that mentions '--config' - or, when the
    reading of config files was moved into a helper of verif.driver, the loop inside that helper."""
    whiles = [n for n in f.body if isinstance(n, ast.While)]
    opt = [n for n in whiles if any(isinstance(x, ast.Name) and x.id == "ifiles" for x in ast.walk(n))]
    def mentions_config(n):
        return any(isinstance(x, ast.Constant) and x.value == "--config" for x in ast.walk(n))
    cfg = [n for n in whiles if n not in opt and mentions_config(n)]
    if not cfg and prog is not None:
        dm = prog.module("verif.driver")
        called = set(dotted(c.func) for st in f.body for c in ast.walk(st) if isinstance(c, ast.Call) and dotted(c.func))
        for name, g in dm.functions.items():
            if name in called and g is not f:
                cfg += [n for n in ast.walk(g) if isinstance(n, (ast.While, ast.For)) and mentions_config(n)][:1]
    if len(opt) != 1 or len(cfg) != 1:
        return whiles
    return [cfg[0], opt[0]]


def _top_stmt_index(f, node):
    """Index of the top-level statement of f that contains node, or - for a node inside a helper - that calls the helper."""
    for i, st in enumerate(f.body):
        if any(n is node for n in ast.walk(st)):
            return i
    return None


def branches(m, loop):
    """flag -> (if node, has_value)"""
    out = {}
    top = None
    for st in loop.body:
        if isinstance(st, ast.If) and norm(st.test) == "arg[0] == '-'":
            top = st
    if top is None:
        raise AnalysisError("driver.run: the option branch `if arg[0] == '-'` was not found")
    chain = top.body[-1] if top.body and isinstance(top.body[-1], ast.If) else None
    for st in top.body:
        if isinstance(st, ast.If):
            chain = st

    def walk(node, has_value):
        while isinstance(node, ast.If):
            t = node.test
            if isinstance(t, ast.Compare) and dotted(t.left) == "arg" and len(t.ops) == 1 and isinstance(t.ops[0], ast.Eq):
                flag = const(t.comparators[0])
                out[flag] = (node, has_value)
            nxt = node.orelse
            if len(nxt) == 1 and isinstance(nxt[0], ast.If):
                node = nxt[0]
            else:
                return nxt
        return []
    rest = walk(chain, False)
    # the final else of the no-value chain: value options
    value_chain = None
    guard = None
    for st in rest:
        if isinstance(st, ast.If) and "len(argv) <= i + 1" in norm(st.test):
            guard = st
        if isinstance(st, ast.If) and isinstance(st.test, ast.Compare) and dotted(st.test.left) == "arg":
            value_chain = st
    final = walk(value_chain, True) if value_chain is not None else []
    return out, top, rest, guard, final


def check_options(ctx, which, rule, table):
    prog = ctx.prog
    site = "verif.driver.run"
    m = prog.module("verif.driver")
    f = prog.func(site)
    loops = arg_loop(f, prog)
    ctx.need(len(loops) == 2, "%s: expected the --config loop and the option loop" % site)
    br, top, rest, guard, final = branches(m, loops[1])
    # variable -> sinks
    data_kw = {}
    for call in calls_in(f):
        if call_name(m, call) == "verif.data.Data":
            data_kw = {dotted(k.value): k.arg for k in call.keywords if dotted(k.value)}
    pl_attr = {}
    for n in ast.walk(f):
        if isinstance(n, ast.Assign) and len(n.targets) == 1 and (dotted(n.targets[0]) or "").startswith("pl."):
            for nm in ast.walk(n.value):
                if isinstance(nm, ast.Name):
                    pl_attr.setdefault(nm.id, set()).add(dotted(n.targets[0])[3:])
    # the same assignments written as setattr(pl, "name", var), or as a loop over a literal table of (attribute, variable) rows /
    # dict(attribute=variable, ...) whose body is setattr(pl, attribute, value)
    def literal_rows(it):
        rows = []
        if isinstance(it, (ast.List, ast.Tuple)):
            for el in it.elts:
                if isinstance(el, (ast.Tuple, ast.List)) and len(el.elts) == 2 and isinstance(const(el.elts[0]), str):
                    rows.append((const(el.elts[0]), el.elts[1]))
        elif isinstance(it, ast.Call) and isinstance(it.func, ast.Attribute) and it.func.attr == "items" and not it.args:
            d = it.func.value
            if isinstance(d, ast.Call) and dotted(d.func) == "dict" and not d.args:
                rows = [(k.arg, k.value) for k in d.keywords if k.arg]
            elif isinstance(d, ast.Dict):
                rows = [(const(k), v) for k, v in zip(d.keys, d.values) if isinstance(const(k), str)]
            elif isinstance(d, ast.Name):
                for n2 in ast.walk(f):
                    if isinstance(n2, ast.Assign) and len(n2.targets) == 1 and dotted(n2.targets[0]) == d.id:
                        rows = literal_rows(ast.Call(func=ast.Attribute(value=n2.value, attr="items", ctx=ast.Load()), args=[], keywords=[]))
        elif isinstance(it, ast.Name):
            for n2 in ast.walk(f):
                if isinstance(n2, ast.Assign) and len(n2.targets) == 1 and dotted(n2.targets[0]) == it.id:
                    rows = literal_rows(n2.value)
        return rows
    for n in ast.walk(f):
        if isinstance(n, ast.Call) and dotted(n.func) == "setattr" and len(n.args) == 3 and dotted(n.args[0]) == "pl" and isinstance(const(n.args[1]), str):
            for nm in ast.walk(n.args[2]):
                if isinstance(nm, ast.Name):
                    pl_attr.setdefault(nm.id, set()).add(const(n.args[1]))
        if isinstance(n, ast.For) and isinstance(n.target, ast.Tuple) and len(n.target.elts) == 2 and all(isinstance(e_, ast.Name) for e_ in n.target.elts):
            a_, v_ = n.target.elts[0].id, n.target.elts[1].id
            sets = [c_ for c_ in ast.walk(n) if isinstance(c_, ast.Call) and dotted(c_.func) == "setattr" and len(c_.args) == 3
                    and dotted(c_.args[0]) == "pl" and dotted(c_.args[1]) == a_ and dotted(c_.args[2]) == v_]
            if sets:
                for attr_, val_ in literal_rows(n.iter):
                    for nm in ast.walk(val_):
                        if isinstance(nm, ast.Name):
                            pl_attr.setdefault(nm.id, set()).add(attr_)
    for flag, (kind, sink) in sorted(table.items()):
        # by value first: what the loop body does when arg is this flag (however the dispatch is spelled); the syntactic branch
        # table is the fallback where the body cannot be folded
        eff = option_effects(m, loops[1], flag)
        hit = br.get(flag)
        by_value = eff is not None and bool(eff[0]) and eff[1] in (1, 2)
        ctx.ob(rule, site, by_value or hit is not None, "flag %s is parsed" % flag, msg="documented flag %s has no branch in the argument loop" % flag)
        if not by_value and hit is None:
            continue
        foreign = None
        if by_value:
            changed, consumed, nxt = eff
            has_value = consumed == 2
            loc = prog.loc(m, hit[0] if hit else loops[1])
            kinds = {k: kind_of_value(v, nxt) for k, v in changed.items()}
            allowed = {"$argv", "$i", "$arg_next"} | set("$" + k for k in changed)
            foreign = set()
            for v in changed.values():
                if isinstance(v, Rat):
                    foreign |= set(x for x in re.findall(r"\$[A-Za-z_][A-Za-z_0-9]*", v.key()) if x not in allowed and x not in ("$None", "$True", "$False", "$nan", "$inf"))
        else:
            node, has_value = hit
            loc = prog.loc(m, node)
            assigns = [st for st in node.body if isinstance(st, ast.Assign) and len(st.targets) == 1 and isinstance(st.targets[0], ast.Name)]
            kinds = {st.targets[0].id: kind_of(m, st.value) for st in assigns}
        want_value = kind not in ("true", "false")
        ctx.ob(rule, site, has_value == want_value, "%s %s a value" % (flag, "takes" if want_value else "takes no"), loc=loc,
               msg="%s is parsed %s a value but documented %s one" % (flag, "with" if has_value else "without", "with" if want_value else "without"))
        kind_sink, name = sink.split(":")
        # which assigned variable reaches the documented sink?
        var = None
        for v in kinds:
            if kind_sink == "data" and data_kw.get(v) == name:
                var = v
            elif kind_sink == "pl" and name in pl_attr.get(v, ()):
                var = v
        if kind_sink == "local":
            var = list(kinds)[-1] if kinds else None
        ok_sink = var is not None
        ctx.ob(rule, site, ok_sink, "%s reaches %s" % (flag, sink), loc=loc,
               msg="the value of %s (stored in %s) does not reach %s: reaches %s" % (
                   flag, sorted(kinds), sink, {v: (data_kw.get(v) or sorted(pl_attr.get(v, ()))) for v in kinds}),
               sample={"rule": rule, "flag": flag, "variable": var, "kind": kinds.get(var), "sink": sink})
        if var is not None:
            got = kinds[var]
            accept = {kind}
            if kind == "raw" and flag == "-leg":
                accept = {"label"}
            ctx.ob(rule, site, got in accept, "%s is interpreted as %s" % (flag, kind), loc=loc,
                   msg="%s is interpreted as %s, documented as %s" % (flag, got, kind), expected=kind, found=got)
        # a branch only touches its own variables (order independence)
        if foreign is None:
            reads = set()
            for st in node.body:
                for nm in ast.walk(st):
                    if isinstance(nm, ast.Name) and isinstance(nm.ctx, ast.Load):
                        reads.add(nm.id)
            foreign = reads - set(kinds) - {"arg_next", "arg", "argv", "i", "verif", "np", "int", "float", "tod"}
        ctx.ob(rule, site, not foreign, "%s does not depend on other options" % flag, loc=loc, msg="the branch of %s reads %s" % (flag, sorted(foreign)), nontrivial=False)
    return br, top, rest, guard, final, loops


def has_guard(m, root, test_src):
    """An `if <test>:` whose body calls the no-return verif.util.error."""
    for n in ast.walk(root):
        if isinstance(n, ast.If) and norm(n.test) == test_src:
            for s_ in n.body:
                if isinstance(s_, ast.Expr) and isinstance(s_.value, ast.Call) and (call_name(m, s_.value) or "").endswith("util.error") or \
                        isinstance(s_, ast.Expr) and isinstance(s_.value, ast.Call) and dotted(s_.value.func) == "error":
                    return n
    return None


def _range_rejections(m, f, option_loop, names):
    """Which of the range variables are rejected (error exit) when they are given with a number of values other than two - however
    the test is written (four ifs, a loop over a table of (flag, value) pairs, a helper).  The statements after the option loop are
    folded with the range variables symbolic, everything else they read unknown; a variable counts as rejected when some error exit
    is taken under `var is not None and len(var) != 2` with all other ranges absent.  None when that part cannot be folded."""
    tail = []
    for st in f.body[f.body.index(option_loop) + 1:]:
        # up to the first statement that constructs the dataset: the checks precede it
        if any(isinstance(n, ast.Call) and (dotted(n.func) or "").endswith("Data") for n in ast.walk(st)):
            break
        tail.append(st)
    keep = []
    tainted = set(names)
    for st in tail:
        used = set(n.id for n in ast.walk(st) if isinstance(n, ast.Name) and isinstance(n.ctx, ast.Load))
        if used & tainted:
            keep.append(st)
            tainted |= set(n.id for n in ast.walk(st) if isinstance(n, ast.Name) and isinstance(n.ctx, ast.Store))
    if not keep:
        return None
    ev = symeval.Evaluator(m)
    ev.merge_ifs = False
    ev.loop_mode = "unroll2"
    try:
        ev.run_stmts(keep, env={n_: Rat.sym(n_) for n_ in names})
    except (symeval.Undecided, AnalysisError, RecursionError):
        return None
    errs = [o for o in ev.outcomes if o.kind == "error"]
    out = set()
    probe = symeval.Evaluator(m)
    for var in names:
        src = "%s is not None and len(%s) != 2" % (var, var) + "".join(" and %s is None" % o_ for o_ in names if o_ != var)
        try:
            a_ = probe.ev(ast.parse(src, mode="eval").body, symeval.Path({n_: Rat.sym(n_) for n_ in names}, []))
            mine = [boolq.conj(o.conds) for o in errs if any(("$" + var) in c.key() for c, _p in o.conds if isinstance(c, Rat))]
            if mine and isinstance(a_, Rat) and boolq.implies(boolq.prop(a_), boolq.disj(mine), limit=18):
                out.add(var)
        except (boolq.TooBig, symeval.Undecided, AnalysisError):
            pass
    return out


def check_arity_and_rejections(ctx, br, top, rest, guard, final, loops):
    prog = ctx.prog
    site = "verif.driver.run"
    m = prog.module("verif.driver")
    f = prog.func(site)
    ok = guard is not None and any(isinstance(s, ast.Expr) and isinstance(s.value, ast.Call) and call_name(m, s.value) == "verif.util.error" for s in guard.body)
    ctx.ob("C13.2", site, ok, "a flag without its value is rejected ('Missing value')", loc=prog.loc(m, guard or f), msg="the 'Missing value after <flag>' guard is gone")
    ok = any(isinstance(s, ast.Expr) and isinstance(s.value, ast.Call) and call_name(m, s.value) == "verif.util.error" for s in final)
    ctx.ob("C13.2", site, ok, "an unknown flag is rejected", loc=prog.loc(m, f), msg="the final else of the option chain no longer reports 'Flag not recognized'")
    extra = [s for s in rest if isinstance(s, ast.Assign) and norm(s) == "i = i + 1"]
    ctx.ob("C13.2", site, len(extra) == 1, "value options consume one extra argument", loc=prog.loc(m, f), msg="the extra `i = i + 1` of value options is missing or duplicated")
    incr = [s for s in loops[1].body if isinstance(s, ast.Assign) and norm(s) == "i = i + 1"]
    ctx.ob("C13.2", site, len(incr) == 1, "every argument advances the index once", msg="the loop increment changed")
    ok = any(isinstance(n, ast.Call) and norm(n) == "ifiles.append(argv[i])" for n in ast.walk(loops[1]))
    ctx.ob("C13.2", site, ok, "arguments that are not flags are input files", msg="positional arguments are no longer collected as files")
    # rejections after the loop
    ev = symeval.Evaluator(m)
    src = norm(f)
    rejected = _range_rejections(m, f, loops[1], ("lat_range", "lon_range", "elev_range", "obs_range"))
    for var, flag in (("lat_range", "-latrange"), ("lon_range", "-lonrange"), ("elev_range", "-elevrange"), ("obs_range", "-obsrange")):
        g_ = has_guard(m, f, "%s is not None and len(%s) != 2" % (var, var))
        ok = g_ is not None or (rejected is not None and var in rejected)
        ctx.ob("C13.3", site, ok, "%s without exactly two values is rejected" % flag, msg="the len(%s) != 2 rejection is gone or changed" % var)
    ctx.ob("C13.3", site, has_guard(m, f, "dim_agg_length is not None and dim_agg_length <= 0") is not None, "-T <= 0 is rejected", msg="the -T > 0 validation is gone or changed")
    qb = br.get("-q")
    ok = qb is not None and has_guard(m, qb[0], "np.min(quantiles) < 0 or np.max(quantiles) > 1") is not None
    ctx.ob("C13.3", site, ok, "quantiles outside [0, 1] are rejected", msg="the -q range validation is gone or changed")
    # error(): prints and exits non-zero
    um = prog.module("verif.util")
    ef = prog.func("verif.util.error")
    exits = [k for k in calls_in(ef) if call_name(um, k) == "sys.exit"]
    ok = len(exits) == 1 and exits[0].args and isinstance(const(exits[0].args[0]), int) and const(exits[0].args[0]) != 0 and any(call_name(um, k) == "print" for k in calls_in(ef))
    ctx.ob("C13.3", "verif.util.error", ok, "error() prints the message and exits with a non-zero status", loc=prog.loc(um, ef), msg="verif.util.error no longer prints and exits non-zero")
    # lookups
    for modname, fn in (("verif.axis", "get"), ("verif.aggregator", "get")):
        mm = prog.module(modname)
        g = prog.func(modname + "." + fn)
        outs = symeval.Evaluator(mm)
        outs.loop_mode = "body_once"
        res = outs.run(g)
        ok = any(o.kind == "error" for o in res)
        ctx.ob("C13.3", modname + "." + fn, ok, "an unknown %s name is rejected" % modname.split(".")[1], loc=prog.loc(mm, g), msg="%s.%s no longer errors on unknown names" % (modname, fn))
    im = prog.module("verif.input")
    gi = prog.func("verif.input.get_input")
    res = symeval.Evaluator(im).run(gi)
    ctx.ob("C13.3", "verif.input.get_input", sum(1 for o in res if o.kind == "error") >= 2, "unreadable / invalid input files are rejected", loc=prog.loc(im, gi), msg="get_input lost an error exit")
    # --config
    cfg = loops[0]
    augs = [n for n in ast.walk(cfg) if isinstance(n, ast.AugAssign) and dotted(n.target) == "extra" and isinstance(n.op, ast.Add)] + \
           [n for n in ast.walk(cfg) if isinstance(n, ast.Call) and norm(n.func) == "extra.extend"]
    plain = [n for n in ast.walk(cfg) if isinstance(n, ast.Assign) and any(dotted(t) == "extra" for t in n.targets)]
    ctx.ob("C13.5", site, bool(augs) and not plain, "tokens of every --config file are accumulated", loc=prog.loc(m, (plain or augs or [cfg])[0]),
           msg="inside the --config loop `extra` is overwritten (%s): only the last config file takes effect" % ([norm(p_) for p_ in plain] or "no accumulation found"))
    helper_calls = set(name for name, g in m.functions.items() if any(n is loops[0] for n in ast.walk(g)) and g is not f)
    def appends_config(n):
        if not (isinstance(n, ast.Assign) and len(n.targets) == 1 and dotted(n.targets[0]) == "argv" and isinstance(n.value, ast.BinOp)
                and isinstance(n.value.op, ast.Add) and dotted(n.value.left) == "argv"):
            return False
        r = n.value.right
        return dotted(r) == "extra" or (isinstance(r, ast.Call) and dotted(r.func) in helper_calls)
    app = [i_ for i_, n in enumerate(f.body) if appends_config(n)]
    ci = _top_stmt_index(f, loops[0])
    if ci is None and app:
        ci = app[0]
    ok = bool(app) and ci is not None and ci <= app[0] < f.body.index(loops[1])
    ctx.ob("C13.5", site, ok, "config tokens are appended to argv before the single parsing loop", msg="argv = argv + extra before the option loop is gone")
    ctx.ob("C13.5", site, "split()" in norm(cfg), "config files are split on whitespace into tokens", msg="config tokenisation changed")
    # by value: what is added to `extra` is the whitespace split of the RAW line of the file (a '#', a quote or a comma inside a value is
    # part of the value, exactly as on the command line)
    inner = [n for n in ast.walk(cfg) if isinstance(n, ast.For)]
    decided = False
    for lp in inner:
        ev2 = symeval.Evaluator(m)
        ev2.loop_mode = "body_once"
        ev2.merge_ifs = True
        ev2.record = True
        try:
            env = {n_.id: Rat.sym(n_.id) for n_ in ast.walk(lp.iter) if isinstance(n_, ast.Name)}
            env["extra"] = Rat.sym("extra")
            ev2.run_stmts([lp], env=env)
        except (symeval.Undecided, AnalysisError):
            continue
        adds = [e for e in ev2.events if e["kind"] == "inplace" and e.get("name") == "extra"] + \
               [e for e in ev2.events if e["kind"] == "call" and (e.get("name") or "").endswith("extra.extend")]
        for e in adds:
            op = e.get("operand") if e["kind"] == "inplace" else (e["args"][0] if e["args"] else None)
            if not isinstance(op, Rat):
                continue
            decided = True
            at = op.as_atom("m:split")
            recv = at.args[0] if at is not None and len(at.args) == 1 and isinstance(at.args[0], Rat) else None
            ra = recv.as_atom() if recv is not None else None
            ok = ra is not None and ra.func.startswith("elem") and len(ra.args) == 1
            ctx.ob("C13.5", site, ok, "config tokens are line.split() of the raw line of the file", loc=prog.loc(m, e["node"]),
                   msg="the tokens read from a --config file are %s, not the whitespace split of the raw line: a value containing the cut / replaced "
                       "characters means something else in a config file than on the command line" % str(op)[:120])
    if not decided and not any(f_.rule == "C13.5" for f_ in ctx.findings):
        # (when the accumulation itself is already reported - `extra` overwritten - there is nothing more to decide here)
        raise AnalysisError("%s: the statement that adds the tokens of a --config file to `extra` was not found" % site)


def check_parse_numbers(ctx):
    prog = ctx.prog
    site = "verif.util.parse_numbers"
    m = prog.module("verif.util")
    f = prog.func(site)
    ev = symeval.Evaluator(m)
    ev.loop_mode = "body_once"
    ev.merge_ifs = False
    ev.max_paths = 4096
    outs = ev.run(f)
    errs = [o for o in outs if o.kind == "error"]
    conds = [" ".join((c.key() + ("+" if p else "-")) for c, p in o.conds[-1:]) for o in errs]
    alltxt = " | ".join(" ".join(c.key() + ("+" if p else "-") for c, p in o.conds) for o in errs)
    ctx.ob("C13.3", site, "call:any(" in alltxt or "any(" in alltxt, "characters outside the number syntax are rejected", loc=prog.loc(m, f), msg="the character whitelist check is gone")
    ctx.ob("C13.3", site, "cmp_eq($w - str:''(),0)+" in alltxt or "str:''()" in alltxt, "an empty piece (e.g. '3,,4' or '3:') is rejected", loc=prog.loc(m, f), msg="the empty-piece check is gone")
    # a zero step is rejected: some error exit is taken under `<step> == 0`, where <step> is the middle piece of a three-piece group
    zero_step = False
    for o in errs:
        for c, pol in o.conds:
            at = c.as_atom("cmp_eq") if isinstance(c, Rat) else None
            if pol and at is not None and isinstance(at.args[0], Rat) and at.args[1].is_zero():
                if any(a.func == "getitem" and isinstance(a.args[1], Rat) and a.args[1].const_value() == 1 and "m:split(" in a.key for a in at.args[0].atoms(deep=True)):
                    zero_step = True
    ctx.ob("C13.3", site, zero_step or has_guard(m, f, "step == 0") is not None, "a zero step is rejected", loc=prog.loc(m, f), msg="the zero-step check is gone")
    # more than three colon pieces: an error outcome whose conditions say len(colonList) is neither 1 nor <= 3
    three = False
    for o in errs:
        # some error exit is taken whenever a group has more than three pieces: its path condition implies  3 < len(pieces)
        lens = set()
        for c, p in o.conds:
            for a in (c.atoms(deep=True) if isinstance(c, Rat) else []):
                if a.func == "len" and isinstance(a.args[0], Rat) and "m:split(" in a.args[0].key() and "str:':'()" in a.args[0].key():
                    lens.add(a.args[0].key())
                    target = form.apply("cmp_lt", [Rat.const(3), Rat.of_atom(a)])
                    try:
                        if boolq.implies(boolq.conj(o.conds), boolq.prop(target)):
                            three = True
                    except boolq.TooBig:
                        pass
    ctx.ob("C13.3", site, three, "more than three colon-separated pieces are rejected", loc=prog.loc(m, f),
           msg="a vector such as 0:6:6:12 is no longer rejected: it is silently read as start:step:end")
    # semantic form of the grammar, from the event trace with the comma loop unrolled twice:
    #   group k = numbers.split(',')[k];  pieces = group.split(':');  single piece -> float(piece);
    #   arange(start=piece[0], end=piece[-1] + sign(step)*eps, step=(piece[1] if 3 pieces else 1)), dates: get_date(min(start,end)..., step)
    # and group 2 is parsed from its own pieces only (no state carried over from group 1).
    tr = trace.trace(prog, site)
    singles = [e for e in trace.calls(tr, "values.append")]
    ar = [e for e in trace.calls(tr, "numpy.arange")]
    gd_calls = [e for e in trace.calls(tr, "verif.util.get_date")]
    ctx.need(len(singles) >= 2 and len(ar) >= 2 and len(gd_calls) >= 2, "%s: append/arange/get_date events of two comma groups not found" % site)
    # termination of the date loop (ranking argument): `date = get_date(date, step)` moves forward only if step >= 1 day; the loop
    # runs `while date <= max(start, end)`, so with a step below one day (0.5 is truncated to 0 days, -1 walks backwards) it never
    # ends or leaves the calendar - such a step has to be rejected on every path that reaches the loop
    for e in gd_calls:
        if len(e["args"]) < 2 or not isinstance(e["args"][1], Rat) or not e.get("loops"):
            continue
        stepv = e["args"][1]
        if stepv.const_value() is not None:
            ok = stepv.const_value() >= 1
        else:
            try:
                ok = boolq.implies(boolq.conj(e["conds"]), ("not", boolq.prop(form.apply("cmp_lt", [stepv, Rat.const(1)]))))
            except boolq.TooBig:
                ok = False
        ctx.ob("C13.3", site, ok, "date ranges: a step below one day is rejected before the stepping loop (the loop terminates)", loc=prog.loc(m, e["node"]),
               msg="the date loop `while date <= max(start, end): date = get_date(date, step)` is entered with any non-zero step: for a step "
                   "below one day (e.g. -d 20120101:0.5:20120103, truncated to 0 days) it never terminates, for a negative step it walks backwards "
                   "until datetime raises - neither an error message nor a result",
               expected="step >= 1 on every path into the loop", found=[(c.key()[:80], p) for c, p in e["conds"] if isinstance(c, Rat)][-4:])

    def pieces_of(e):
        a0 = e["args"][0].as_atom() if isinstance(e["args"][0], Rat) else None
        if a0 is None or a0.func != "getitem" or not isinstance(a0.args[0], Rat) or not isinstance(a0.args[1], Rat) or a0.args[1].const_value() != 0:
            return None
        P = a0.args[0].as_atom()
        if P is None or P.func != "m:split" or len(P.args) != 2 or not isinstance(P.args[0], Rat) or P.args[1].key() != "str:':'()":
            return None
        G = P.args[0].as_atom()
        if G is None or not G.func.startswith("elem#") or not isinstance(G.args[0], Rat):
            return None
        src_ = G.args[0].as_atom()
        if src_ is None or src_.func != "call:numbers.split" or src_.args[0].key() != "str:','()":
            return None
        return Rat.of_atom(P), G
    grammar_ok = True
    groups = {}
    for e in singles[:2]:
        r = pieces_of(e)
        if r is None:
            grammar_ok = False
        else:
            groups[e["iter"][0]] = r
    ctx.ob("C13.6", site, grammar_ok and set(groups) == {1, 2}, "comma separates items, colon separates start[:step]:end; a single piece is the number itself",
           loc=prog.loc(m, singles[0]["node"]), msg="a single number is appended as %s" % str(singles[0]["args"][0])[:120])
    for e in ar[:2]:
        k = e["iter"][0]
        if k not in groups:
            continue
        P, G = groups[k]
        piece = lambda j: form.apply("getitem", [P, Rat.const(j)])
        want_step = form.apply("ifexp", [form.apply("cmp_eq", [form.apply("len", [P]), Rat.const(3)]), piece(1), Rat.const(1)])
        a_start, a_end, a_step = (list(e["args"]) + [None, None, None])[:3]
        ok_start = isinstance(a_start, Rat) and a_start.equals(piece(0))
        ok_step = isinstance(a_step, Rat) and a_step.equals(want_step)
        eps = None
        if isinstance(a_end, Rat) and isinstance(a_step, Rat):
            try:
                eps = ((a_end - piece(-1)) * form.apply("abs", [a_step]) / a_step).const_value()
            except form.Undefined:
                eps = None
        ok_end = eps is not None and 0 < eps <= Fraction(1, 100)
        other = groups[3 - k][1] if (3 - k) in groups else None
        leaks = [str(a)[:80] for a in (a_start, a_end, a_step) if isinstance(a, Rat) and other is not None and any(x is other for x in a.atoms(deep=True))]
        loc_ = prog.loc(m, e["node"])
        ctx.ob("C13.6", site, ok_start and ok_step, "group %d: a:b runs from a with step 1, a:s:b with step s" % k, loc=loc_,
               msg="group %d of a vector: arange(start=%s, step=%s); expected start = first piece, step = second piece if three pieces else 1"
                   % (k, str(a_start)[:80], str(a_step)[:160]))
        ctx.ob("C13.6", site, ok_end, "group %d: the end point of a:b / a:s:b is included (small epsilon with the sign of the step)" % k, loc=loc_,
               msg="group %d: arange stops at %s (epsilon %s): the end point is not included / too much is included" % (k, str(a_end)[:120], eps))
        ctx.ob("C13.6", site, not leaks, "group %d is parsed from its own pieces only" % k, loc=loc_,
               msg="group %d of a comma list depends on the pieces of the other group (%s): e.g. a step given in one group is re-used by the next"
                   % (k, leaks[:1]))
    for k in (1, 2):
        evs = [e for e in gd_calls if e["iter"][0] == k]
        if not evs or k not in groups:
            ctx.ob("C13.6", site, False, "date ranges step with calendar arithmetic (get_date)", msg="no get_date call for group %d" % k)
            continue
        P, G = groups[k]
        piece = lambda j: form.apply("getitem", [P, Rat.const(j)])
        want_step = form.apply("ifexp", [form.apply("cmp_eq", [form.apply("len", [P]), Rat.const(3)]), piece(1), Rat.const(1)])
        e = evs[0]
        try:
            dated = boolq.implies(boolq.conj(e["conds"]), boolq.prop(Rat.sym("is_date")))
        except boolq.TooBig:
            dated = any(c.key() == "$is_date" and pol for c, pol in e["conds"] if isinstance(c, Rat))
        ok = len(e["args"]) == 2 and isinstance(e["args"][1], Rat) and e["args"][1].equals(want_step) and dated
        first = e["args"][0].as_atom() if isinstance(e["args"][0], Rat) else None
        ok_first = first is not None and first.func == "pymin" and isinstance(first.args[0], Rat) and first.args[0].equals(piece(0))
        ctx.ob("C13.6", site, ok and ok_first, "group %d: date ranges start at the first date and step by calendar days (get_date(date, step))" % k,
               loc=prog.loc(m, e["node"]), msg="group %d: dates advance by get_date(%s, %s)" % (k, str(e["args"][0])[:60], str(e["args"][1])[:120] if len(e["args"]) > 1 else "?"))
    gd = prog.func("verif.util.get_date")
    ok = "datetime.timedelta(diff)" in norm(gd) and "strftime('%Y%m%d')" in norm(gd)
    ctx.ob("C13.6", "verif.util.get_date", ok, "get_date adds whole days on the calendar", loc=prog.loc(m, gd), msg="get_date changed")


def check_field_lookup(ctx):
    """-obs / -fcst / -m <field>: a name that is not a built-in field is the name of a column of the input files, looked up as given."""
    prog = ctx.prog
    site = "verif.field.get"
    m = prog.module("verif.field")
    f = prog.func(site)
    ev = symeval.Evaluator(m)
    ev.loop_mode = "body_once"
    ev.merge_ifs = True
    try:
        outs = [o for o in ev.run(f) if o.kind == "return"]
    except symeval.Undecided as e:
        raise AnalysisError("%s: %s" % (site, e))
    others = []
    for o in outs:
        if isinstance(o.value, Rat):
            others.extend(a for a in o.value.atoms(deep=True) if a.func == "call:verif.field.Other")
    ctx.need(others, "%s: the fall-through to Other(name) was not found" % site)
    for a in others:
        ok = len(a.args) == 1 and isinstance(a.args[0], Rat) and a.args[0].key() == "$name"
        ctx.ob("C13.1", site, ok, "an unknown field name becomes Other(<the name as given>)", loc=prog.loc(m, f),
               msg="verif.field.get builds Other(%s): the column name given with -obs/-fcst is altered before it is looked up in the files" % (str(a.args[0])[:60] if a.args else ""))


def check_help(ctx, br):
    prog = ctx.prog
    site = "verif.driver.show_description"
    m = prog.module("verif.driver")
    f = prog.func(site)
    documented = {}
    for call in calls_in(f):
        if dotted(call.func) == "format_argument" and call.args and isinstance(const(call.args[0]), str):
            head = const(call.args[0]).split()[0]
            if head.startswith("-"):
                documented[head] = const(call.args[1]) if len(call.args) > 1 else None
    ctx.need(len(documented) >= 70, "%s: fewer than 70 documented flags" % site)
    for flag in sorted(documented):
        parsed = flag in br
        if not parsed:
            # by value: the option loop does something (and does not stop with 'Flag not recognized') when the argument is this flag
            dm_ = ctx.prog.module("verif.driver")
            lp_ = arg_loop(ctx.prog.func("verif.driver.run"), ctx.prog)
            eff_ = option_effects(dm_, lp_[-1], flag) if lp_ else None
            parsed = eff_ is not None and bool(eff_[0]) and eff_[1] in (1, 2)
        ctx.ob("C13.4", site, parsed, "documented flag %s is parsed" % flag, msg="the help documents %s but the parser has no branch for it" % flag)
    undocumented = sorted(set(br) - set(documented))
    ctx.note("parsed but undocumented flags: %s" % undocumented)
    # -x names resolve to axis classes
    axm = prog.module("verif.axis")
    axes = {c.name.lower() for c in axm.classes.values() if prog.is_subclass(c, "verif.axis.Axis")}
    xdoc = documented.get("-x") or ""
    names = re.findall(r"[a-z]+", xdoc.split(":")[1].split(".")[0]) if ":" in xdoc else []
    names = [n for n in names if n not in ("or",)]
    ctx.need(len(names) >= 16, "%s: the -x dimension list was not found in the help" % site)
    for n in names:
        ctx.ob("C13.4", site, n in axes, "-x %s names an axis class" % n, msg="the help lists -x %s but verif.axis has no such class" % n)
    # -agg names
    agm = prog.module("verif.aggregator")
    aggs = {c.name.lower() for c in agm.classes.values() if prog.is_subclass(c, "verif.aggregator.Aggregator") and c.name != "Aggregator"}
    ctx.ob("C13.4", "verif.driver.get_aggregation_string", "verif.aggregator.get_all()" in norm(prog.func("verif.driver.get_aggregation_string")),
           "-agg help lists the registered aggregators", msg="the -agg help no longer enumerates verif.aggregator.get_all()")
    ctx.ob("C13.4", "verif.aggregator", {"mean", "median", "min", "max", "std", "variance", "iqr", "range", "count", "sum", "meanabs", "absmean", "change", "abschange", "quantile"} <= aggs,
           "the documented aggregators exist", msg="aggregator classes: %s" % sorted(aggs))
    # dispatch of -m onto Output classes
    run = prog.func("verif.driver.run")
    om = prog.module("verif.output")
    valid_outputs = {c.name.lower(): c for c in om.classes.values() if prog.is_subclass(c, "verif.output.Output") and prog.attr_const(c, "description") is not None}
    dispatched = {}
    for n in ast.walk(run):
        if isinstance(n, ast.If) and isinstance(n.test, ast.Compare) and dotted(n.test.left) == "metric" and isinstance(n.test.ops[0], ast.Eq):
            lit = const(n.test.comparators[0])
            cls = None
            for st in n.body:
                if isinstance(st, ast.Assign) and dotted(st.targets[0]) == "pl" and isinstance(st.value, ast.Call):
                    cls = (dotted(st.value.func) or "").split(".")[-1]
            dispatched[lit] = cls
    for lit, cls in sorted(dispatched.items()):
        c = om.classes.get(cls or "")
        ctx.ob("C13.4", "verif.driver.run", c is not None, "-m %s constructs an existing Output class (%s)" % (lit, cls), msg="-m %s constructs %s which does not exist" % (lit, cls))
    for name, c in sorted(valid_outputs.items()):
        ok = name in dispatched or any((v or "").lower() == name for v in dispatched.values()) or name in ("autocorr", "autocov")
        ctx.ob("C13.4", "verif.driver.run", ok, "documented diagram %s is reachable from -m" % name, msg="diagram class %s is documented (has a description) but -m %s is not dispatched" % (c.name, name))
    # -type literals
    tdoc = documented.get("-type") or ""
    types = set(re.findall(r"'([a-z]+)'", tdoc))
    src = norm(run)
    listed = None
    for n in ast.walk(run):
        if isinstance(n, ast.Compare) and dotted(n.left) == "plot_type" and isinstance(n.ops[0], ast.In):
            listed = set(const(n.comparators[0]) or [])
    ctx.ob("C13.4", "verif.driver.run", listed is not None and listed == types, "-type values in the help = values accepted", msg="help lists %s, parser accepts %s" % (sorted(types), sorted(listed or [])))
    disp = _type_dispatch(prog, run, sorted(types))
    for t in sorted(types):
        want_call, want_rank = TYPE_DISPATCH.get(t, (None, None))
        if disp is None or want_call is None:
            if t != "plot":
                ctx.ob("C13.4", "verif.driver.run", ("plot_type == '%s'" % t) in src, "-type %s is dispatched" % t, msg="-type %s is accepted but not dispatched" % t)
            continue
        calls_, rank = disp[t]
        ok = calls_ == [want_call] and rank == want_rank
        ctx.ob("C13.4", "verif.driver.run", ok, "-type %s calls pl.%s%s and nothing else" % (t, want_call, " with show_rank set" if want_rank else ""),
               msg="-type %s ends in the calls %s (show_rank %s) instead of pl.%s (show_rank %s)" % (t, calls_, "set" if rank else "not set", want_call, "set" if want_rank else "not set"),
               expected=[want_call, want_rank], found=[calls_, rank])
    return documented


# what the help of -type promises: 'rank' and 'maprank' are the plot / map of the ranks of the scores
TYPE_DISPATCH = {"plot": ("plot", False), "text": ("text", False), "csv": ("csv", False), "map": ("map", False), "maprank": ("map", True),
                 "rank": ("plot_rank", True), "impact": ("plot_impact", False), "mapimpact": ("plot_mapimpact", False)}
_ENTRY_POINTS = ("plot", "text", "csv", "map", "plot_rank", "plot_impact", "plot_mapimpact")


def _type_dispatch(prog, run, types):
    """By value: the top-level statements of driver.run after the output object exists that read plot_type (and what they define) are
    folded once per accepted -type literal with everything else symbolic; returns {type: ([entry points of pl called], show_rank set)}
    - however the dispatch is spelled (elif chain, membership tests, a table).  None when that slice cannot be folded."""
    m = prog.module("verif.driver")
    last_pl = -1
    for i, st in enumerate(run.body):
        if any(isinstance(n, ast.Name) and n.id == "pl" and isinstance(n.ctx, ast.Store) for n in ast.walk(st)):
            last_pl = i
    if last_pl < 0:
        return None
    keep = []
    tainted = {"plot_type"}
    for st in run.body[last_pl + 1:]:
        used = set(n.id for n in ast.walk(st) if isinstance(n, ast.Name) and isinstance(n.ctx, ast.Load))
        if "plot_type" in used:
            keep.append(st)
    if not keep:
        return None
    out = {}
    for t in types:
        ev = symeval.Evaluator(m)
        ev.merge_ifs = True
        ev.loop_mode = "unroll2"
        ev.record = True
        try:
            ev.run_stmts(keep, env={"plot_type": form.apply("str:" + repr(t), [])})
        except (symeval.Undecided, AnalysisError, RecursionError):
            return None
        calls_ = [e["name"][3:] for e in ev.events
                  if e["kind"] == "call" and e["name"].startswith("pl.") and e["name"][3:] in _ENTRY_POINTS]
        rank = False
        for e in ev.events:
            if e["kind"] in ("assign", "store") and (e.get("name") == "pl.show_rank" or (e.get("root") == "pl" and "show_rank" in str(e.get("index", "")) + str(e.get("attr", "")))):
                v = e.get("value")
                rank = isinstance(v, Rat) and v.key() in ("1", "$True")
        out[t] = (calls_, rank)
    return out


def run(ctx):
    ctx.rule("C13.1", "selection/computation options: kind of interpretation and sink as documented; branches independent")
    ctx.rule("C13.2", "arity: boolean flags take no value, others are guarded and consume one argument; unknown flags rejected")
    ctx.rule("C13.3", "documented rejections exist and end in a no-return error with non-zero status")
    ctx.rule("C13.4", "help text, parser, registries and dispatch agree")
    ctx.rule("C13.5", "--config tokens of all files are appended before the single parsing loop")
    ctx.rule("C13.6", "vector syntax: end point included, dates step by calendar days")
    opts = load_options()
    br, top, rest, guard, final, loops = check_options(ctx, "selection", "C13.1", opts["selection"])
    check_arity_and_rejections(ctx, br, top, rest, guard, final, loops)
    check_parse_numbers(ctx)
    check_field_lookup(ctx)
    documented = check_help(ctx, br)
    # every documented flag has a reference row
    rows = set(opts["selection"]) | set(opts["appearance"]) | {"--config"}
    missing = sorted(set(documented) - rows)
    ctx.ob("C13.4", "tables/options.json", not missing, "every documented flag has a reference row", msg="documented flags without a reference row (table out of date): %s" % missing)
    ctx.floor("C13.1", 100)
    ctx.floor("C13.3", 14)
    ctx.floor("C13.4", 120)


CLAIM = {
    "level": "Static WIRE/ORDER/EXH analysis of the command-line front end: for each of the 38 selection/computation flags the interpretation of the "
             "value and the sink it reaches are compared with a reference table; arity, guards, rejections, --config handling, the structure of the "
             "vector parser and the agreement of help text, parser, registries and dispatch are decided structurally. The arithmetic of option VALUES "
             "(e.g. parse_numbers on decimal grids) is not decided.",
    "note": "Trusted: CPython ast, the reference table /verif/tables/options.json (semantic sinks, not source fragments). Several vector-parser "
            "obligations are syntactic patterns over util.parse_numbers as it is written today.",
    "technique": "static analysis: option handling by value (the body of the option loop folded once per documented flag with `arg` fixed: variables changed, value kind, arguments consumed; "
                 "syntactic branch table as fallback); -type dispatch folded per literal; C13.3 error exits implied by `len(range) != 2` (boolq implication) and termination of the date stepping "
                 "loop by a ranking argument (path condition into the loop implies step >= 1); C13.5 config tokens by value; def-use to sinks (constructor keywords / "
                 "output attributes), guard and no-return-exit enumeration, registry/help/dispatch set comparison",
}
