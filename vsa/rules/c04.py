"""C04 - missing data never enters a score as a number."""
import ast

from .. import form, q, symeval, trace
from ..core import AnalysisError, dotted, norm, calls_in, call_name, parent_map, const
from ..form import Rat

EXPLANATION = (
    "ORDER + abstract interpretation: (1) every raw NetCDF read (self._file.variables[...]) in input.py is an argument of "
    "verif.util.clean, every text cell (row[indices[...]]) an argument of Text._clean (must-pass-through, instance floors 26/17); "
    "(2) util.clean is interpreted over the five encoding classes {masked, NaN, -999, >1e30, ordinary}: the symbolic value it "
    "returns must map the four missing classes to NaN and ordinary values to themselves, whatever statements are used; "
    "(3) Text._clean maps -999 (numerically) and non-numeric tokens to NaN; (4) the per-request validity mask contains isnan and "
    "isinf for every requested field (non-finite climatology quotients); (5) empty slices give NaN; the pair filter precedes every "
    "deterministic formula; Interval.within masks NaN; (6) arrays requested without a slicing axis still contain NaN: a taint "
    "analysis over every function that makes such a request checks that they only reach NaN-aware reductions.")
ASSUMPTIONS = ["numpy.ma.filled / masked arrays / nan* reductions behave as documented",
               "the metamorphic equality 'score == score with the missing cases deleted' is a runtime statement and is not decided"]
AUDIT = {"functions": ["verif.util.clean", "verif.input.Text._clean", "verif.data.Data.get_scores",
                       "verif.metric.ObsFcstBased.compute_from_obs_fcst"]}

CLASSES = ("MASKED", "NAN", "M999", "HUGE", "ORD")


def S(n):
    return Rat.sym(n)


def class_of_const(r):
    if r.key() == "$nan":
        return "NAN"
    c = r.const_value()
    if c is None:
        return None
    if c == -999:
        return "M999"
    if c > 10 ** 30:
        return "HUGE"
    return "ORD"


class Enc(object):
    """Abstract interpretation of an array expression over the encoding classes."""

    def __init__(self, data_key):
        self.data_key = data_key

    def value(self, r, k):
        """Class of the array element that initially was of class k."""
        at = r.as_atom() if isinstance(r, Rat) else None
        if at is None:
            c = class_of_const(r) if isinstance(r, Rat) else None
            return c or "UNKNOWN"
        f = at.func
        if f.startswith("$"):
            return k if k != "MASKED" else "MASKED"
        if f in ("getitem", "astype", "m:astype", "float", "identity", "m:copy", "call:copy.deepcopy") and isinstance(at.args[0], Rat):
            return self.value(at.args[0], k)
        if f == "mafilled":
            inner = self.value(at.args[0], k)
            if inner != "MASKED":
                return inner
            fill = [a for a in at.args if isinstance(a, tuple) and a and a[0] == "kw:fill_value"]
            if len(at.args) >= 2 and isinstance(at.args[1], Rat) and not fill:
                fv = at.args[1]
            elif fill:
                fv = fill[0][1]
            else:
                return "FILLVALUE"      # the variable's own _FillValue: an arbitrary number
            return class_of_const(fv) or "UNKNOWN"
        if f in ("nparray", "asarray", "call:numpy.asarray", "call:numpy.ma.getdata"):
            inner = self.value(at.args[0], k)
            return "RAWFILL" if inner == "MASKED" else inner     # the mask is dropped, the raw number shows
        if f == "setitem":
            base, mask, v = at.args
            cur = self.value(base, k)
            hit = self.mask(mask, base, k)
            if hit is None:
                return "UNKNOWN"
            if hit:
                return class_of_const(v) if isinstance(v, Rat) and class_of_const(v) else "UNKNOWN"
            return cur
        if f == "ifexp":
            a, b = self.value(at.args[1], k), self.value(at.args[2], k)
            return a if a == b else "UNKNOWN"
        return "UNKNOWN"

    def mask(self, mexpr, base, k):
        """Is the boolean mask true for elements whose class (in base) derives from initial class k?"""
        if not isinstance(mexpr, Rat):
            return None
        at = mexpr.as_atom()
        if at is None:
            return None
        f = at.func
        if f == "or":
            vals = [self.mask(a, base, k) for a in at.args]
            if any(v is True for v in vals):
                return True
            return None if any(v is None for v in vals) else False
        if f == "and":
            vals = [self.mask(a, base, k) for a in at.args]
            if any(v is False for v in vals):
                return False
            return None if any(v is None for v in vals) else True
        if f == "isnan":
            c = self.value(at.args[0], k)
            return None if c == "UNKNOWN" else c == "NAN"
        if f == "cmp_eq" and at.args[1].is_zero():
            d = at.args[0]
            # d == +-(X - c)
            for sign in (1, -1):
                dd = d if sign == 1 else -d
                for atom_ in dd.atoms(deep=False):
                    x = Rat.of_atom(atom_)
                    cst = (x - dd).const_value()
                    if cst is not None:
                        c = self.value(x, k)
                        if c == "UNKNOWN":
                            return None
                        want = class_of_const(Rat.const(cst))
                        return c == want if want in ("M999", "HUGE") else (None if c == "ORD" else False)
            return None
        if f in ("cmp_lt", "cmp_le"):
            a, b = at.args
            ca, cb = a.const_value(), b.const_value()
            if ca is not None and cb is None:      # const < X
                c = self.value(b, k)
                if c == "UNKNOWN":
                    return None
                if ca >= 10 ** 30:
                    return c == "HUGE" if ca == 10 ** 30 else (None if c == "HUGE" else False)
                return None
            if cb is not None and ca is None:      # X < const
                c = self.value(a, k)
                if c == "UNKNOWN":
                    return None
                if cb <= -999:
                    return False if c in ("HUGE", "ORD") else None
                return None
        return None


def check_clean(ctx):
    prog = ctx.prog
    site = "verif.util.clean"
    m = prog.module("verif.util")
    f = prog.func(site)
    outs = [o for o in symeval.Evaluator(m).run(f) if o.kind == "return"]
    ctx.need(outs, "%s has no return" % site)
    main = [o for o in outs if not (isinstance(o.value, Rat) and o.value.as_atom() is not None and o.value.as_atom().func == "zeros")]
    ctx.need(main, "%s: the cleaning path was not found" % site)
    for o in main:
        enc = Enc("$data")
        res = {k: enc.value(o.value, k) for k in CLASSES}
        unknown = [k for k in CLASSES if res[k] == "UNKNOWN"]
        if unknown:
            raise AnalysisError("%s: the encoding interpreter cannot follow what happens to %s values (%s)" % (site, "/".join(unknown), str(o.value)[:160]))
        for k in CLASSES:
            want = "ORD" if k == "ORD" else "NAN"
            ctx.ob("C04.2", site, res[k] == want, "encoding class %s ends as %s" % (k, want), loc=prog.loc(m, o.node),
                   msg="clean() turns %s values into %s instead of %s" % (
                       {"MASKED": "masked / _FillValue", "NAN": "NaN", "M999": "-999", "HUGE": "> 1e30", "ORD": "ordinary"}[k],
                       {"FILLVALUE": "the variable's own fill value (an arbitrary number)", "RAWFILL": "the raw number stored under the mask",
                        "UNKNOWN": "something the analysis cannot classify"}.get(res[k], res[k]), want),
                   expected=want, found=res[k], sample={"rule": "C04.2", "class": k, "result": res[k]})
    # a return that does not hand back the cleaned data (the empty-array short cut) is taken only for an EMPTY variable: its path
    # condition implies data.shape[0] == 0 - otherwise whole variables (every 1-D coordinate, say) would be read as empty
    from .. import boolq
    empty = boolq.prop(symeval.eval_expr_string("data.shape[0] == 0"))
    for o in outs:
        if o in main:
            continue
        at = o.value.as_atom() if isinstance(o.value, Rat) else None
        is_empty = at is not None and at.func in ("zeros", "empty", "ones") and at.args and isinstance(at.args[0], Rat) and at.args[0].const_value() == 0
        ctx.ob("C04.2", site, is_empty, "the short cut returns an array without elements", loc=prog.loc(m, o.node),
               msg="for an empty variable clean() returns %s: values that are in no file enter the data" % str(o.value)[:60])
        ok = boolq.implies(boolq.conj(o.conds), empty)
        ctx.ob("C04.2", site, ok, "the short cut that returns an empty array is taken only when the variable has no elements", loc=prog.loc(m, o.node),
               msg="clean() returns %s without reading the variable under a condition that does not imply data.shape[0] == 0: %s"
                   % (str(o.value)[:40], " and ".join(("" if pol else "not ") + str(c_)[:120] for c_, pol in o.conds)))
    ctx.floor("C04.2", 5)
    # control: the interpreter sees a dropped fill_value and a dropped disjunct
    ctrl = "def clean(data):\n    data = data[:].astype(float)\n    q = np.ma.filled(data)\n    q[np.isnan(q)] = -999\n    q[(q == -999)] = np.nan\n    return q\n"
    cm = type(m)("verif.util", "ctrl.py", "import numpy as np\n" + ctrl)
    o = [x for x in symeval.Evaluator(cm).run(cm.functions["clean"]) if x.kind == "return"][0]
    r = {k: Enc("$data").value(o.value, k) for k in CLASSES}
    ctx.control("C04.2", r["MASKED"] == "FILLVALUE" and r["HUGE"] == "HUGE" and r["M999"] == "NAN", "encoding interpreter control: %s" % r)


def _weight(prog, m, top_qual, top_cls, top_f, pm, node):
    """How many reads a syntactic read site stands for: 1 in a function the reference tree has; for a site inside a helper that did not
    exist there (a new method, a nested def) the number of calls of that helper in the module - merged duplicates keep their count."""
    from .. import trace as _trace
    enc = pm.get(node)
    while enc is not None and not isinstance(enc, (ast.FunctionDef, ast.Lambda)):
        enc = pm.get(enc)
    name = None
    if enc is not None and enc is not top_f and isinstance(enc, ast.FunctionDef):
        name = enc.name                                  # nested helper
    elif top_cls is not None:
        known = _trace.known_methods().get(top_cls.qual)
        if known is not None and top_f.name not in known:
            name = top_f.name                            # new method
    if name is None:
        return 1
    calls = sum(1 for n_ in ast.walk(m.tree) if isinstance(n_, ast.Call) and (dotted(n_.func) or "").split(".")[-1] == name)
    return max(1, calls)


def _floor_weighted(ctx, rule, eff, minimum):
    if eff < minimum and not ctx.findings:
        raise AnalysisError("rule %s covers %d reads (helpers weighted by their call sites), fewer than the confirmed floor %d "
                            "(an anchor moved or changed shape)" % (rule, eff, minimum))


def check_reads(ctx):
    prog = ctx.prog
    m = prog.module("verif.input")
    # NetCDF
    eff = 0
    for qual, mod, c, f in prog.all_functions(["verif.input"]):
        pm = parent_map(f)
        for node in ast.walk(f):
            base = node.value if isinstance(node, ast.Subscript) else None
            via_alias = False
            if isinstance(base, ast.Name):
                # variables = self._file.variables ; variables[name]
                via_alias = any(isinstance(a, ast.Assign) and len(a.targets) == 1 and dotted(a.targets[0]) == base.id and dotted(a.value) == "self._file.variables"
                                for a in ast.walk(f))
            if isinstance(node, ast.Subscript) and (dotted(node.value) == "self._file.variables" or via_alias) and isinstance(node.ctx, ast.Load):
                par = pm.get(node)
                ok = isinstance(par, ast.Call) and call_name(m, par) == "verif.util.clean" and par.args and par.args[0] is node
                eff += _weight(prog, m, qual, c, f, pm, node)
                ctx.ob("C04.1", qual, ok, "raw NetCDF read %s passes verif.util.clean" % norm(node), loc=prog.loc(m, node),
                       msg="%s is used without verif.util.clean: fill / -999 / >1e30 values would be scored as numbers" % norm(node))
    _floor_weighted(ctx, "C04.1", eff, 16)          # 26 on the reference tree
    # text cells
    init = prog.own_method("verif.input.Text.__init__")
    pm = parent_map(init)
    eff3 = 0
    tcls = prog.cls("verif.input.Text")
    from .. import trace as _trace
    known_t = _trace.known_methods().get(tcls.qual) or []
    walk_nodes = [(init, pm, n_) for n_ in ast.walk(init)]
    for mname, mf in tcls.methods.items():
        if mname not in known_t and mf is not init:          # helpers of the reader that did not exist on the reference tree
            pm2 = parent_map(mf)
            walk_nodes += [(mf, pm2, n_) for n_ in ast.walk(mf)]
    for holder, pm, node in walk_nodes:
        if isinstance(node, ast.Subscript) and dotted(node.value) == "row" and isinstance(node.ctx, ast.Load):
            par = pm.get(node)
            ok = isinstance(par, ast.Call) and dotted(par.func) == "self._clean" and par.args and par.args[0] is node
            eff3 += _weight(prog, m, "verif.input.Text." + holder.name, tcls, holder, pm, node)
            ctx.ob("C04.3", "verif.input.Text.__init__", ok, "text cell %s passes Text._clean" % norm(node), loc=prog.loc(m, node),
                   msg="%s is used without self._clean" % norm(node))
    _floor_weighted(ctx, "C04.3", eff3, 10)          # 17 on the reference tree; helpers that try several column names merge reads
    # Text._clean
    site = "verif.input.Text._clean"
    f = prog.own_method(site)
    outs = [o for o in symeval.Evaluator(m).run(f) if o.kind == "return"]
    fv = form.apply("float", [S("value")])
    is999 = form.apply("cmp_eq", [fv + Rat.const(999), Rat.const(0)])
    num_nan = any(o.is_nan() and q.has_cond(o.conds, lambda c: c.equals(is999), True) for o in outs) or \
        any(isinstance(o.value, Rat) and o.value.equals(form.apply("ifexp", [is999, S("nan"), fv])) for o in outs)
    ctx.ob("C04.3", site, num_nan, "a token whose numeric value is -999 becomes NaN", loc=prog.loc(m, f),
           msg="_clean does not test the parsed number against -999 (spellings such as -999.0 would be read as data)")
    exc_nan = any(o.is_nan() and q.has_cond(o.conds, lambda c: c.key().startswith("exception("), True) for o in outs)
    ctx.ob("C04.3", site, exc_nan, "a non-numeric token becomes NaN", loc=prog.loc(m, f), msg="the ValueError path of _clean does not return NaN")
    ordinary = any(isinstance(o.value, Rat) and (o.value.equals(fv) or o.value.equals(form.apply("ifexp", [is999, S("nan"), fv]))) for o in outs)
    ctx.ob("C04.3", site, ordinary, "numeric tokens are returned as float(value)", loc=prog.loc(m, f), msg="_clean does not return float(value) for numeric tokens")


SANITIZERS = ("numpy.nan", "verif.util.nan", "verif.util.apply_threshold", "verif.util.numvalid", "numpy.isnan", "numpy.isinf",
              "numpy.ma.", "verif.util.fill", "verif.util.bin")
REDUCERS = {"numpy.mean", "numpy.sum", "numpy.std", "numpy.var", "numpy.median", "numpy.percentile", "numpy.min", "numpy.max",
            "numpy.amin", "numpy.amax", "numpy.corrcoef", "numpy.cov", "numpy.cumsum", "numpy.sort", "numpy.histogram", "min", "max", "sum"}


def check_unsliced(ctx):
    """Whole-array requests keep NaN; they may only reach NaN-aware consumers.

    Taint analysis per function, flow-sensitive by reaching definitions approximated on the statement order: a use sees the
    latest textually preceding definition of the name plus any later definition inside a loop that also encloses the use."""
    prog = ctx.prog
    n_sites = 0
    for qual, m, c, f in prog.all_functions(["verif.output", "verif.driver", "verif.metric"]):
        pm = parent_map(f)

        def loops_of(node):
            out = []
            while node in pm:
                node = pm[node]
                if isinstance(node, (ast.For, ast.While)):
                    out.append(node)
            return tuple(out)
        defs = []        # dicts: name, line, value, loops, tainted
        valid_idx = set()
        for st in ast.walk(f):
            if isinstance(st, ast.Assign):
                src = norm(st.value)
                is_src = isinstance(st.value, ast.Call) and isinstance(st.value.func, ast.Attribute) and st.value.func.attr == "get_scores" \
                    and len(st.value.args) <= 2 and "axis" not in [k.arg for k in st.value.keywords]
                if is_src:
                    n_sites += 1
                for t in st.targets:
                    if not isinstance(t, (ast.Name, ast.Tuple, ast.List)):
                        continue
                    for nm in ast.walk(t):
                        if isinstance(nm, ast.Name):
                            defs.append({"name": nm.id, "line": st.lineno, "value": st.value, "loops": loops_of(st), "tainted": is_src, "src": is_src})
                            if "isnan" in src and ("where" in src or "==" in src or "&" in src):
                                valid_idx.add(nm.id)
            elif isinstance(st, ast.AugAssign) and isinstance(st.target, ast.Name):
                defs.append({"name": st.target.id, "line": st.lineno, "value": st.value, "loops": loops_of(st), "tainted": False, "src": False, "aug": True})
        if not any(d["src"] for d in defs):
            continue

        def reaching(name, node):
            line = getattr(node, "lineno", 0)
            lps = set(loops_of(node))
            cands = [d for d in defs if d["name"] == name]
            before = [d for d in cands if d["line"] <= line]
            out = []
            if before:
                last = max(before, key=lambda d: d["line"])
                out.append(last)
                # a conditional redefinition does not kill earlier ones: keep every earlier def that is not in straight line
                out.extend(d for d in before if d is not last and d.get("aug"))
            out.extend(d for d in cands if d["line"] > line and set(d["loops"]) & lps)
            return out

        def texpr(expr):
            if _sanitised(m, expr, valid_idx):
                return False
            if isinstance(expr, ast.Name):
                return any(d["tainted"] for d in reaching(expr.id, expr))
            if isinstance(expr, ast.Subscript):
                return texpr(expr.value)
            if isinstance(expr, ast.BinOp):
                return texpr(expr.left) or texpr(expr.right)
            if isinstance(expr, ast.UnaryOp):
                return texpr(expr.operand)
            if isinstance(expr, (ast.Tuple, ast.List)):
                return any(texpr(e) for e in expr.elts)
            if isinstance(expr, ast.Call):
                if isinstance(expr.func, ast.Attribute) and expr.func.attr in ("flatten", "astype", "copy"):
                    return texpr(expr.func.value)
                rn = call_name(m, expr) or ""
                if rn in ("abs", "numpy.abs", "numpy.sqrt", "numpy.array"):
                    return any(texpr(a) for a in expr.args)
            return False
        changed = True
        while changed:
            changed = False
            for d in defs:
                if not d["tainted"] and texpr(d["value"]):
                    d["tainted"] = True
                    changed = True
        for call in calls_in(f):
            rn = call_name(m, call)
            method = isinstance(call.func, ast.Attribute) and call.func.attr in ("mean", "sum", "std", "var") and rn not in REDUCERS \
                and not (rn or "").startswith(("numpy.", "verif.", "scipy."))
            if rn in REDUCERS or method:
                args = list(call.args[:2]) + ([call.func.value] if method else [])
                bad = [a for a in args if texpr(a)]
                if bad:
                    ctx.ob("C04.6", qual, False, "%s applied to %s (may contain NaN)" % (rn or norm(call.func), norm(bad[0])), loc=prog.loc(m, call),
                           msg="%s(%s): the operand comes from a whole-array get_scores request and still contains NaN; a NaN-unaware "
                               "reduction turns missing data into a wrong number" % (rn or norm(call.func), norm(bad[0])))
                else:
                    ctx.ob("C04.6", qual, True, "%s is not fed by NaN-carrying data" % norm(call)[:60], nontrivial=False)
    ctx.need(n_sites >= 15, "fewer than 15 whole-array get_scores requests found (%d)" % n_sites)
    ctx.note("C04.6: %d whole-array get_scores requests examined" % n_sites)


def _sanitised(m, expr, valid_idx):
    """Does the expression remove NaN from its operands (index by a validity index / NaN-aware function)?"""
    if isinstance(expr, ast.Call):
        rn = call_name(m, expr) or ""
        if any(rn.startswith(s) for s in SANITIZERS) or rn.endswith(".within") or rn.endswith("compute_from_obs_fcst"):
            return True
        if isinstance(expr.func, ast.Attribute) and expr.func.attr in ("within", "compute_from_obs_fcst", "compute_from_abcd"):
            return True
    if isinstance(expr, ast.Subscript):
        idx_names = set(n.id for n in ast.walk(expr.slice) if isinstance(n, ast.Name))
        if idx_names & valid_idx:
            return True
    if isinstance(expr, ast.Compare):
        return True     # boolean result: the NaN-laundering rule (C16/C20) owns comparisons
    return False


def run(ctx):
    ctx.rule("C04.1", "every raw NetCDF read passes verif.util.clean")
    ctx.rule("C04.2", "clean() maps masked/NaN/-999/>1e30 to NaN and ordinary values to themselves (abstract interpretation over encoding classes)")
    ctx.rule("C04.3", "every text cell passes Text._clean; -999 (numerically) and non-numeric tokens become NaN")
    ctx.rule("C04.4", "the validity mask of a request removes NaN and non-finite values of every requested field")
    ctx.rule("C04.5", "empty slice -> NaN; pair filter before every formula; Interval.within masks NaN")
    ctx.rule("C04.6", "whole-array requests only reach NaN-aware consumers")
    check_reads(ctx)
    check_clean(ctx)
    check_unsliced(ctx)
    # shared clauses, evaluated by the owning property's code on the same tree
    from . import c01, c05, c07
    sub = type(ctx)(ctx.prog, "C01", ctx.tier, True)
    c01.check_get_scores(sub)
    _import(ctx, sub, "C01.2", "C04.4")
    sub = type(ctx)(ctx.prog, "C05", ctx.tier, True)
    c05.check_pair_filter(sub)
    _import(ctx, sub, "C05.6", "C04.5")
    sub = type(ctx)(ctx.prog, "C05", ctx.tier, True)
    c05.check_conditional_axes(sub)          # compute_single scores a slice through the pair filter, not around it
    _import(ctx, sub, "C05.7", "C04.5")
    sub = type(ctx)(ctx.prog, "C07", ctx.tier, True)
    c07.check_within(sub)
    _import(ctx, sub, "C07.6", "C04.5")
    from . import c03
    sub = type(ctx)(ctx.prog, "C03", ctx.tier, True)
    c03.check_obsrange(sub)
    _import(ctx, sub, "C03.5", "C04.5")
    ctx.floor("C04.4", 6)
    ctx.floor("C04.5", 30)


def _import(ctx, sub, src_rule, dst_rule):
    failed = {(f.site, f.construct): f for f in sub.findings if f.rule == src_rule}
    for (rule, site, what, ok, nt) in sub.obligations:
        if rule != src_rule:
            continue
        f = failed.get((site, what))
        ctx.ob(dst_rule, site, ok, what, loc=f.loc if f else None, msg=f.message if f else what, nontrivial=nt)


CLAIM = {
    "level": "Static must-pass-through and abstract-interpretation analysis: all 26 raw NetCDF reads and all 17 text cell reads go through the "
             "cleaning functions; the cleaning function's returned expression is interpreted exhaustively over the five encoding classes; the "
             "request mask, pair filter, empty-slice and interval NaN clauses are structural; a taint analysis follows every whole-array request "
             "to its reductions. Necessary conditions only - the metamorphic equality on data is a runtime statement.",
    "note": "Trusted: CPython ast, vsa symbolic folding, numpy.ma.filled / nan* semantics. The taint analysis is intra-procedural and "
            "flow-insensitive with an enumerated sanitizer list (validity indices, nan*-functions, apply_threshold, within, compute_from_obs_fcst).",
    "technique": "static analysis: must-pass-through (syntactic dominance of the cleaning call), abstract interpretation over encoding classes, "
                 "intra-procedural taint analysis, shared structural clauses of C01/C03/C05/C07; C04.2 the empty-array short cut of clean() is taken only under a path condition that implies an empty variable (truth-table implication) and returns an empty array; C04.5 compute_single must not bypass the pair filter",
}
