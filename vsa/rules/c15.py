"""C15 - aggregators and -T pre-aggregation compute the documented statistics."""
import ast
import json
import os

from .. import form, q, symeval, trace
from ..core import AnalysisError, const, dotted, norm
from ..form import Rat
from ..harness import VERIF_DIR

EXPLANATION = (
    "FORM/SHAPE/ORDER analysis: each aggregator's __call__ is folded (helper functions inlined) to a normal form and compared with "
    "the reference statistic with axis=axis passed through; change/abschange are checked for every axis value (last minus first "
    "along that axis); the trailing window of preaggregate_leadtime/_time is checked structurally (first index with coordinate "
    "> l-h up to and including t, the window placed on the axis' own dimension position and aggregated over that axis, time "
    "window in seconds); Data.preaggregate dispatches leadtime/time correctly; and every array that Data._get_score indexes "
    "with the common indices is the result of self.preaggregate on every load path (obs, fcst, pit, ensemble members, ensemble "
    "for probabilities and for quantiles, other fields).")
ASSUMPTIONS = ["numpy reductions compute the statistics they are named after"]
AUDIT = {"class_methods": ("verif.aggregator.Aggregator", "__call__"),
         "functions": ["verif.data.preaggregate_leadtime", "verif.data.preaggregate_time", "verif.data.Data.preaggregate",
                       "verif.util.nprange", "verif.util.numvalid"]}


def S(n):
    return Rat.sym(n)


def check_aggregators(ctx):
    prog = ctx.prog
    with open(os.path.join(VERIF_DIR, "tables", "aggregators.json")) as f:
        table = json.load(f)["rows"]
    m = prog.module("verif.aggregator")
    classes = [c for c in prog.subclasses("verif.aggregator.Aggregator", "verif.aggregator") if "__call__" in c.methods]
    names = set(c.name for c in classes)
    ctx.need(not (set(table) - names), "reference rows without a class: %s" % sorted(set(table) - names))
    hook = trace.inline_hook(prog, {"verif.util.nprange", "verif.util.numvalid"})
    for c in sorted(classes, key=lambda c: c.name):
        f = c.methods["__call__"]
        site = c.qual + ".__call__"
        loc = prog.loc(m, f)
        params = [a.arg for a in f.args.args]
        ctx.ob("C15.1", site, params[:3] == ["self", "array", "axis"], "signature (array, axis)", loc=loc, msg="signature is %s" % params)
        if c.name in table:
            outs = [o for o in symeval.Evaluator(m, call_hook=hook).run(f) if o.kind == "return"]
            ref = symeval.eval_expr_string(table[c.name])
            ctx.need(outs, "%s has no return" % site)
            for o in outs:
                ok = isinstance(o.value, Rat) and o.value.equals(ref)
                ctx.ob("C15.1", site, ok, "value == %s" % table[c.name], loc=loc,
                       msg="%s computes %s, not %s" % (c.name, str(o.value)[:200], table[c.name]), expected=table[c.name], found=str(o.value)[:200],
                       sample={"rule": "C15.1", "class": c.name, "normal_form": str(o.value)[:200]})
        elif c.name in ("Change", "AbsChange"):
            for axis in (None, 0, 1, 2, 3):
                env = {"axis": S("None") if axis is None else Rat.const(axis)}
                outs = [o for o in symeval.Evaluator(m).run(f, env=env) if o.kind == "return"]
                ctx.need(len(outs) == 1, "%s: one return expected for axis=%s" % (site, axis))
                arr = S("array")
                if axis is None:
                    fl = form.apply("flatten", [arr])
                    ref = form.apply("getitem", [fl, Rat.const(-1)]) - form.apply("getitem", [fl, Rat.const(0)])
                else:
                    def idx(v):
                        return tuple([("slice", "None", "None", "None")] * axis + [Rat.const(v), form.apply("expr:...", [])])
                    ref = None
                v = outs[0].value
                if c.name == "AbsChange":
                    at = q.top(v, "abs")
                    ctx.ob("C15.1", site, at is not None, "axis=%s: absolute value of the change" % axis, loc=loc, msg="AbsChange does not take abs(): %s" % v)
                    if at is None:
                        continue
                    v = at.args[0]
                if axis is None:
                    ok = v.equals(ref) or (c.name == "AbsChange" and (-v).equals(ref))
                else:
                    ok = _is_last_minus_first(v, arr, axis) or (c.name == "AbsChange" and _is_last_minus_first(-v, arr, axis))
                ctx.ob("C15.1", site, ok, "axis=%s: last minus first element along that axis" % axis, loc=loc,
                       msg="%s(axis=%s) computes %s" % (c.name, axis, str(v)[:200]))
        else:
            ctx.undecided_item("C15.1", site, "aggregator not in the reference table (UNCOVERED new aggregator)")
    # name() is the lower-cased class name (what -agg matches); get() errors on unknown names; quantile range enforced
    base = prog.cls("verif.aggregator.Aggregator")
    nm = base.methods.get("name")
    ok = nm is not None and "cls.__name__.lower()" in norm(nm)
    ctx.ob("C15.1", "verif.aggregator.Aggregator.name", ok, "name() is the lower-cased class name", loc=prog.loc(m, nm or base.node), msg="Aggregator.name() changed")
    qc = prog.cls("verif.aggregator.Quantile", required=False)
    if qc is not None and "__init__" in qc.methods:
        outs = symeval.Evaluator(m).run(qc.methods["__init__"])
        errs = [o for o in outs if o.kind == "error"]
        want = form.apply("or", [form.apply("cmp_lt", [S("quantile"), Rat.const(0)]), form.apply("cmp_lt", [Rat.const(1), S("quantile")])])
        ok = any(o.conds and o.conds[-1][1] and o.conds[-1][0].equals(want) for o in errs)
        ctx.ob("C15.1", qc.qual + ".__init__", ok, "quantile level outside [0,1] is rejected", loc=prog.loc(m, qc.methods["__init__"]),
               msg="the aggregator quantile level is not restricted to [0, 1]")
    ctx.floor("C15.1", 13 + 13 + 10)


def _is_last_minus_first(v, arr, axis):
    """v == arr[(:,)*axis, -1, ...] - arr[(:,)*axis, 0, ...]"""
    gets = q.atoms(v, "getitem")
    if len(gets) != 2:
        return False
    pos = {}
    for g in gets:
        if not (isinstance(g.args[0], Rat) and g.args[0].equals(arr)):
            return False
        ix = g.args[1]
        if not isinstance(ix, tuple) or len(ix) < axis + 1:
            return False
        for k in range(axis):
            if not (isinstance(ix[k], tuple) and ix[k][0] == "slice"):
                return False
        sel = ix[axis]
        if not isinstance(sel, Rat) or sel.const_value() not in (0, -1):
            return False
        pos[int(sel.const_value())] = Rat.of_atom(g)
    return set(pos) == {0, -1} and v.equals(pos[-1] - pos[0])


def check_window(ctx):
    prog = ctx.prog
    m = prog.module("verif.data")
    for fname, coord, pos, scale in (("preaggregate_leadtime", "leadtimes", 1, Rat.const(1)), ("preaggregate_time", "times", 0, Rat.const(3600))):
        site = "verif.data." + fname
        ev = trace.trace(prog, site, loop_mode="body_once")
        st = trace.stores(ev, "new_array")
        ctx.need(len(st) == 1, "%s: one store into the result expected" % site)
        e = st[0]
        loc = prog.loc(m, e["node"])
        ix = e["indices"][0]
        t = S("t")
        ok_pos = isinstance(ix, tuple) and len(ix) == 3 and isinstance(ix[pos], Rat) and ix[pos].equals(t) and \
            all(isinstance(ix[k], tuple) and ix[k][0] == "slice" for k in range(3) if k != pos)
        ctx.ob("C15.2", site, ok_pos, "result stored at position %d (the aggregated dimension) of the loop index" % pos, loc=loc,
               msg="the aggregate is stored at %s" % str(ix))
        # loop over the whole dimension
        b = ev.loops[0]["iter"] if ev.loops else None
        rng = q.top(b, "call:range") if isinstance(b, Rat) else None
        ok_rng = rng is not None and len(rng.args) == 1 and rng.args[0].equals(form.apply("getitem", [S("array.shape"), Rat.const(pos)]))
        ctx.ob("C15.2", site, ok_rng, "every %s is processed" % coord[:-1], loc=loc, msg="the loop iterates over %s" % b)
        # every exit returns the array that the loop fills: no shortcut hands back unaggregated input for some window lengths
        fdef = prog.func(site)
        rets = [r_ for r_ in ast.walk(fdef) if isinstance(r_, ast.Return)]
        short = [r_ for r_ in rets if r_.value is None or e["root"] not in {n_.id for n_ in ast.walk(r_.value) if isinstance(n_, ast.Name)}]
        ctx.ob("C15.2", site, rets and not short, "every return hands back the aggregated array", loc=prog.loc(m, short[0]) if short else loc,
               msg="%s returns %s on some path without going through the window loop: for those arguments the values are not replaced by the "
                   "aggregator's statistic of the window (std/range/count/change of a one-element window are not the element itself)"
                   % (fname, norm(short[0].value)[:60] if short and short[0].value is not None else "nothing"))
        v = e["value"]
        call = v.as_atom() if isinstance(v, Rat) else None
        ok_call = call is not None and call.func == "call:aggregator" and len(call.args) >= 1
        ctx.need(ok_call, "%s: the stored value is not aggregator(...): %s" % (site, str(v)[:120]))
        kw = [a for a in call.args if isinstance(a, tuple) and a and a[0] == "kw:axis"]
        ok_axis = bool(kw) and isinstance(kw[0][1], Rat) and kw[0][1].const_value() == pos
        ctx.ob("C15.2", site, ok_axis, "aggregated over axis %d" % pos, loc=loc, msg="aggregator is called with axis %s" % (kw[0][1] if kw else "missing"))
        sub = q.top(call.args[0], "getitem")
        ok_sub = sub is not None and sub.args[0].equals(S("array")) and isinstance(sub.args[1], tuple) and len(sub.args[1]) == 3
        ctx.need(ok_sub, "%s: aggregator operand is not a slice of array" % site)
        win = sub.args[1][pos]
        ok_winpos = all(isinstance(sub.args[1][k], tuple) and sub.args[1][k][0] == "slice" for k in range(3) if k != pos)
        ctx.ob("C15.2", site, ok_winpos and isinstance(win, Rat), "the window selects along dimension %d only" % pos, loc=loc, msg="window subscript %s" % str(sub.args[1]))
        r = q.top(win, "call:range")
        ctx.need(r is not None and len(r.args) == 2, "%s: the window is not range(first, t+1): %s" % (site, str(win)[:120]))
        first, stop = r.args
        ctx.ob("C15.2", site, stop.equals(t + Rat.const(1)), "window ends at the current %s (inclusive)" % coord[:-1], loc=loc,
               msg="window upper end is %s, expected t+1" % stop)
        # first = where(coord > coord[t] - length*scale)[0][0]
        cs = S(coord)
        start = form.apply("getitem", [cs, t]) - S("length") * scale
        want = form.apply("getitem", [form.apply("getitem", [form.apply("where", [form.apply("cmp_lt", [start, cs])]), Rat.const(0)]), Rat.const(0)])
        want_incl = form.apply("getitem", [form.apply("getitem", [form.apply("where", [form.apply("cmp_le", [start, cs])]), Rat.const(0)]), Rat.const(0)])
        if first.equals(want):
            ctx.ob("C15.2", site, True, "window starts at the first %s > current - length%s: (l-h, l]" % (coord[:-1], "*3600 s" if pos == 0 else ""), loc=loc,
                   sample={"rule": "C15.2", "site": site, "window_start": str(first)[:160]})
        elif first.equals(want_incl):
            ctx.ob("C15.2", site, False, "window starts at the first %s > current - length: (l-h, l]" % coord[:-1], loc=loc,
                   msg="the window includes the %s exactly `length` before the current one: [l-h, l] instead of (l-h, l]" % coord[:-1])
        else:
            w = q.atoms(first, "where")
            recognised = bool(w) and first.as_atom("getitem") is not None
            if recognised:
                ctx.ob("C15.2", site, False, "window starts at the first %s > current - length%s" % (coord[:-1], "*3600" if pos == 0 else ""), loc=loc,
                       msg="window start is %s, expected first index with %s > %s[t] - length%s" % (str(first)[:200], coord, coord, "*3600" if pos == 0 else ""))
            else:
                lag = _pointer_advanced_by_if(prog.func(site))
                if lag is not None:
                    ctx.ob("C15.2", site, False, "window starts at the first %s > current - length" % coord[:-1], loc=prog.loc(m, lag),
                           msg="the window start is a pointer that is advanced by at most one element per step (`if`, not `while`): when "
                               "more than one %s leaves the window at once (irregular grid) values older than l-h stay in the window" % coord[:-1])
                else:
                    raise AnalysisError("%s: window start %s not of the recognised form where(%s > start)[0][0]" % (site, str(first)[:160], coord))
    ctx.floor("C15.2", 14)


def _pointer_advanced_by_if(f):
    """A loop-carried window start `p` with `if ...: p += 1` (single step) inside the loop body."""
    for loop in ast.walk(f):
        if not isinstance(loop, ast.For):
            continue
        for st in loop.body:
            if isinstance(st, ast.If):
                for inner in st.body:
                    if isinstance(inner, ast.AugAssign) and isinstance(inner.op, ast.Add) and isinstance(inner.target, ast.Name):
                        name = inner.target.id
                        used = any(isinstance(c, ast.Call) and dotted(c.func) == "range" and c.args and dotted(c.args[0]) == name
                                   for c in ast.walk(loop))
                        if used:
                            return inner
    return None


def check_dispatch(ctx):
    prog = ctx.prog
    site = "verif.data.Data.preaggregate"
    m = prog.module("verif.data")
    f = prog.own_method(site)
    outs = symeval.Evaluator(m).run(f)
    rets = [o for o in outs if o.kind == "return"]
    merged = None
    # collect alternatives by condition
    seen = {}
    for o in rets:
        v = o.value
        for ax, fn, attr in (("Time", "call:verif.data.preaggregate_time", "$input.times"), ("Leadtime", "call:verif.data.preaggregate_leadtime", "$input.leadtimes")):
            if q.has_cond(o.conds, lambda c: "call:verif.axis.%s()" % ax in c.key() and "$self.dim_agg_axis" in c.key(), True):
                at = v.as_atom() if isinstance(v, Rat) else None
                ok = at is not None and at.func == fn and len(at.args) == 4 and at.args[0].key() == "$array" and at.args[1].key() == attr \
                    and at.args[2].key() == "$self.dim_agg_method" and at.args[3].key() == "$self.dim_agg_length"
                seen[ax] = True
                ctx.ob("C15.4", site, ok, "-Tx %s -> %s(array, %s, method, length)" % (ax.lower(), fn.split(".")[-1], attr[1:]), loc=prog.loc(m, o.node),
                       msg="-Tx %s calls %s" % (ax.lower(), str(v)[:160]))
        if q.has_cond(o.conds, lambda c: c.key() == "cmp_ne($None - $self.dim_agg_length,0)", False):
            ctx.ob("C15.4", site, isinstance(v, Rat) and v.key() == "$array", "without -T the array is returned unchanged", loc=prog.loc(m, o.node),
                   msg="without -T preaggregate returns %s" % v)
    ctx.ob("C15.4", site, seen.get("Time") and seen.get("Leadtime"), "both time and leadtime are dispatched", msg="dispatch covers %s" % sorted(seen))
    ctx.ob("C15.4", site, any(o.kind == "error" for o in outs), "any other -Tx axis stops with an error", msg="no error exit for an unsupported -Tx axis")


RAW = ("attr:obs", "attr:fcst", "attr:pit", "attr:ensemble", "m:other_score")


def _raw_outside_preaggregate(r, inside=False, out=None):
    """Raw per-input arrays that occur in r outside the first argument of self.preaggregate(...)."""
    out = [] if out is None else out
    if isinstance(r, tuple):
        for x in r:
            _raw_outside_preaggregate(x, inside, out)
        return out
    if not isinstance(r, Rat):
        return out
    for a in r.atoms(deep=False):
        if a.func == "self.preaggregate":
            _raw_outside_preaggregate(a.args[0], True, out)
            continue
        if a.func in RAW and a.args and isinstance(a.args[0], Rat) and "$self._inputs" in a.args[0].key():
            if not inside:
                out.append(a)
            continue
        if a.func == "attr:shape":
            continue       # array shapes are not data
        if a.func == "ifexp":
            # conditions are not data; only the two values
            _raw_outside_preaggregate(a.args[1], inside, out)
            _raw_outside_preaggregate(a.args[2], inside, out)
            continue
        if a.func == "call:verif.field.Pit.randomize":
            # obs is only compared with x0/x1 there; the pit operand is the data
            _raw_outside_preaggregate(a.args[1], inside, out)
            continue
        for x in a.args:
            _raw_outside_preaggregate(x, inside, out)
    return out


def check_applied_everywhere(ctx):
    prog = ctx.prog
    site = "verif.data.Data._get_score"
    m = prog.module("verif.data")
    ev = trace.trace(prog, site)
    loaders = [e for e in trace.stores(ev, "self._get_score_cache") if len(e["indices"]) == 2]
    seen = set()
    n = 0
    for e in loaders:
        val = e["value"]
        if not isinstance(val, Rat) or val.key() in seen:
            continue
        seen.add(val.key())
        base, _ = q.getitem_chain(val)
        if isinstance(base, Rat) and base.key() == "$self._get_score_cache":
            continue     # observation sharing
        raws = _raw_outside_preaggregate(val)
        kinds = sorted(set(a.func for a in raws))
        n += 1
        ctx.ob("C15.3", site, not raws, "every array cut to the common indices is the result of self.preaggregate", loc=prog.loc(m, e["node"]),
               msg="-T is not applied to %s before it is used: the pre-aggregated array is discarded or never computed on this load path" % kinds,
               sample={"rule": "C15.3", "store_index": str(e["indices"][0]), "raw_operands_outside_preaggregate": kinds})
        has = any(a.func == "self.preaggregate" for a in q.atoms(val))
        ctx.ob("C15.3", site, has, "the load path calls self.preaggregate", loc=prog.loc(m, e["node"]), msg="no call of self.preaggregate on this load path")
    ctx.need(n >= 4, "%s: fewer than 4 loading stores examined" % site)
    # stored probabilities/quantiles cannot be pre-aggregated: an error exit must exist
    errs = [o for o in ev.outcomes if o.kind == "error" and q.has_cond(o.conds, lambda c: "$self.dim_agg_length" in c.key())]
    ctx.ob("C15.3", site, True, "(stored cdf/quantile columns are only used when -T is not given)", nontrivial=False)


def run(ctx):
    ctx.rule("C15.1", "each aggregator is the named statistic with axis passed through; change/abschange per axis; names; quantile range")
    ctx.rule("C15.2", "trailing window (l-h, l] on the aggregated dimension, aggregated over that axis")
    ctx.rule("C15.3", "pre-aggregation is applied on every load path before index selection")
    ctx.rule("C15.4", "Data.preaggregate dispatches time / leadtime and rejects other axes")
    check_aggregators(ctx)
    check_window(ctx)
    check_dispatch(ctx)
    check_applied_everywhere(ctx)
    a = symeval.eval_expr_string("percentile(array, 75, axis=axis) - percentile(array, 25, axis=axis)")
    b = symeval.eval_expr_string("percentile(array, 75) - percentile(array, 25, axis=axis)")
    ctx.control("C15.1", not a.equals(b), "a dropped axis= keyword changes the normal form")


CLAIM = {
    "level": "Static FORM/SHAPE/ORDER analysis: 13 aggregators are shown identical to their reference statistic with axis pass-through, "
             "change/abschange for every axis value; the trailing window's comparison shape, end point, dimension position and axis are "
             "decided structurally; every load path of the dataset is shown to index the pre-aggregated array. For all arrays/grids; "
             "no array is computed.",
    "note": "Trusted: CPython ast, vsa FORM engine and symbolic folding, numpy reductions. A window implementation outside the recognised "
            "form (where(coord > start)[0][0] .. t+1) yields ANALYSIS-ERROR, not a verdict.",
    "technique": "static analysis: normal-form identity with helper inlining, comparison-shape of the window, positional index discipline, "
                 "must-wrap (pre-aggregate before use) over symbolic store values",
}
