"""C16 - diagrams draw the quantities their definitions prescribe (partial: structural clauses only)."""
import ast

from .. import form, q, shape, symeval, trace, plotargs
from ..core import AnalysisError, const, dotted, norm, calls_in, call_name, parent_map
from ..form import Rat

EXPLANATION = (
    "Structural clauses only - drawn numbers are runtime. INDEX: inside every loop over the inputs of every Output class the data "
    "requests use the loop variable as input index and the series label is the label of the same index (literal indices only for the "
    "shared observation series and the two-input impact views); the column layout written by ObsFcst._get_x_y is the layout read by "
    "its _plot_core (index polynomials compared as normal forms). SHAPE: every binning loop over consecutive edges (util.bin, scatter, "
    "change, spread-skill, discrimination, reliability, ignorance contribution, inverse reliability, impact) is evaluated over the "
    "order relations of a value to two edges: it must be half-open on shared edges (no overlap, no gap at interior edges); for bins "
    "of a PROBABILITY the top edge must be included. WIRE: annotation keys lat/lon/elev/location carry loc.lat/lon/elev/id. Plot-"
    "argument table: for roc, droc, performance, taylor, error and qq the x/y arguments of the series' drawing call are folded "
    "symbolically and compared with the reference pair (which also fixes which quantity goes on which axis); the ROC uses p >= level.")
ASSUMPTIONS = ["matplotlib draws the arrays it is given", "fss, auto*, timeseries, meteo, against, maps, rank, impact geometry and everything read back "
               "from rendered artists are UNCOVERED"]
AUDIT = {"classes": ["verif.output.Roc", "verif.output.DRoc", "verif.output.Performance", "verif.output.Taylor", "verif.output.Error", "verif.output.QQ",
                     "verif.output.ObsFcst", "verif.output.Reliability", "verif.output.Discrimination"],
         "functions": ["verif.util.bin"]}


def S(n):
    return Rat.sym(n)


def check_series_index(ctx):
    prog = ctx.prog
    m = prog.module("verif.output")
    n = 0
    for c in sorted(m.classes.values(), key=lambda c: c.name):
        if not prog.is_subclass(c, "verif.output.Output"):
            continue
        for name, f in c.methods.items():
            qual = c.qual + "." + name
            # F = data.num_inputs aliases
            falias = {"data.num_inputs"}
            for st in ast.walk(f):
                if isinstance(st, ast.Assign) and len(st.targets) == 1 and isinstance(st.targets[0], ast.Name) and norm(st.value) == "data.num_inputs":
                    falias.add(st.targets[0].id)
            for loop in ast.walk(f):
                if not (isinstance(loop, ast.For) and isinstance(loop.target, ast.Name) and isinstance(loop.iter, ast.Call) and dotted(loop.iter.func) == "range"):
                    continue
                if not (loop.iter.args and norm(loop.iter.args[-1]) in falias and len(loop.iter.args) <= 2):
                    continue
                v = loop.target.id
                # nested input loops (against plot) use their own variables: only direct uses
                inner_vars = {l.target.id for l in ast.walk(loop) if isinstance(l, ast.For) and l is not loop and isinstance(l.target, ast.Name)
                              and isinstance(l.iter, ast.Call) and l.iter.args and norm(l.iter.args[-1]) in falias}
                outer_vars = set()
                for l in ast.walk(f):
                    if isinstance(l, ast.For) and l is not loop and isinstance(l.target, ast.Name) and isinstance(l.iter, ast.Call) and l.iter.args \
                            and norm(l.iter.args[-1]) in falias and any(x is loop for x in ast.walk(l)):
                        outer_vars.add(l.target.id)
                allowed = {v} | inner_vars | outer_vars
                for call in calls_in(loop):
                    fn = call.func
                    if isinstance(fn, ast.Attribute) and fn.attr in ("get_scores", "compute", "get_num_members") and len(call.args) >= 2:
                        idx = call.args[1] if fn.attr != "get_num_members" else call.args[0]
                        if fn.attr == "compute" and dotted(call.args[0]) != "data":
                            continue
                        ok = (isinstance(idx, ast.Name) and idx.id in allowed) or (isinstance(idx, ast.Constant) and idx.value in (0, 1))
                        n += 1
                        ctx.ob("C16.1", qual, ok, "%s inside the input loop uses the loop variable as input index (%s)" % (fn.attr, norm(idx)), loc=prog.loc(m, call),
                               msg="inside `for %s in range(num_inputs)` %s requests input %s: a series is drawn from another input's data" % (v, fn.attr, norm(idx)),
                               nontrivial=not ok or n % 5 == 0)
                    for k in call.keywords:
                        if k.arg == "label" and isinstance(k.value, ast.Subscript) and isinstance(k.value.value, ast.Name) and k.value.value.id in ("labels",):
                            ix = k.value.slice
                            names = {x.id for x in ast.walk(ix) if isinstance(x, ast.Name)}
                            ok = bool(names & allowed) or isinstance(ix, ast.Constant)
                            n += 1
                            ctx.ob("C16.1", qual, ok and not (names - allowed - falias - {"q"}), "series label is the label of the same input (%s)" % norm(k.value), loc=prog.loc(m, call),
                                   msg="the series of input %s is labelled %s" % (v, norm(k.value)))
    ctx.floor("C16.1", 60)


def check_obsfcst_layout(ctx):
    prog = ctx.prog
    m = prog.module("verif.output")
    c = prog.cls("verif.output.ObsFcst")
    stores, loads = [], []
    for st in ast.walk(c.methods["_get_x_y"]):
        if isinstance(st, ast.Assign) and len(st.targets) == 1 and isinstance(st.targets[0], ast.Subscript) and dotted(st.targets[0].value) == "y":
            sl = st.targets[0].slice
            if isinstance(sl, ast.Tuple) and len(sl.elts) == 2:
                stores.append(sl.elts[1])
    for n_ in ast.walk(c.methods["_plot_core"]):
        if isinstance(n_, ast.Subscript) and dotted(n_.value) in ("y", "labels") and isinstance(n_.ctx, ast.Load):
            sl = n_.slice
            col = sl.elts[1] if isinstance(sl, ast.Tuple) and len(sl.elts) == 2 else (sl if dotted(n_.value) == "labels" else None)
            if col is not None and not isinstance(col, ast.Slice):
                loads.append((n_, col))

    def nf(e):
        r = symeval.eval_expr_string(norm(e))
        # rename every variable other than F and f to one quantile index
        ren = {}
        for s_ in r.symbols():
            if s_ not in ("F", "f"):
                ren[s_] = S("q")
        return form.subst(r, ren) if ren else r
    store_forms = [nf(e) for e in stores]
    ctx.need(len(store_forms) >= 3, "ObsFcst._get_x_y: column stores not found")
    for node, col in loads:
        src = norm(col)
        if "len(" in src or src in ("I0", "I1"):
            continue
        lf = nf(col)
        ok = any(lf.equals(sf) for sf in store_forms)
        ctx.ob("C16.1", "verif.output.ObsFcst._plot_core", ok, "column %s read by the plot is a column written by _get_x_y" % src, loc=prog.loc(m, node),
               msg="_plot_core reads column %s but _get_x_y writes columns %s: curves and labels are paired with another input's/quantile's data"
                   % (src, [str(s_) for s_ in store_forms]), sample={"rule": "C16.1", "read": str(lf), "written": [str(s_) for s_ in store_forms]})
    # labels are appended in the order of the column index (quantile-major)
    src = norm(c.methods["_get_x_y"])
    ok = "for q, quantile in enumerate(self.quantiles):" in src and "for f in range(F):" in src and src.index("enumerate(self.quantiles)") < src.rindex("for f in range(F):") \
        and "labels += [" in src
    lab_form = symeval.eval_expr_string("F + f + 1 + q * F")
    ctx.ob("C16.1", "verif.output.ObsFcst._get_x_y", ok and any(sf.equals(lab_form) for sf in store_forms),
           "quantile columns and their labels are both laid out quantile-major (column F + f + 1 + q*F)", loc=prog.loc(m, c.methods["_get_x_y"]),
           msg="quantile columns are stored at %s while labels are appended quantile-major (F + f + 1 + q*F)" % [str(s_) for s_ in store_forms])


PROB_BIN_SITES = {"verif.output.Reliability._plot_core", "verif.output.Discrimination._plot_core", "verif.output.IgnContrib._plot_core"}


def check_bins(ctx):
    prog = ctx.prog
    n = 0
    for qual, m, c, f in prog.all_functions(["verif.output", "verif.util", "verif.metric"]):
        for node in ast.walk(f):
            if not (isinstance(node, ast.BinOp) and isinstance(node.op, ast.BitAnd)):
                continue
            src = norm(node)
            # two comparisons of one subject with consecutive edges  e[i], e[i + 1]  (or centre -/+ width)
            parts = []
            for side in (node.left, node.right):
                if isinstance(side, ast.Compare) and len(side.ops) == 1:
                    parts.append(side)
            if len(parts) != 2:
                continue
            bounds = [norm(p.comparators[0]) for p in parts]
            subj = [norm(p.left) for p in parts]
            if subj[0] != subj[1]:
                continue
            lo, hi = bounds
            consecutive = ("[i]" in lo and "[i + 1]" in hi and lo.replace("[i]", "") == hi.replace("[i + 1]", "")) or \
                          ("[i - 1]" in lo and "[i]" in hi) or ("- width" in lo and "+ width" in hi)
            if not consecutive:
                continue
            ev = symeval.Evaluator(m)
            r = ev.ev(node, symeval.Path({}, []))
            L, U, X = ev.ev(parts[0].comparators[0], symeval.Path({}, [])), ev.ev(parts[1].comparators[0], symeval.Path({}, [])), ev.ev(parts[0].left, symeval.Path({}, []))
            try:
                tab = shape.table2(r, shape.Roles(L, U, {}, x=X))
            except shape.Unknown:
                continue
            n += 1
            half_open = tab in (shape.expected_table(True, False), shape.expected_table(False, True))
            ctx.ob("C16.2", qual, half_open, "bins over consecutive edges are half-open (%s)" % ("[a,b)" if tab == shape.expected_table(True, False) else "(a,b]" if tab == shape.expected_table(False, True) else "other"),
                   loc=prog.loc(m, node), msg="bin test %s denotes %s: values on an interior edge fall into two bins or none" % (src, tab),
                   sample={"rule": "C16.2", "site": qual, "test": src})
            if qual in PROB_BIN_SITES and tab == shape.expected_table(True, False):
                # probability bins [e_i, e_i+1): the last edge must exceed 1 or the last bin be closed
                fsrc = norm(f)
                raised = "1.001" in fsrc or "edges[-1] =" in fsrc
                ctx.ob("C16.2", qual, raised, "probability bins include p = 1 (top edge)", loc=prog.loc(m, node),
                       msg="bins [e_i, e_i+1) on edges ending at 1: cases with forecast probability exactly 1 fall into no bin and are dropped from the diagram")
    ctx.floor("C16.2", 10)


def check_annotations(ctx):
    prog = ctx.prog
    m = prog.module("verif.output")
    want = {"lat": ".lat", "lon": ".lon", "elev": ".elev", "location": ".id"}
    n = 0
    for c in m.classes.values():
        for name, f in c.methods.items():
            qual = c.qual + "." + name
            defs = {}
            for st in ast.walk(f):
                if isinstance(st, ast.Assign) and len(st.targets) == 1 and isinstance(st.targets[0], ast.Name):
                    defs.setdefault(st.targets[0].id, []).append(norm(st.value))
            for st in ast.walk(f):
                if isinstance(st, ast.Assign) and len(st.targets) == 1 and isinstance(st.targets[0], ast.Subscript) and dotted(st.targets[0].value) == "alabels":
                    key = const(st.targets[0].slice)
                    if key not in want:
                        continue
                    base = st.value
                    while isinstance(base, ast.Subscript):
                        base = base.value
                    srcs = defs.get(dotted(base) or "", [norm(base)])
                    ok = any(("loc%s for loc in data.locations" % want[key]) in s_ for s_ in srcs) and all(
                        not any(("loc%s for loc" % w) in s_ for w in want.values() if w != want[key]) for s_ in srcs)
                    n += 1
                    ctx.ob("C16.3", qual, ok, "annotation key '%s' carries loc%s of the dataset's locations" % (key, want[key]), loc=prog.loc(m, st),
                           msg="annotation field '%s' is filled from %s" % (key, srcs), sample={"rule": "C16.3", "key": key, "source": srcs[:1]})
    ctx.floor("C16.3", 16)


def check_plot_args(ctx):
    prog = ctx.prog
    m = prog.module("verif.output")
    # ---- ROC
    c = prog.cls("verif.output.Roc")
    site = c.qual + "._plot_core"
    f = c.methods["_plot_core"]
    gi = [k for k in calls_in(f) if call_name(m, k) == "verif.util.get_intervals"]
    lv = [k for k in gi if len(k.args) == 2 and norm(k.args[1]) == "levels"]
    ok = len(lv) == 1 and const(lv[0].args[0]) == "above="
    ctx.ob("C16.4", site, ok, "ROC: forecast 'yes' is p >= level (get_intervals('above=', levels))", loc=prog.loc(m, lv[0] if lv else f),
           msg="ROC probability levels use bin type %s: a probability exactly equal to a level is counted as 'no'" % (norm(lv[0].args[0]) if lv else "?"))
    src = norm(f)
    ok = "y[i] = a / 1.0 / (a + c)" in src and "x[i] = b / 1.0 / (b + d)" in src and "x = np.concatenate([[1], x, [0]])" in src and "y = np.concatenate([[1], y, [0]])" in src
    ctx.ob("C16.4", site, ok, "ROC: x = false alarm rate b/(b+d), y = hit rate a/(a+c), end points (1,1) and (0,0)", loc=prog.loc(m, f), msg="ROC coordinates changed")
    ok = "apply_threshold_prob(fcst, self.bin_type, threshold)" in src and "o_interval = verif.util.get_intervals(self.bin_type, self.thresholds)[0]" in src
    ctx.ob("C16.4", site, ok, "ROC: probabilities flipped to the event of the user's bin type; observed event from the same bin type", loc=prog.loc(m, f), msg="ROC event definition changed")
    # ---- DRoc / Performance via Fa / Hit / Far with (interval, f_interval)
    c = prog.cls("verif.output.DRoc")
    src = norm(c.methods["_plot_core"])
    ok = "x[i] = verif.metric.Fa().compute_from_obs_fcst(obs, fcst, interval, f_interval)" in src and "y[i] = verif.metric.Hit().compute_from_obs_fcst(obs, fcst, interval, f_interval)" in src
    ctx.ob("C16.4", c.qual + "._plot_core", ok, "DROC: x = false alarm rate, y = hit rate of (obs interval, forecast interval)", msg="DROC coordinates changed")
    c = prog.cls("verif.output.Performance")
    src = norm(c.methods["_plot_core"])
    ok = "sr[i] = 1 - fa" in src and "pod[i] = hit" in src and "fa = Far.compute_from_obs_fcst(obs, fcst, interval)" in src and "hit = Hit.compute_from_obs_fcst(obs, fcst, interval)" in src \
        and "mpl.plot(sr, pod," in src
    ctx.ob("C16.4", c.qual + "._plot_core", ok, "performance diagram: x = 1 - FAR, y = POD", msg="performance diagram coordinates changed")
    # ---- Taylor, Error, QQ through symbolic folding of the drawing call
    for cname, check in (("Taylor", _taylor), ("Error", _error), ("QQ", _qq)):
        c = prog.cls("verif.output." + cname)
        try:
            calls, ev = plotargs.draw_calls(prog, c, merge=True)
        except symeval.Undecided as e:
            ctx.undecided_item("C16.4", c.qual, str(e))
            continue
        check(ctx, prog, m, c, calls)
    ctx.floor("C16.4", 9)


def _series(calls):
    return [k for k in calls if k["kind"] == "plot" and len(k["args"]) >= 2 and isinstance(k["kwargs"].get("label"), Rat)
            and "get_legend" in k["kwargs"]["label"].key()]


def _taylor(ctx, prog, m, c, calls):
    ser = _series(calls)
    ctx.need(ser, "Taylor: series call not found")
    for k in ser:
        x, y = k["args"][0], k["args"][1]
        ok = isinstance(x, Rat) and isinstance(y, Rat) and "cos(arccos(" in x.key() and "sin(arccos(" in y.key() and "corr(" in x.key() and "var(" in x.key()
        ctx.ob("C16.4", c.qual + "._plot_core", ok, "Taylor: x = sigma*cos(arccos(rho)), y = sigma*sin(arccos(rho))", loc=prog.loc(m, k["node"]),
               msg="Taylor point is (%s, %s)" % (str(x)[:100], str(y)[:100]))


def _error(ctx, prog, m, c, calls):
    ser = _series(calls)
    ctx.need(ser, "Error: series call not found")
    src = norm(c.methods["_plot_core"])
    ok = "serr[i, f] = np.mean(obs - fcst)" in src and "rmse[i, f] = np.sqrt(np.mean((obs - fcst) ** 2))" in src and "uerr[i, f] = np.sqrt(rmse[i, f] ** 2 - serr[i, f] ** 2)" in src \
        and "mpl.plot(uerr[:, f], serr[:, f]," in src
    ctx.ob("C16.4", c.qual + "._plot_core", ok, "error decomposition: x = sqrt(rmse^2 - bias^2), y = bias", msg="error decomposition coordinates changed")


def _qq(ctx, prog, m, c, calls):
    ser = [k for k in calls if k["kind"] == "plot" and len(k["args"]) >= 2]
    ctx.need(ser, "QQ: drawing call not found")
    k = ser[0]
    x, y = k["args"][0], k["args"][1]
    ok = isinstance(x, Rat) and isinstance(y, Rat) and q.top(x, "sort") is not None and q.top(y, "sort") is not None
    ctx.ob("C16.4", c.qual + "._plot_core", ok, "QQ: sorted observations against sorted forecasts", loc=prog.loc(m, k["node"]), msg="QQ plots (%s, %s)" % (str(x)[:80], str(y)[:80]))
    if ok:
        xs, ys = x.key(), y.key()
        ok2 = ("call:verif.field.Obs()" in xs or "scores" in xs) and xs != ys
        ctx.ob("C16.4", c.qual + "._plot_core", ok2, "QQ: x is the observation series, y the forecast series", loc=prog.loc(m, k["node"]), msg="QQ axes swapped or identical")


def run(ctx):
    ctx.rule("C16.1", "series <-> input <-> label index discipline; obsfcst column layout written = read")
    ctx.rule("C16.2", "binning loops over consecutive edges are half-open; probability bins include the top edge")
    ctx.rule("C16.3", "annotation keys carry the attribute they name")
    ctx.rule("C16.4", "plot-argument table: roc, droc, performance, taylor, error, qq")
    check_series_index(ctx)
    check_obsfcst_layout(ctx)
    check_bins(ctx)
    check_annotations(ctx)
    check_plot_args(ctx)
    ctx.note("UNCOVERED for C16.4: fss, auto*, timeseries, meteo, against, hist/sort (C07.8), maps, rank, impact, reliability/discrimination series values, "
             "economic value, murphy, marginal, freq (C07.8), spread-skill, change, cond, pithist, bsdecomp, igncontrib")


CLAIM = {
    "level": "Partial, structural: index discipline of series/inputs/labels in all 33 output classes, written-vs-read column layout of obsfcst, "
             "comparison shape of every binning loop (half-open, top edge of probability bins), annotation key wiring, and the x/y argument pair "
             "of six diagrams. These are necessary conditions visible in the code; the coordinates of drawn artists are runtime quantities and "
             "most diagrams' series values are explicitly UNCOVERED.",
    "note": "Trusted: CPython ast, vsa SHAPE/FORM engines, matplotlib. Known findings: probability bins of reliability / discrimination / "
            "ignorance-contribution drop cases with p = 1.",
    "technique": "static analysis: loop-index discipline lint, normal-form comparison of index polynomials, comparison-shape evaluation of bin "
                 "tests over the finite order-relation domain, key/value wiring, drawing-call argument extraction by symbolic folding",
}
