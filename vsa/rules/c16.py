"""C16 - diagrams draw the quantities their definitions prescribe (partial: structural clauses only)."""
import ast

from .. import form, q, shape, symeval, trace, plotargs
from ..core import AnalysisError, const, dotted, norm, calls_in, call_name, parent_map
from ..form import Rat

EXPLANATION = (
    "Structural clauses only - drawn numbers are runtime. INDEX: inside every loop over the inputs of every Output class the data "
    "requests use the loop variable as input index and the series label is the label of the same index (literal indices only for the "
    "shared observation series and the two-input impact views); the column layout written by ObsFcst._get_x_y is the layout read by "
    "its _plot_core (index polynomials compared as normal forms). SHAPE: every binning loop over consecutive edges (util.bin, scatter, "
    "change, spread-skill, discrimination, reliability, ignorance contribution, inverse reliability, impact) is evaluated over the "
    "order relations of a value to two edges: it must be half-open on shared edges (no overlap, no gap at interior edges); for bins "
    "of a PROBABILITY the top edge must be included. WIRE: annotation keys lat/lon/elev/location carry loc.lat/lon/elev/id. Plot-"
    "argument table: for roc, droc, performance, taylor, error and qq the x/y arguments of the series' drawing call are folded "
    "symbolically and compared with the reference pair (which also fixes which quantity goes on which axis); the ROC uses p >= level.")
ASSUMPTIONS = ["matplotlib draws the arrays it is given", "fss, auto*, timeseries, meteo, against, maps, rank, impact geometry and everything read back "
               "from rendered artists are UNCOVERED"]
AUDIT = {"classes": ["verif.output.Roc", "verif.output.DRoc", "verif.output.Performance", "verif.output.Taylor", "verif.output.Error", "verif.output.QQ",
                     "verif.output.ObsFcst", "verif.output.Reliability", "verif.output.Discrimination", "verif.output.Murphy"],
         "functions": ["verif.util.bin"]}


def S(n):
    return Rat.sym(n)


def check_series_index(ctx):
    prog = ctx.prog
    m = prog.module("verif.output")
    n = 0
    for c in sorted(m.classes.values(), key=lambda c: c.name):
        if not prog.is_subclass(c, "verif.output.Output"):
            continue
        for name, f in c.methods.items():
            qual = c.qual + "." + name
            # F = data.num_inputs aliases
            falias = {"data.num_inputs"}
            for st in ast.walk(f):
                if isinstance(st, ast.Assign) and len(st.targets) == 1 and isinstance(st.targets[0], ast.Name) and norm(st.value) == "data.num_inputs":
                    falias.add(st.targets[0].id)
            for loop in ast.walk(f):
                if not (isinstance(loop, ast.For) and isinstance(loop.target, ast.Name) and isinstance(loop.iter, ast.Call) and dotted(loop.iter.func) == "range"):
                    continue
                if not (loop.iter.args and norm(loop.iter.args[-1]) in falias and len(loop.iter.args) <= 2):
                    continue
                v = loop.target.id
                # nested input loops (against plot) use their own variables: only direct uses
                inner_vars = {l.target.id for l in ast.walk(loop) if isinstance(l, ast.For) and l is not loop and isinstance(l.target, ast.Name)
                              and isinstance(l.iter, ast.Call) and l.iter.args and norm(l.iter.args[-1]) in falias}
                outer_vars = set()
                for l in ast.walk(f):
                    if isinstance(l, ast.For) and l is not loop and isinstance(l.target, ast.Name) and isinstance(l.iter, ast.Call) and l.iter.args \
                            and norm(l.iter.args[-1]) in falias and any(x is loop for x in ast.walk(l)):
                        outer_vars.add(l.target.id)
                allowed = {v} | inner_vars | outer_vars
                for call in calls_in(loop):
                    fn = call.func
                    if isinstance(fn, ast.Attribute) and fn.attr in ("get_scores", "compute", "get_num_members") and len(call.args) >= 2:
                        idx = call.args[1] if fn.attr != "get_num_members" else call.args[0]
                        if fn.attr == "compute" and dotted(call.args[0]) != "data":
                            continue
                        ok = (isinstance(idx, ast.Name) and idx.id in allowed) or (isinstance(idx, ast.Constant) and idx.value in (0, 1))
                        n += 1
                        ctx.ob("C16.1", qual, ok, "%s inside the input loop uses the loop variable as input index (%s)" % (fn.attr, norm(idx)), loc=prog.loc(m, call),
                               msg="inside `for %s in range(num_inputs)` %s requests input %s: a series is drawn from another input's data" % (v, fn.attr, norm(idx)),
                               nontrivial=not ok or n % 5 == 0)
                    for k in call.keywords:
                        if k.arg == "label" and isinstance(k.value, ast.Subscript) and isinstance(k.value.value, ast.Name) and k.value.value.id in ("labels",):
                            ix = k.value.slice
                            names = {x.id for x in ast.walk(ix) if isinstance(x, ast.Name)}
                            ok = bool(names & allowed) or isinstance(ix, ast.Constant)
                            n += 1
                            ctx.ob("C16.1", qual, ok and not (names - allowed - falias - {"q"}), "series label is the label of the same input (%s)" % norm(k.value), loc=prog.loc(m, call),
                                   msg="the series of input %s is labelled %s" % (v, norm(k.value)))
    ctx.floor("C16.1", 60)


def check_obsfcst_layout(ctx):
    prog = ctx.prog
    m = prog.module("verif.output")
    c = prog.cls("verif.output.ObsFcst")
    stores, loads = [], []
    for st in ast.walk(c.methods["_get_x_y"]):
        if isinstance(st, ast.Assign) and len(st.targets) == 1 and isinstance(st.targets[0], ast.Subscript) and dotted(st.targets[0].value) == "y":
            sl = st.targets[0].slice
            if isinstance(sl, ast.Tuple) and len(sl.elts) == 2:
                if isinstance(sl.elts[1], ast.Slice):
                    raise AnalysisError("ObsFcst._get_x_y stores a block of columns at once (y[:, %s] = %s): which input / quantile ends up in which "
                                        "column cannot be read off the store" % (norm(sl.elts[1]), norm(st.value)[:60]))
                stores.append(sl.elts[1])
    for n_ in ast.walk(c.methods["_plot_core"]):
        if isinstance(n_, ast.Subscript) and dotted(n_.value) in ("y", "labels") and isinstance(n_.ctx, ast.Load):
            sl = n_.slice
            col = sl.elts[1] if isinstance(sl, ast.Tuple) and len(sl.elts) == 2 else (sl if dotted(n_.value) == "labels" else None)
            if col is not None and not isinstance(col, ast.Slice):
                loads.append((n_, col))

    def nf(e):
        r = symeval.eval_expr_string(norm(e))
        # rename every variable other than F and f to one quantile index
        ren = {}
        for s_ in r.symbols():
            if s_ not in ("F", "f"):
                ren[s_] = S("q")
        return form.subst(r, ren) if ren else r
    store_forms = [nf(e) for e in stores]
    ctx.need(len(store_forms) >= 3, "ObsFcst._get_x_y: column stores not found")
    for node, col in loads:
        src = norm(col)
        if "len(" in src or src in ("I0", "I1"):
            continue
        lf = nf(col)
        ok = any(lf.equals(sf) for sf in store_forms)
        ctx.ob("C16.1", "verif.output.ObsFcst._plot_core", ok, "column %s read by the plot is a column written by _get_x_y" % src, loc=prog.loc(m, node),
               msg="_plot_core reads column %s but _get_x_y writes columns %s: curves and labels are paired with another input's/quantile's data"
                   % (src, [str(s_) for s_ in store_forms]), sample={"rule": "C16.1", "read": str(lf), "written": [str(s_) for s_ in store_forms]})
    # the order in which the quantile labels are produced is the order of the quantile columns: the loop (or comprehension clause)
    # that varies fastest in the label list is the one whose variable has coefficient 1 in the column index
    gxy = c.methods["_get_x_y"]
    pm = parent_map(gxy)

    def kind_of(iter_node):
        names = {n_.id for n_ in ast.walk(iter_node) if isinstance(n_, ast.Name)} | {n_.attr for n_ in ast.walk(iter_node) if isinstance(n_, ast.Attribute)}
        if "quantiles" in names:
            return "quantile"
        if names & {"F", "num_inputs", "labels", "get_legend", "get_names"}:
            return "input"
        return None

    def loop_nest(node):
        out = []
        cur = pm.get(node)
        while cur is not None:
            if isinstance(cur, ast.For):
                out.append(cur)
            cur = pm.get(cur)
        return list(reversed(out))            # outermost first

    col_store = None
    for st in ast.walk(gxy):
        if isinstance(st, ast.Assign) and len(st.targets) == 1 and isinstance(st.targets[0], ast.Subscript) and dotted(st.targets[0].value) == "y" \
                and len(loop_nest(st)) == 2:
            col_store = st
    ctx.need(col_store is not None, "ObsFcst._get_x_y: the store of the quantile columns (inside two nested loops) was not found")
    nest = loop_nest(col_store)
    col = symeval.eval_expr_string(norm(col_store.targets[0].slice.elts[1]))
    fast = slow = None
    for lp in nest:
        var = lp.target.elts[0].id if isinstance(lp.target, ast.Tuple) else lp.target.id
        step = (form.subst(col, {var: S(var) + Rat.const(1)}) - col)
        if step.const_value() == 1:
            fast = kind_of(lp.iter)
        elif not step.is_zero():
            slow = kind_of(lp.iter)
    ctx.need(fast is not None and slow is not None and fast != slow, "ObsFcst._get_x_y: column index %s is not affine in the two loop variables" % col)
    producers = []
    for st in ast.walk(gxy):
        tgt = None
        if isinstance(st, ast.AugAssign) and dotted(st.target) == "labels":
            tgt = st
        elif isinstance(st, ast.Expr) and isinstance(st.value, ast.Call) and dotted(st.value.func) in ("labels.append", "labels.extend"):
            tgt = st
        elif isinstance(st, ast.Assign) and any(isinstance(n_, ast.ListComp) for n_ in ast.walk(st.value)) \
                and any(isinstance(n_, ast.Attribute) and n_.attr == "quantiles" for n_ in ast.walk(st.value)):
            tgt = st          # labels = labels + [... for ... in self.quantiles ...]  (whatever the list is called)
        if tgt is None:
            continue
        comps = [n_ for n_ in ast.walk(tgt) if isinstance(n_, ast.ListComp)]
        if comps:
            kinds = [kind_of(g.iter) for g in comps[0].generators]
        else:
            kinds = [kind_of(lp.iter) for lp in loop_nest(tgt)]
        kinds = [k for k in kinds if k]
        if "quantile" in kinds:
            producers.append((tgt, kinds))
    ctx.need(producers, "ObsFcst._get_x_y: the statement that produces the quantile labels was not found")
    for tgt, kinds in producers:
        ok = len(kinds) == 2 and kinds[0] == slow and kinds[1] == fast
        ctx.ob("C16.1", "verif.output.ObsFcst._get_x_y", ok, "quantile labels are produced in the order of the quantile columns (%s-major)" % slow, loc=prog.loc(m, tgt),
               msg="the quantile columns are laid out %s-major (column %s) but the labels are produced in the order %s: with several inputs and several "
                   "quantiles a curve / csv column carries the label of another input's quantile" % (slow, col, " then ".join(kinds) or "?"),
               sample={"rule": "C16.1", "column": str(col), "label_order": kinds})


PROB_BIN_SITES = {"verif.output.Reliability._plot_core", "verif.output.Discrimination._plot_core", "verif.output.IgnContrib._plot_core"}
# binning sites confirmed by reading (function -> number of bin-membership tests over consecutive edges); a site that disappears is an
# analysis error, not a pass
BIN_SITES = {"verif.metric.BsRel.compute_from_obs_fcst": 1, "verif.metric.BsRes.compute_from_obs_fcst": 1, "verif.metric.BssRel.compute_from_obs_fcst": 1,
             "verif.metric.BssRes.compute_from_obs_fcst": 1, "verif.output.Standard._plot_impact_core": 4, "verif.output.Scatter._plot_core": 1,
             "verif.output.Change._plot_core": 1, "verif.output.Discrimination._plot_core": 2, "verif.output.Reliability._plot_core": 1,
             "verif.output.IgnContrib._plot_core": 1, "verif.output.InvReliability._plot_core": 1, "verif.util.bin": 1,
             "verif.output.SpreadSkill._plot_core": 1}


def _consecutive(a, b):
    """b is the edge that follows a: E[k+1] after E[k], or centre + w after centre - w."""
    aa, ab = a.as_atom(), b.as_atom()
    if aa is not None and ab is not None and aa.func == "getitem" and ab.func == "getitem" and isinstance(aa.args[0], Rat) and isinstance(ab.args[0], Rat) \
            and aa.args[0].equals(ab.args[0]) and isinstance(aa.args[1], Rat) and isinstance(ab.args[1], Rat):
        d = (ab.args[1] - aa.args[1]).const_value()
        return d == 1
    try:
        half = (b - a) / Rat.const(2)
        mid = (b + a) / Rat.const(2)
    except form.Undefined:
        return False
    return half.as_atom() is not None and half.as_atom().func.startswith("$") and not any(x is half.as_atom() for x in mid.atoms(deep=True)) \
        and mid.as_atom() is not None and mid.as_atom().func == "getitem"


def _mask_roots(f):
    pm = parent_map(f)
    for node in ast.walk(f):
        if isinstance(node, ast.BinOp) and isinstance(node.op, (ast.BitAnd, ast.BitOr)):
            par = pm.get(node)
            if isinstance(par, ast.BinOp) and isinstance(par.op, (ast.BitAnd, ast.BitOr)):
                continue
            yield node


def check_bins(ctx):
    prog = ctx.prog
    seen = {}
    all_funcs = list(prog.all_functions(["verif.output", "verif.util", "verif.metric"]))
    for qual, m, c, f in all_funcs:
        pm_ = None
        for node in _mask_roots(f):
            ev = symeval.Evaluator(m)
            env0 = {}
            # the names of a loop over consecutive pairs - for lo, hi in zip(E[:-1], E[1:]) - are E[i] and E[i+1]
            if pm_ is None:
                pm_ = parent_map(f)
            par = pm_.get(node)
            while par is not None and par is not f:
                zip_call, zip_target = None, None
                if isinstance(par, ast.For) and isinstance(par.target, (ast.Tuple, ast.List)) and isinstance(par.iter, ast.Call):
                    if dotted(par.iter.func) == "zip":
                        zip_call, zip_target = par.iter, par.target
                    elif dotted(par.iter.func) == "enumerate" and len(par.iter.args) == 1 and isinstance(par.iter.args[0], ast.Call) \
                            and dotted(par.iter.args[0].func) == "zip" and len(par.target.elts) == 2 and isinstance(par.target.elts[1], (ast.Tuple, ast.List)):
                        zip_call, zip_target = par.iter.args[0], par.target.elts[1]          # for i, (lo, hi) in enumerate(zip(E[:-1], E[1:]))
                if zip_call is not None:
                    try:
                        itv = ev.ev(zip_call, symeval.Path({}, []))
                        fake = ast.For(target=zip_target, iter=zip_call, body=[], orelse=[])
                        lv = symeval._loop_value(fake, itv, "") if isinstance(itv, Rat) else None
                    except symeval.Undecided:
                        lv = None
                    if isinstance(lv, list) and len(lv) == len(zip_target.elts):
                        for t_, v_ in zip(zip_target.elts, lv):
                            if isinstance(t_, ast.Name) and isinstance(v_, Rat) and t_.id not in env0:
                                env0[t_.id] = v_
                par = pm_.get(par)
            try:
                r = ev.ev(node, symeval.Path(env0, []))
            except symeval.Undecided:
                continue
            if not isinstance(r, Rat):
                continue
            # operands of the comparisons (and of tolerance tests) inside the mask
            ops = []
            for at in r.atoms(deep=True):
                if at.func in ("cmp_lt", "cmp_le") or at.func in ("call:numpy.isclose", "call:numpy.allclose"):
                    ops.extend(x for x in at.args[:2] if isinstance(x, Rat))
                elif at.func in ("cmp_eq", "cmp_ne") and isinstance(at.args[0], Rat):
                    pass
            pairs = []
            for a in ops:
                for b in ops:
                    if a is not b and not a.equals(b) and _consecutive(a, b) and not any(a.equals(p_[0]) and b.equals(p_[1]) for p_ in pairs):
                        pairs.append((a, b))
            conj = q.leaves(r, "and")
            for L, U in pairs:
                # the conjuncts that involve one of the two edges form the bin test; the others (validity masks, the other coordinate
                # of a two-dimensional box) are side conditions that do not change which interval of THIS coordinate is selected
                rel = [c_ for c_ in conj if isinstance(c_, Rat) and (L.key() in c_.key() or U.key() in c_.key())]
                test = rel[0] if len(rel) == 1 else form.apply("and", rel)
                subj = []
                for at in test.atoms(deep=True):
                    if at.func in ("cmp_lt", "cmp_le", "call:numpy.isclose", "call:numpy.allclose"):
                        subj.extend(x for x in at.args[:2] if isinstance(x, Rat) and not x.equals(L) and not x.equals(U))
                X = subj[0] if subj else None
                src = norm(node)
                seen[qual] = seen.get(qual, 0) + 1
                try:
                    tab = shape.table2(test, shape.Roles(L, U, {}, x=X))
                except shape.Unknown as e:
                    tol = "isclose" in test.key() or "allclose" in test.key()
                    ctx.ob("C16.2", qual, False, "bin membership over consecutive edges is an exact order test (half-open interval)", loc=prog.loc(m, node),
                           msg="bin test %s %s: consecutive bins are not disjoint, a value on (or within tolerance of) an interior edge is counted in two bins"
                               % (src[:120], "uses a tolerance comparison (isclose)" if tol else "is not a pair of order comparisons with the two edges (%s)" % e))
                    continue
                half_open = tab in (shape.expected_table(True, False), shape.expected_table(False, True))
                ctx.ob("C16.2", qual, half_open, "bins over consecutive edges are half-open (%s)" % ("[a,b)" if tab == shape.expected_table(True, False) else "(a,b]" if tab == shape.expected_table(False, True) else "other"),
                       loc=prog.loc(m, node), msg="bin test %s denotes %s: values on an interior edge fall into two bins or none" % (src, tab),
                       sample={"rule": "C16.2", "site": qual, "test": src})
                if qual in PROB_BIN_SITES and tab == shape.expected_table(True, False):
                    # probability bins [e_i, e_i+1): the last edge must exceed 1 or the last bin be closed
                    raised = _top_edge_raised(prog, m, f)
                    ctx.ob("C16.2", qual, raised, "probability bins include p = 1 (top edge)", loc=prog.loc(m, node),
                           msg="bins [e_i, e_i+1) on edges ending at 1: cases with forecast probability exactly 1 fall into no bin and are dropped from the diagram")
    # a bin test that moved into a helper which did not exist on the reference tree counts for every confirmed site that calls the helper
    fmap = {qual: (m, c, f) for qual, m, c, f in all_funcs}
    known = trace.known_methods()
    for hq in [h for h in seen if h not in BIN_SITES]:
        hm, hc, hf = fmap[hq]
        hname = hq.rsplit(".", 1)[1]
        if hc is not None and hname in known.get(hc.qual, [hname]):
            continue
        for qual in BIN_SITES:
            m2, c2, f2 = fmap.get(qual, (None, None, None))
            if f2 is not None and m2 is hm and any(isinstance(n_, ast.Call) and (dotted(n_.func) or "").split(".")[-1] == hname for n_ in ast.walk(f2)):
                seen[qual] = seen.get(qual, 0) + seen[hq]
    for qual, want in sorted(BIN_SITES.items()):
        ctx.need(seen.get(qual, 0) >= want, "%s: %d of %d confirmed bin-membership tests found" % (qual, seen.get(qual, 0), want))
    extra = sorted(set(seen) - set(BIN_SITES))
    if extra:
        ctx.note("bin-membership tests outside the confirmed table (checked all the same): %s" % extra)
    ctx.floor("C16.2", 14)


def _top_edge_raised(prog, m, f):
    """The last probability edge is moved above 1 (edges[-1] = something > 1) before the binning loop."""
    for st in ast.walk(f):
        if isinstance(st, ast.Assign) and len(st.targets) == 1 and isinstance(st.targets[0], ast.Subscript) and const(st.targets[0].slice) == -1:
            v = const(st.value)
            if isinstance(v, (int, float)) and v > 1:
                return True
    return False


ELEMENTWISE = {"abs", "ifexp", "nparray", "float", "setitem", "call:numpy.nan_to_num", "exp", "log", "pylist"}


def _is_selection(ix):
    at = ix.as_atom() if isinstance(ix, Rat) else None
    if at is None:
        return False
    if at.func == "where":
        return True
    return at.func == "getitem" and isinstance(at.args[0], Rat) and _is_selection(at.args[0])


def _selections(r, depth=0):
    """The set of where()-derived index vectors applied along the data path of a per-point array (not inside index expressions,
    not below reductions)."""
    out = set()
    if depth > 30 or not isinstance(r, Rat):
        return out
    for a in r.atoms(deep=False):
        if a.func == "getitem":
            ix = a.args[1]
            comps = ix if isinstance(ix, tuple) and not (ix and ix[0] == "slice") else (ix,)
            for c_ in comps:
                if isinstance(c_, Rat) and _is_selection(c_):
                    out.add(c_.key())
            if isinstance(a.args[0], Rat):
                out |= _selections(a.args[0], depth + 1)
        elif a.func in ELEMENTWISE or a.func.startswith("m:"):
            for x in a.args:
                if isinstance(x, Rat):
                    out |= _selections(x, depth + 1)
    return out


SCATTER_SITES = {("Standard", "_plot_mapimpact_core"): 2}


def check_coselection(ctx):
    """Points of a scatter are (x, y, size/colour) triples: every per-point argument of one scatter call, and the coordinates and
    label arrays handed to _add_annotation, must have gone through the same sequence of np.where selections.  (An array that was
    not subset while its partners were pairs values of different stations.)"""
    prog = ctx.prog
    m = prog.module("verif.output")
    found = {}
    for c in sorted(m.classes.values(), key=lambda c: c.name):
        if not prog.is_subclass(c, "verif.output.Output"):
            continue
        for meth in sorted(c.methods):
            if not meth.startswith("_plot") and not meth.startswith("_map"):
                continue
            src_has = any(isinstance(k.func, ast.Attribute) and k.func.attr in ("scatter",) for k in calls_in(c.methods[meth]))
            if not src_has:
                continue
            annot = []

            def hook(ev, node, rname, args, kwargs, path):
                if rname == "self._add_annotation":
                    annot.append((node, args, dict(path.env)))
                return None
            try:
                calls, ev = plotargs.draw_calls(prog, c, meth, extra_hook=hook, max_paths=512)
            except symeval.Undecided:
                continue
            for k in calls:
                if k["kind"] != "scatter":
                    continue
                cand = [("x", k["args"][0] if len(k["args"]) > 0 else None), ("y", k["args"][1] if len(k["args"]) > 1 else None),
                        ("s", k["kwargs"].get("s")), ("c", k["kwargs"].get("c"))]
                cand = [(n_, v) for n_, v in cand if isinstance(v, Rat) and v.const_value() is None and not (v.as_atom() is not None and v.as_atom().func.startswith("$self."))]
                sigs = [(n_, _selections(v)) for n_, v in cand]
                if len(sigs) < 2 or not any(sg for _, sg in sigs):
                    continue
                qual = c.qual + "." + meth
                found[(c.name, meth)] = found.get((c.name, meth), 0) + 1
                ok = all(sg == sigs[0][1] for _, sg in sigs)
                odd = [n_ for n_, sg in sigs if sg != max((s2 for _, s2 in sigs), key=len)]
                ctx.ob("C16.5", qual, ok, "scatter: x, y and size/colour went through the same selections", loc=prog.loc(m, k["node"]),
                       msg="scatter arguments were subset differently: %s lack(s) a selection that the others have (%s): markers are drawn at the "
                           "coordinates of other stations" % (odd, {n_: len(sg) for n_, sg in sigs}),
                       sample={"rule": "C16.5", "site": qual, "selections": {n_: len(sg) for n_, sg in sigs}})
            for node, args, env in annot:
                if len(args) < 3 or not isinstance(args[0], Rat):
                    continue
                base = _selections(args[0])
                vals = [("y", args[1])]
                # the label dictionary: values stored under its keys
                for e in ev.events if ev is not None else []:
                    pass
                qual = c.qual + "." + meth
                ok = isinstance(args[1], Rat) and _selections(args[1]) == base
                ctx.ob("C16.5", qual, ok, "_add_annotation: x and y went through the same selections", loc=prog.loc(m, node),
                       msg="_add_annotation receives x and y that were subset differently")
    for key, want in sorted(SCATTER_SITES.items()):
        ctx.need(found.get(key, 0) >= want, "%s.%s: %d of %d confirmed scatter calls with selections found" % (key[0], key[1], found.get(key, 0), want))


def check_annotations(ctx):
    prog = ctx.prog
    m = prog.module("verif.output")
    want = {"lat": ".lat", "lon": ".lon", "elev": ".elev", "location": ".id"}
    n = 0
    for c in m.classes.values():
        for name, f in c.methods.items():
            qual = c.qual + "." + name
            defs = {}
            for st in ast.walk(f):
                if isinstance(st, ast.Assign) and len(st.targets) == 1 and isinstance(st.targets[0], ast.Name):
                    defs.setdefault(st.targets[0].id, []).append(norm(st.value))
            for st in ast.walk(f):
                if isinstance(st, ast.Assign) and len(st.targets) == 1 and isinstance(st.targets[0], ast.Subscript) and dotted(st.targets[0].value) == "alabels":
                    key = const(st.targets[0].slice)
                    if key not in want:
                        continue
                    base = st.value
                    while isinstance(base, ast.Subscript):
                        base = base.value
                    srcs = defs.get(dotted(base) or "", [norm(base)])
                    ok = any(("loc%s for loc in data.locations" % want[key]) in s_ for s_ in srcs) and all(
                        not any(("loc%s for loc" % w) in s_ for w in want.values() if w != want[key]) for s_ in srcs)
                    n += 1
                    ctx.ob("C16.3", qual, ok, "annotation key '%s' carries loc%s of the dataset's locations" % (key, want[key]), loc=prog.loc(m, st),
                           msg="annotation field '%s' is filled from %s" % (key, srcs), sample={"rule": "C16.3", "key": key, "source": srcs[:1]})
    ctx.floor("C16.3", 16)


def check_plot_args(ctx):
    prog = ctx.prog
    m = prog.module("verif.output")
    # (ROC, DROC, performance and error-decomposition diagrams: by value, rule C16.7 in c16v.py)
    # ---- Taylor, Error, QQ through symbolic folding of the drawing call
    for cname, check in (("Taylor", _taylor), ("QQ", _qq)):
        c = prog.cls("verif.output." + cname)
        try:
            calls, ev = plotargs.draw_calls(prog, c, merge=True)
        except symeval.Undecided as e:
            ctx.undecided_item("C16.4", c.qual, str(e))
            continue
        check(ctx, prog, m, c, calls)
    ctx.floor("C16.4", 3)


def _series(calls):
    return [k for k in calls if k["kind"] == "plot" and len(k["args"]) >= 2 and isinstance(k["kwargs"].get("label"), Rat)
            and "get_legend" in k["kwargs"]["label"].key()]


def _taylor(ctx, prog, m, c, calls):
    ser = _series(calls)
    ctx.need(ser, "Taylor: series call not found")
    for k in ser:
        x, y = k["args"][0], k["args"][1]
        ok = isinstance(x, Rat) and isinstance(y, Rat) and "cos(arccos(" in x.key() and "sin(arccos(" in y.key() and "corr(" in x.key() and "var(" in x.key()
        ctx.ob("C16.4", c.qual + "._plot_core", ok, "Taylor: x = sigma*cos(arccos(rho)), y = sigma*sin(arccos(rho))", loc=prog.loc(m, k["node"]),
               msg="Taylor point is (%s, %s)" % (str(x)[:100], str(y)[:100]))


def _error(ctx, prog, m, c, calls):
    ser = _series(calls)
    ctx.need(ser, "Error: series call not found")
    src = norm(c.methods["_plot_core"])
    ok = "serr[i, f] = np.mean(obs - fcst)" in src and "rmse[i, f] = np.sqrt(np.mean((obs - fcst) ** 2))" in src and "uerr[i, f] = np.sqrt(rmse[i, f] ** 2 - serr[i, f] ** 2)" in src \
        and "mpl.plot(uerr[:, f], serr[:, f]," in src
    ctx.ob("C16.4", c.qual + "._plot_core", ok, "error decomposition: x = sqrt(rmse^2 - bias^2), y = bias", msg="error decomposition coordinates changed")


def _qq(ctx, prog, m, c, calls):
    ser = [k for k in calls if k["kind"] == "plot" and len(k["args"]) >= 2]
    ctx.need(ser, "QQ: drawing call not found")
    k = ser[0]
    x, y = k["args"][0], k["args"][1]
    ok = isinstance(x, Rat) and isinstance(y, Rat) and q.top(x, "sort") is not None and q.top(y, "sort") is not None
    ctx.ob("C16.4", c.qual + "._plot_core", ok, "QQ: sorted observations against sorted forecasts", loc=prog.loc(m, k["node"]), msg="QQ plots (%s, %s)" % (str(x)[:80], str(y)[:80]))
    if ok:
        xs, ys = x.key(), y.key()
        ok2 = ("call:verif.field.Obs()" in xs or "scores" in xs) and xs != ys
        ctx.ob("C16.4", c.qual + "._plot_core", ok2, "QQ: x is the observation series, y the forecast series", loc=prog.loc(m, k["node"]), msg="QQ axes swapped or identical")


NAN_SWALLOWING = {"nansum", "nanmean", "nan_to_num", "nanmax", "nanmin", "nanmedian", "nanprod", "nanstd", "nanvar", "nancumsum",
                  "call:numpy.nansum", "call:numpy.nanmean", "call:numpy.nan_to_num", "call:numpy.nanmax", "call:numpy.nanmin",
                  "call:numpy.nanmedian", "call:numpy.nanprod", "call:numpy.nancumsum", "call:numpy.nanstd", "call:numpy.nanvar",
                  "mafilled", "call:numpy.ma.filled"}


def _fix_flag(value, name, truth):
    """The value with the boolean attribute ``name`` fixed (conditional expressions on it resolved)."""
    def fn(at):
        if at.func == "ifexp" and isinstance(at.args[0], Rat):
            k = at.args[0].key()
            if k == name:
                return at.args[1] if truth else at.args[2]
            if k == "not(%s)" % name:
                return at.args[2] if truth else at.args[1]
        return None
    try:
        return form.map_atoms(value, fn)
    except form.Undefined:
        return value


def check_standard_xy(ctx):
    """Standard line plots (-m <metric> -x <axis>): column f of the drawn matrix is the metric of input f, and an undefined score stays
    undefined.  The matrix returned by Standard._get_x_y is folded symbolically and taken apart with -acc off: every value written to
    column f comes from metric.compute(data, f, axis, interval) with the SAME f, over the intervals of the -r thresholds, and no
    NaN-discarding reduction (nansum, nanmean, nan_to_num, ...) stands between the metric and the drawn value - that would draw a
    number (0 for nansum) where the score does not exist."""
    prog = ctx.prog
    site = "verif.output.Standard._get_x_y"
    m = prog.module("verif.output")
    f = prog.own_method(site)
    ev = symeval.Evaluator(m)
    ev.loop_mode = "unroll2"
    ev.merge_ifs = True
    try:
        outs = [o for o in ev.run(f) if o.kind == "return"]
    except symeval.Undecided as e:
        raise AnalysisError("%s: cannot be folded (%s)" % (site, e))
    ctx.need(outs, "%s: no return value" % site)
    n = 0
    for o in outs:
        v = o.value
        ctx.need(isinstance(v, (list, tuple)) and len(v) >= 2 and isinstance(v[1], Rat), "%s: the second returned value (y) is not an array expression" % site)
        y = _fix_flag(v[1], "$self.show_acc", False)
        loc = prog.loc(m, o.node)
        comp = [a for a in q.atoms(y) if a.func.endswith("_metric.compute") or a.func == "m:compute"]
        ctx.need(comp, "%s: no metric.compute(...) call reaches the returned matrix" % site)
        # (a) NaN-preserving
        bad = [a for a in q.atoms(y) if a.func in NAN_SWALLOWING and any(("_metric.compute" in x.key() or "m:compute" in x.key()) for x in a.args if isinstance(x, Rat))]
        bad += [a for a in q.atoms(y) if a.func in NAN_SWALLOWING and any(isinstance(x, tuple) and q.mentions(x, "_metric.compute") for x in a.args)]
        n += 1
        ctx.ob("C16.6", site, not bad, "an undefined score stays undefined in the drawn matrix (no NaN-discarding reduction on the metric's values, -acc off)",
               loc=loc, msg="the metric's values pass through %s before they are drawn: a threshold/point where the score is undefined is drawn as a number"
                            % sorted(set(a.func for a in bad)), sample={"rule": "C16.6", "site": site, "compute_calls": len(comp)})
        # (b) column f <- input f: walk the setitem chain of the matrix
        cur, cols = y, []
        while True:
            at = cur.as_atom("setitem") if isinstance(cur, Rat) else None
            if at is None:
                break
            cols.append((at.args[1], at.args[2]))
            cur = at.args[0]
        ctx.need(cols, "%s: the returned matrix is not filled column by column" % site)
        for ix, val in cols:
            last = ix[-1] if isinstance(ix, tuple) and ix and ix[0] != "slice" else ix
            calls = [a for a in q.atoms(val) if a.func.endswith("_metric.compute") or a.func == "m:compute"]
            inputs = set(a.args[1].key() for a in calls if len(a.args) > 1 and isinstance(a.args[1], Rat))
            lk = last.key() if isinstance(last, Rat) else str(last)
            n += 1
            ctx.ob("C16.6", site, bool(calls) and inputs == {lk}, "column [%s] of the matrix holds the metric of input %s" % (lk, lk), loc=loc,
                   msg="column %s of the drawn matrix is computed from input(s) %s" % (lk, sorted(inputs)), expected=lk, found=sorted(inputs))
            ivs = set()
            for a in calls:
                if len(a.args) > 3 and isinstance(a.args[3], Rat):
                    g = a.args[3].as_atom("getitem")
                    ivs.add(g.args[0].key() if g is not None and isinstance(g.args[0], Rat) else a.args[3].key())
            ok_iv = bool(ivs) and all("get_intervals(" in k for k in ivs)
            n += 1
            ctx.ob("C16.6", site, ok_iv, "the metric is evaluated on the intervals of the -r thresholds (util.get_intervals(bin_type, thresholds))", loc=loc,
                   msg="the interval handed to metric.compute is %s" % sorted(k[:80] for k in ivs))
        # (c) by cases: with a data axis (not threshold / obs / fcst) the column is the plain average of the metric over ALL -r intervals,
        # whatever the metric: (sum_i compute(data, f, axis, intervals[i])) / len(intervals)
        thr_axes = None
        for a in q.atoms(y, "ifexp"):
            k = a.args[0].key() if isinstance(a.args[0], Rat) else ""
            if k.startswith("in($axis,(") and "call:verif.axis.Threshold()" in k:
                thr_axes = k
        if thr_axes is not None:
            notin_key = thr_axes.replace("in(", "notin(", 1)
            yd = _fix_flag(_fix_flag(y, thr_axes, False), notin_key, True)
            cur, dcols = yd, []
            while True:
                at = cur.as_atom("setitem") if isinstance(cur, Rat) else None
                if at is None:
                    break
                dcols.append((at.args[1], at.args[2]))
                cur = at.args[0]
            for ix, val in dcols:
                if not isinstance(val, Rat):
                    continue
                calls = [a for a in q.atoms(val) if a.func.endswith("_metric.compute") or a.func == "m:compute"]
                lens = [a for a in q.atoms(val, "len") if a.args and isinstance(a.args[0], Rat) and a.args[0].as_atom() is not None
                        and a.args[0].as_atom().func.endswith("get_intervals")]
                residual = sorted(set(a.args[0].key()[:70] for a in q.atoms(val, "ifexp") if isinstance(a.args[0], Rat)
                                      and "$axis.is_time_like" not in a.args[0].key()))
                ok = bool(calls) and bool(lens) and not residual
                why = ""
                if residual:
                    why = "the column depends on %s" % residual[:2]
                elif not lens:
                    why = "the sum is not divided by the number of intervals"
                if ok:
                    L = Rat.of_atom(lens[0])
                    total = Rat.const(0)
                    for a in set(calls):
                        total = total + Rat.of_atom(a)
                    rest = val * L - total
                    left = [a for a in q.atoms(rest) if a.func.endswith("_metric.compute") or a.func == "m:compute"]
                    idx = set()
                    for a in calls:
                        iv = a.args[3] if len(a.args) > 3 and isinstance(a.args[3], Rat) else None
                        g = iv.as_atom("getitem") if iv is not None else None
                        if g is not None and isinstance(g.args[1], Rat):
                            idx.add(g.args[1].key())                     # intervals[i]
                        elif iv is not None and iv.as_atom() is not None and iv.as_atom().func.startswith("elem"):
                            idx.add(iv.as_atom().func)                   # for interval in intervals
                    ok = not left and len(idx) >= 2 and all("#" in k for k in idx)
                    if not ok:
                        why = "it is %s" % str(val)[:160]
                n += 1
                ctx.ob("C16.6", site, ok, "data axis: the column is the average of the metric over all -r intervals (sum over i of compute(.., intervals[i]) / len(intervals))",
                       loc=loc, msg="with a data axis the drawn / printed score is not the average over the -r thresholds for every metric: %s" % why)
    ctx.floor("C16.6", 7)


def run(ctx):
    ctx.rule("C16.1", "series <-> input <-> label index discipline; obsfcst column layout written = read")
    ctx.rule("C16.2", "binning loops over consecutive edges are half-open; probability bins include the top edge")
    ctx.rule("C16.3", "annotation keys carry the attribute they name")
    ctx.rule("C16.5", "co-selection: per-point arguments of a scatter are subset by the same np.where selections")
    ctx.rule("C16.4", "plot-argument table: taylor, qq (roc, droc, performance, error, murphy: C16.7)")
    check_series_index(ctx)
    check_obsfcst_layout(ctx)
    check_bins(ctx)
    check_annotations(ctx)
    check_coselection(ctx)
    check_plot_args(ctx)
    ctx.rule("C16.7", "series of the murphy, roc, error-decomposition, performance, droc and reliability diagrams by value: the element drawn at the generic index equals the definition as a rational function; provenance of the observed event, the probability, obs/fcst and the series' input")
    from . import c16v
    c16v.check_diagram_values(ctx)
    ctx.rule("C16.8", "maps: the markers on the map of input f are selected and coloured by column f of the score matrix")
    c16v.map_columns(ctx)
    ctx.rule("C16.6", "standard line plots: column f = metric of input f over the -r intervals; undefined scores are not replaced by numbers")
    check_standard_xy(ctx)
    ctx.note("UNCOVERED for C16.4: fss, auto*, timeseries, meteo, against, hist/sort (C07.8), maps, rank, impact, reliability/discrimination series values, "
             "economic value, marginal, freq (C07.8), spread-skill, change, cond, pithist, bsdecomp, igncontrib")


CLAIM = {
    "level": "Partial, structural: index discipline of series/inputs/labels in all 33 output classes, written-vs-read column layout of obsfcst, "
             "comparison shape of every binning loop (half-open, top edge of probability bins), annotation key wiring, the x/y argument pair "
             "of six diagrams, and the column/input/NaN discipline of standard line plots. These are necessary conditions visible in the code; the coordinates of drawn artists are runtime quantities and "
             "most diagrams' series values are explicitly UNCOVERED. C16.7/C16.8 (added): the values of five diagrams' series and the per-input masks of the maps.",
    "note": "Trusted: CPython ast, vsa SHAPE/FORM engines, matplotlib. Known findings: probability bins of reliability / discrimination / "
            "ignorance-contribution drop cases with p = 1.",
    "technique": "static analysis: loop-index discipline lint, normal-form comparison of index polynomials, comparison-shape evaluation of bin "
                 "tests over the finite order-relation domain, key/value wiring, drawing-call argument extraction by symbolic folding; C16.6 the matrix returned by Standard._get_x_y "
                 "folded and taken apart (column f <- metric.compute(data, f, ...), -r intervals, no NaN-discarding reduction); C16.7 the series of the murphy, roc, error-decomposition, performance, droc and reliability diagrams by value: the drawing call's array arguments folded, the element at the generic index read back (vsa/arrays.py), event / probability / obs / fcst sub-terms abstracted into symbols, the rest compared with the definition as a rational function, provenance of the abstracted sub-terms checked structurally; C16.8 score-column index of every mask and colour on the map of input f",
}
