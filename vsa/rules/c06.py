"""C06 - categorical scores equal their 2x2 contingency-table definitions.

Decided (structural clauses): minterm structure of the table counting (C06.1), the 25 formulas by
rational-function identity (C06.2), guards: every denominator / log argument is protected and
no guard returns NaN where the score is defined (C06.3), perfect-table substitution against the
declared perfect_score (C06.4), inf->NaN on the obs/fcst entry point and argument wiring (C06.5).
"""
import ast
import json
import os

from .. import form, symeval
from ..core import AnalysisError, dotted, norm
from ..form import Rat
from ..harness import VERIF_DIR

EXPLANATION = (
    "Static FORM analysis of verif.metric.Contingency and its subclasses: each compute_from_abcd body "
    "is folded by def-use substitution into a multivariate rational function over Q in a,b,c,d (log "
    "as opaque atoms, split over products/quotients) and compared with the reference row by "
    "cross-multiplication - a decision procedure for the formula clause for ALL tables, not a sample. "
    "Guards are checked against the set of denominators and log arguments of each path (polynomial "
    "divisibility, non-negativity of counts). The 2x2 counting is checked as four minterms of "
    "F=f_interval.within(fcst), O=interval.within(obs) under np.ma.sum. Numbers produced at run time "
    "are not examined.")
ASSUMPTIONS = [
    "a, b, c, d are non-negative counts (used to conclude n != 0 from a+c != 0)",
    "numpy float/int division and np.log behave as real arithmetic where defined",
    "Interval.within denotes the event (decided separately in C07)",
]
AUDIT = {"functions": ["verif.metric.Contingency._compute_abcd", "verif.metric.Contingency.compute_from_obs_fcst",
                       "verif.metric.Contingency.compute_single"],
         "class_methods": ("verif.metric.Contingency", "compute_from_abcd")}

SYMS = ["a", "b", "c", "d"]


def load_table():
    with open(os.path.join(VERIF_DIR, "tables", "contingency.json")) as f:
        return json.load(f)["rows"]


def _within_hook(ev, node, rname, args, kwargs, path):
    f = node.func
    if isinstance(f, ast.Attribute) and f.attr == "within" and len(args) == 1:
        base = ev.ev(f.value, path)
        return form.apply("within", [base, args[0]])
    return None


def _nonzero_known(target, facts):
    """Is polynomial ``target`` implied non-zero by the polynomials in ``facts`` being non-zero
    (a, b, c, d >= 0)?"""
    if not target:
        return False
    if form._is_const_poly(target):
        return True
    prod = {(): 1}
    for f in facts:
        prod = form._pmul(prod, f)
    if facts and form.poly_divides(target, prod):
        return True
    if facts and form.poly_divides(target, form._pmul(prod, prod)):
        return True
    # domination: target - f has only non-negative coefficients and f is a non-negative sum
    if all(c > 0 for c in target.values()):
        for f in facts:
            if all(c > 0 for c in f.values()):
                rest = form._padd(target, f, -1)
                if all(c >= 0 for c in rest.values()):
                    return True
    return False


def _zero_implies(z, p):
    """z == 0 implies p == 0 for non-negative cell counts: z has only positive coefficients (so z == 0 means each of its monomials
    is 0) and every monomial of p is a multiple of some monomial of z."""
    if not z or not all(c > 0 for c in z.values()) or () in z:
        return False
    zmon = [dict(m) for m in z]
    for mono in p:
        d = dict(mono)
        if not any(all(d.get(a, 0) >= e for a, e in zm.items()) for zm in zmon):
            return False
    return True


def _path_nonzero_facts(conds):
    facts, opaque = [], []
    for c, pol in conds:
        zs, nzs, ok = symeval.zero_sets(c, pol)
        if not ok:
            opaque.append((c, pol))
            continue
        for r in nzs:
            facts.append(r.num)
    return facts, opaque


def _nan_free(r):
    return isinstance(r, Rat) and not any(a.func in ("$nan", "ifexp") for a in r.atoms(deep=True))


def _inline_hook(prog, depth=2):
    """A score defined through another score -- X().compute_from_abcd(a, b, c, d) -- is evaluated by folding X's body into one value
    ifexp(guard, nan, formula); np.isnan() of such a value is its guard.  """
    def hook(ev, node, rname, args, kwargs, path):
        if isinstance(node.func, ast.Attribute) and node.func.attr == "compute_from_abcd" and isinstance(node.func.value, ast.Call) and depth > 0:
            cname = ev.module.resolve(dotted(node.func.value.func) or "")
            cls = prog.cls(cname, required=False) if cname else None
            hit = prog.lookup_method(cls, "compute_from_abcd") if cls is not None else None
            if hit is None or len(args) != 4:
                return None
            sub = symeval.Evaluator(hit[0].module, call_hook=_inline_hook(prog, depth - 1))
            params = [a.arg for a in hit[1].args.args if a.arg != "self"]
            try:
                outs = [o for o in sub.run(hit[1], env=dict(zip(params, args))) if o.kind == "return"]
            except symeval.Undecided:
                return None
            if not outs:
                return None
            val = outs[-1].value
            for o in reversed(outs[:-1]):
                cond = None
                for c_, pol in o.conds:
                    lit = c_ if pol else form.apply("not", [c_])
                    cond = lit if cond is None else form.apply("and", [cond, lit])
                val = form.apply("ifexp", [cond, o.value, val]) if cond is not None else o.value
            # the callee's own divisions are obligations of the callee (checked where it is defined), not of the caller
            return val
        if rname == "numpy.isnan" and len(args) == 1 and isinstance(args[0], Rat):
            at = args[0].as_atom("ifexp")
            if at is not None and isinstance(at.args[1], Rat) and isinstance(at.args[2], Rat):
                if at.args[1].key() == "$nan" and _nan_free(at.args[2]):
                    return at.args[0]
                if at.args[2].key() == "$nan" and _nan_free(at.args[1]):
                    return form.apply("not", [at.args[0]])
        return None
    return hook


def _resolve_ifexp(value, conds):
    """Replace ifexp(c, x, y) by the branch that the path conditions select."""
    known = {}
    for c_, pol in conds:
        if isinstance(c_, Rat):
            known[c_.key()] = pol
            neg = form.apply("not", [c_])
            known[neg.key()] = not pol

    def fn(at):
        if at.func == "ifexp" and isinstance(at.args[0], Rat) and at.args[0].key() in known:
            return at.args[1] if known[at.args[0].key()] else at.args[2]
        return None
    try:
        return form.map_atoms(value, fn) if isinstance(value, Rat) else value
    except form.Undefined:
        return value


def check_class(ctx, c, table, n_rat):
    prog = ctx.prog
    m = c.module
    site = c.qual + ".compute_from_abcd"
    f = c.methods["compute_from_abcd"]
    loc = prog.loc(m, f)
    ev = symeval.Evaluator(m, call_hook=_inline_hook(prog))
    try:
        outs = ev.run(f)
        for o in outs:
            if o.kind == "return" and isinstance(o.value, Rat) and "ifexp(" in o.value.key():
                o.value = _resolve_ifexp(o.value, o.conds)
                o.divs = [(_resolve_ifexp(d_, o.conds), n_) for d_, n_ in o.divs]
    except symeval.Undecided as e:
        ctx.undecided_item("C06.2", site, "body outside the straight-line fragment: %s" % e)
        raise AnalysisError("%s: compute_from_abcd not expressible (%s)" % (c.qual, e))
    rets = [o for o in outs if o.kind == "return"]
    ctx.need(rets, "%s has no return" % site)
    ctx.need(not [o for o in outs if o.kind in ("fallthrough",)], "%s can fall off its end" % site)
    main = [o for o in rets if not o.is_nan()]
    nans = [o for o in rets if o.is_nan()]
    ctx.need(main, "%s never returns a value" % site)

    # C06.2 formula
    row = table.get(c.name)
    if row is None:
        ctx.undecided_item("C06.2", site, "class not in reference table (UNCOVERED new metric)")
    else:
        ref = symeval.eval_expr_string(row["value"])
        for o in main:
            ok = isinstance(o.value, Rat) and o.value.equals(ref)
            ctx.ob("C06.2", site, ok, "value == %s" % row["value"], loc=loc,
                   msg="%s returns a formula different from its definition" % c.name,
                   expected=row["value"], found=str(o.value)[:400],
                   sample={"rule": "C06.2", "class": c.name, "normal_form": str(o.value)[:300],
                           "reference": row["value"], "equal": ok})

    # C06.3 guards
    needs = []   # polynomials that must be non-zero somewhere on a value path
    for o in main:
        facts, opaque = _path_nonzero_facts(o.conds)
        for cnd, pol in opaque:
            raise AnalysisError("%s: guard of unrecognised shape: %s" % (site, cnd))
        for d, node in getattr(o, "divs", []):
            if not isinstance(d, Rat):
                continue
            needs.append(d.num)
            ok = _nonzero_known(d.num, facts)
            ctx.ob("C06.3", site, ok, "denominator %s guarded" % form._pkey(d.num), loc=prog.loc(m, node),
                   msg="%s divides by %s without a guard: zero gives an exception (Python numbers) or inf/NaN "
                       "instead of the documented NaN" % (c.name, form._pkey(d.num)),
                   sample={"rule": "C06.3", "class": c.name, "denominator": form._pkey(d.num), "guarded": ok})
            # the denominator of the denominator expression must itself be defined
        for l, node in getattr(o, "logs", []):
            if not isinstance(l, Rat):
                continue
            needs.append(l.num)
            ok = _nonzero_known(l.num, facts)
            ctx.ob("C06.3", site, ok, "log argument %s guarded" % form._pkey(l.num), loc=prog.loc(m, node),
                   msg="%s takes the log of %s without excluding zero" % (c.name, l.key()))
    # guards must be necessary: each NaN trigger must make some denominator / log argument vanish
    allneeds = list(needs) + [n_rat.num]
    # denominators evaluated on the way to a NaN return (e.g. inside the guard expression itself)
    for o in nans:
        facts, opaque = _path_nonzero_facts(o.conds[:-1] if o.conds else [])
        for d, node in getattr(o, "divs", []):
            if isinstance(d, Rat):
                ok = _nonzero_known(d.num, facts)
                ctx.ob("C06.3", site, ok, "denominator %s guarded" % form._pkey(d.num), loc=prog.loc(m, node),
                       msg="%s divides by %s (while evaluating a guard) before it is known to be non-zero"
                           % (c.name, form._pkey(d.num)))
        if not o.conds:
            ctx.ob("C06.3", site, False, "unconditional NaN", loc=loc, msg="%s returns NaN unconditionally" % c.name)
            continue
        cnd, pol = o.conds[-1]
        zs, nzs, ok = symeval.zero_sets(cnd, pol)
        if not ok:
            raise AnalysisError("%s: NaN guard of unrecognised shape: %s" % (site, cnd))
        prod = {(): 1}
        for p in allneeds:
            prod = form._pmul(prod, p)
        for z in zs:
            ok = form.poly_divides(z.num, prod) or any(_zero_implies(z.num, p) for p in allneeds)
            ctx.ob("C06.3", site, ok, "guard %s == 0 is an undefined point" % form._pkey(z.num), loc=prog.loc(m, o.node),
                   msg="%s returns NaN when %s == 0 although the score is defined there" % (c.name, z.key()),
                   sample={"rule": "C06.3", "class": c.name, "nan_guard": z.key(), "justified": ok})

    # C06.4 perfect table
    perfect = prog.attr_const(c, "perfect_score")
    if perfect is not None:
        for o in main:
            try:
                v = form.subst(o.value, {"b": Rat.const(0), "c": Rat.const(0)})
            except form.Undefined:
                ctx.note("C06.4 %s: undefined on the perfect table (b=c=0); not compared" % c.name)
                continue
            if any(a.func.startswith("undefined") or a.func in ("log", "log2") for a in v.atoms()):
                ctx.note("C06.4 %s: log terms on the perfect table; not compared" % c.name)
                continue
            cv = v.const_value()
            ok = cv is not None and cv == perfect
            ctx.ob("C06.4", c.qual, ok, "b=c=0 gives perfect_score", loc=loc,
                   msg="%s declares perfect_score=%s but a perfect table gives %s" % (c.name, perfect, v),
                   expected=perfect, found=str(v),
                   sample={"rule": "C06.4", "class": c.name, "perfect_table_value": str(v), "declared": perfect})


def check_abcd(ctx):
    prog = ctx.prog
    cont = prog.cls("verif.metric.Contingency")
    m = cont.module
    site = "verif.metric.Contingency._compute_abcd"
    f = prog.own_method(site)
    ev = symeval.Evaluator(m, call_hook=_within_hook)
    outs = ev.run(f)
    rets = [o for o in outs if o.kind == "return" and isinstance(o.value, list) and len(o.value) == 4]
    ctx.need(len(rets) >= 2, "%s: expected list returns [a, b, c, d]" % site)
    counted = 0
    for o in rets:
        vals = o.value
        if all(isinstance(v, Rat) and v.key() == "$nan" for v in vals):
            # the empty-input path
            continue
        counted += 1
        _check_minterms(ctx, "C06.1", site, vals, prog.loc(m, f), o, default_path=_is_default_path(o))
    ctx.need(counted >= 2, "%s: fewer than 2 counting paths recognised" % site)

    # Roc keeps a private copy of the table
    roc = prog.cls("verif.output.Roc", required=False)
    if roc is not None and "_plot_core" in roc.methods:
        rf = roc.methods["_plot_core"]
        found = {}
        ev2 = symeval.Evaluator(roc.module, call_hook=_within_hook)
        for st in ast.walk(rf):
            if isinstance(st, ast.Assign) and len(st.targets) == 1 and isinstance(st.targets[0], ast.Name) \
                    and st.targets[0].id in SYMS and isinstance(st.value, ast.Call):
                if roc.module.resolve(dotted(st.value.func)) == "numpy.ma.sum":
                    found[st.targets[0].id] = ev2.ev(st.value, symeval.Path({}, []))
        if len(found) == 4:
            _check_minterms(ctx, "C06.1", "verif.output.Roc._plot_core", [found[k] for k in SYMS],
                            prog.loc(roc.module, rf), None, default_path=False)
        else:
            ctx.note("Roc._plot_core: private 2x2 table not found (%s)" % sorted(found))


def _is_default_path(o):
    for c, pol in o.conds:
        if "f_interval" in c.key() and "None" in c.key() and pol:
            return True
    return False


def _check_minterms(ctx, rule, site, vals, loc, outcome, default_path):
    names = ["a (hit)", "b (false alarm)", "c (miss)", "d (correct rejection)"]
    # expected pattern: masum(and(F, O)), masum(and(F, !O)), masum(and(!F, O)), masum(and(!F, !O))
    def parts(v):
        at = v.as_atom("masum") if isinstance(v, Rat) else None
        if at is None:
            return None
        inner = at.args[0].as_atom("and") if isinstance(at.args[0], Rat) else None
        if inner is None or len(inner.args) != 2:
            return None
        lits = []
        for x in inner.args:
            a = x.as_atom()
            if a is None:
                return None
            if a.func == "within":
                lits.append((a, True))
            elif a.func == "cmp_eq" and a.args[1].is_zero() and a.args[0].as_atom("within") is not None:
                lits.append((a.args[0].as_atom("within"), False))
            else:
                return None
        return lits
    P = [parts(v) for v in vals]
    if any(p is None for p in P):
        ctx.ob(rule, site, False, "four cells are np.ma.sum of a conjunction of two membership literals", loc=loc,
               msg="2x2 cell is not np.ma.sum(F-literal & O-literal): %s" % [str(v)[:120] for v in vals])
        return
    # identify F (argument fcst) and O (argument obs)
    def pick(lits, sym):
        for a, pol in lits:
            if isinstance(a.args[1], Rat) and a.args[1].key() == sym:
                return a, pol
        return None, None
    expect = [(True, True), (True, False), (False, True), (False, False)]
    F0 = O0 = None
    for k, lits in enumerate(P):
        Fa, Fp = pick(lits, "$fcst")
        Oa, Op = pick(lits, "$obs")
        ok = Fa is not None and Oa is not None and (Fp, Op) == expect[k]
        if ok:
            F0 = F0 or Fa
            O0 = O0 or Oa
            ok = Fa is F0 and Oa is O0
        ctx.ob(rule, site, ok, "cell %s = sum(%sF & %sO)" % (names[k], "" if expect[k][0] else "not ",
                                                              "" if expect[k][1] else "not "),
               loc=loc, msg="cell %s counts the wrong minterm: %s" % (names[k], vals[k]),
               sample={"rule": rule, "site": site, "cell": names[k], "form": str(vals[k])[:200]})
    if default_path and F0 is not None and O0 is not None:
        same = isinstance(F0.args[0], Rat) and isinstance(O0.args[0], Rat) and \
            form.subst(F0.args[0], {"fcst": Rat.sym("obs")}).equals(O0.args[0])
        ctx.ob(rule, site, same, "f_interval defaults to the observation interval", loc=loc,
               msg="when no forecast interval is given the forecast event uses %s, the observation event %s"
                   % (F0.args[0], O0.args[0]))


def check_entry(ctx):
    prog = ctx.prog
    cont = prog.cls("verif.metric.Contingency")
    m = cont.module
    site = "verif.metric.Contingency.compute_from_obs_fcst"
    f = prog.own_method(site)
    ev = symeval.Evaluator(m)
    outs = [o for o in ev.run(f) if o.kind == "return"]
    ctx.need(outs, "%s has no return" % site)
    saw_value = False
    for o in outs:
        if o.is_nan():
            continue
        v = o.value
        at = v.as_atom() if isinstance(v, Rat) else None
        good = at is not None and at.func == "self.compute_from_abcd"
        if good:
            saw_value = True
            args_ok = all(isinstance(x, Rat) for x in at.args[:4]) and len(at.args) >= 4
            # the four arguments are elements 0..3 of _compute_abcd's result, in order
            idx = []
            for x in at.args[:4]:
                g = x.as_atom("getitem")
                idx.append(g.args[1].const_value() if g is not None and isinstance(g.args[1], Rat) else None)
            ctx.ob("C06.5", site, args_ok and idx == [0, 1, 2, 3], "a,b,c,d passed in table order", loc=prog.loc(m, f),
                   msg="compute_from_abcd receives the table cells in order %s" % idx)
            guarded = any((not pol) and c.as_atom() is not None and c.as_atom().func == "isinf"
                          and c.as_atom().args[0].equals(v) for c, pol in o.conds)
            ctx.ob("C06.5", site, guarded, "infinite score mapped to NaN", loc=prog.loc(m, o.node),
                   msg="the score is returned without the isinf -> NaN guard",
                   sample={"rule": "C06.5", "site": site, "conds": [(c.key(), p) for c, p in o.conds]})
    ctx.need(saw_value, "%s: no path returns compute_from_abcd(...)" % site)

    # compute_single: obs/fcst requested in this order and passed on in this order with the interval
    site2 = "verif.metric.Contingency.compute_single"
    f2 = prog.own_method(site2)
    outs2 = [o for o in symeval.Evaluator(m).run(f2) if o.kind == "return"]
    ctx.need(len(outs2) == 1, "%s: expected one return" % site2)
    at = outs2[0].value.as_atom()
    ok = at is not None and at.func == "self.compute_from_obs_fcst" and len(at.args) >= 3
    if ok:
        g0, g1 = at.args[0].as_atom("getitem"), at.args[1].as_atom("getitem")
        ok = g0 is not None and g1 is not None and g0.args[0].equals(g1.args[0]) \
            and g0.args[1].const_value() == 0 and g1.args[1].const_value() == 1 \
            and at.args[2].key() == "$interval"
        if ok:
            call = g0.args[0].as_atom()
            ok = call is not None and call.func == "call:data.get_scores" and isinstance(call.args[0], tuple) \
                and [x.key() for x in call.args[0]] == ["call:verif.field.Obs()", "call:verif.field.Fcst()"]
    ctx.ob("C06.5", site2, ok, "obs, fcst, interval wired from get_scores([Obs, Fcst])", loc=prog.loc(m, f2),
           msg="compute_single does not pass (obs, fcst, interval) from get_scores([Obs(), Fcst()]): %s" % outs2[0].value)


def run(ctx):
    prog = ctx.prog
    ctx.rule("C06.1", "the four cells are the minterms of F=f_interval.within(fcst), O=interval.within(obs) under np.ma.sum")
    ctx.rule("C06.2", "compute_from_abcd equals the reference rational function (cross-multiplication)")
    ctx.rule("C06.3", "every denominator/log argument is guarded; every NaN guard is an undefined point")
    ctx.rule("C06.4", "b=c=0 substitution yields the declared perfect_score")
    ctx.rule("C06.5", "entry points: cells passed in order, inf->NaN, obs/fcst/interval wiring")
    table = load_table()
    n_rat = symeval.eval_expr_string("a+b+c+d")
    classes = [c for c in prog.subclasses("verif.metric.Contingency", "verif.metric") if "compute_from_abcd" in c.methods]
    for c in sorted(classes, key=lambda c: c.name):
        check_class(ctx, c, table, n_rat)
    missing = sorted(set(table) - set(c.name for c in classes))
    ctx.need(not missing, "reference rows without a class in verif.metric: %s" % missing)
    check_abcd(ctx)
    check_entry(ctx)
    ctx.floor("C06.2", 25)
    ctx.floor("C06.1", 8)
    ctx.floor("C06.3", 30)
    ctx.floor("C06.5", 3)

    # controls: the formula rule distinguishes a perturbed formula and accepts an equivalent rewrite
    ref = symeval.eval_expr_string(table["Ets"]["value"])
    alt = symeval.eval_expr_string("(a*d-b*c)/((a+b+c)*(a+b+c+d)-(a+b)*(a+c))")
    bad = symeval.eval_expr_string("(a - (a+b)*(a+c)/(a+b+c+d)) / (a+b+c + (a+b)*(a+c)/(a+b+c+d))")
    ctx.control("C06.2", ref.equals(alt), "equivalent rewriting of ETS accepted")
    ctx.control("C06.2", not ref.equals(bad), "perturbed ETS rejected")
    ctx.control("C06.3", _nonzero_known(symeval.eval_expr_string("(a+c)*(b+d)").num,
                                        [symeval.eval_expr_string("a+c").num, symeval.eval_expr_string("b+d").num])
                and not _nonzero_known(symeval.eval_expr_string("a+b").num, [symeval.eval_expr_string("a+c").num]),
                "guard implication: product covered, unrelated sum not covered")

CLAIM = {
    "level": "Static proof of the formula clause: each of the 25 compute_from_abcd bodies is folded into a rational function of "
             "a,b,c,d and shown identical to its reference definition for ALL tables (cross-multiplication); guards are checked "
             "against the denominators/log arguments of every path; the 2x2 counting is checked as four minterms; entry-point wiring "
             "and inf->NaN are structural. Numbers on concrete data are not examined.",
    "note": "Trusted: CPython ast, vsa FORM engine (polynomial arithmetic over Q), /verif/tables/contingency.json, real-arithmetic "
            "reading of numpy division/log, non-negativity of counts. Interval.within is decided in C07. Not decided: resampling variant.",
    "technique": "static analysis: AST def-use folding to rational-function normal form, identity by cross-multiplication; "
                 "guard/denominator divisibility; minterm pattern",
}
