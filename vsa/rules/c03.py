"""C03 - verified dimensions = intersection of inputs and the user's subset."""
import ast

from .. import form, q, trace, symeval
from ..core import AnalysisError, dotted, norm, calls_in, call_name, const
from ..form import Rat

EXPLANATION = (
    "SHAPE/WIRE/ORDER analysis of Data.__init__, Data._get_common_indices and Data.get_scores by symbolic folding with an "
    "event log: the six range comparisons pair Location.lat|lon|elev with element 0 (>=) and element 1 (<=) of the matching "
    "range parameter; -obsrange masks exactly the complement of the inclusive range on the observation field; the common "
    "values are folded over ALL inputs with an intersection, seeded with the user's list exactly when one is given, made "
    "unique per input, sorted ascending and NaN-filtered; -lx is applied after all other location filters; the time indices "
    "and every axis cache are recomputed from the final list of times after -d/-tod; the -d/-tod membership tests have the "
    "documented form; the three 'nothing selected' error exits and the empty-slice NaN sentinel exist.")
ASSUMPTIONS = ["np.intersect1d / np.unique / np.sort do what their names say", "ids are numeric"]
AUDIT = {"functions": ["verif.data.Data.__init__", "verif.data.Data._get_common_indices", "verif.data.Data.get_scores"]}


def S(n):
    return Rat.sym(n)


def _cmp_parts(c):
    """cmp_le(a, b) / cmp_lt(a, b) -> (op, a, b)."""
    at = c.as_atom() if isinstance(c, Rat) else None
    if at is None or at.func not in ("cmp_le", "cmp_lt"):
        return None
    return at.func, at.args[0], at.args[1]


def _pure(r):
    """The value is a stored quantity itself (an attribute, an element of a list of attributes, a range element or a default
    constant, possibly through float()), with no arithmetic applied on the way."""
    if not isinstance(r, Rat):
        return False
    if r.is_const():
        return True
    at = r.as_atom()
    if at is None:
        return False
    if at.func.startswith("$") or at.func.startswith("attr:") or at.func.startswith("elem"):
        return True
    if at.func in ("float", "call:float", "getitem", "map", "nparray", "pylist") and at.args:
        return _pure(at.args[0])
    if at.func == "ifexp":
        return _pure(at.args[1]) and _pure(at.args[2])
    return False


def check_ranges(ctx, ev):
    prog = ctx.prog
    site = "verif.data.Data.__init__"
    m = prog.module("verif.data")
    found = {}
    # selection predicates, however the selection is written: the condition guarding an append in a loop, or the filter of a
    # comprehension (map(element, sequence, condition...)) in any assigned value
    preds = []
    for e in trace.calls(ev):
        if not e["name"].endswith(".append") or not e["conds"]:
            continue
        cond, pol = e["conds"][-1]
        if pol:
            preds.append((cond, e))
    seen_maps = set()
    for e in ev.events:
        if e["kind"] != "assign" or not isinstance(e.get("value"), Rat):
            continue
        for at in q.atoms(e["value"], "map"):
            if len(at.args) > 2 and at.id not in seen_maps:
                seen_maps.add(at.id)
                for cnd in at.args[2:]:
                    if isinstance(cnd, Rat):
                        preds.append((cnd, e))
    for cond, e in preds:
        leaves = q.leaves(cond, "and")
        for lf in leaves:
            parts = _cmp_parts(lf)
            if parts is None:
                continue
            op, a, b = parts
            for attr, rng in (("lat", "lat_range"), ("lon", "lon_range"), ("elev", "elev_range")):
                a_attr = any(x.func == "attr:" + attr for x in q.atoms(a))
                b_attr = any(x.func == "attr:" + attr for x in q.atoms(b))
                if not (a_attr or b_attr):
                    continue
                bound = b if a_attr else a
                side = "upper" if a_attr else "lower"       # x <= bound  /  bound <= x
                rngs = [r for r in ("lat_range", "lon_range", "elev_range") if "$" + r in bound.key()]
                idxs = [g.args[1].const_value() for g in q.atoms(bound, "getitem")
                        if isinstance(g.args[0], Rat) and g.args[0].key() in ("$lat_range", "$lon_range", "$elev_range") and isinstance(g.args[1], Rat)]
                value = a if a_attr else b
                found[(attr, side)] = {"op": op, "ranges": rngs, "idx": idxs, "node": e["node"], "pure": _pure(value) and _pure(bound),
                                       "value": str(value)[:120], "bound": str(bound)[:80]}
    for attr, rng in (("lat", "lat_range"), ("lon", "lon_range"), ("elev", "elev_range")):
        for side, want_idx in (("lower", 0), ("upper", 1)):
            f = found.get((attr, side))
            ok = f is not None and f["op"] == "cmp_le" and f["ranges"] == [rng] and f["idx"] == [want_idx] and f["pure"]
            ctx.ob("C03.1", site, ok, "Location.%s %s element %d of %s (inclusive)" % (attr, ">=" if side == "lower" else "<=", want_idx, rng),
                   loc=prog.loc(m, f["node"]) if f else None,
                   msg="the %s bound of the %s filter is %s" % (side, attr, "missing" if f is None else
                                                                   "%s against element %s of %s%s" % ("strict" if f["op"] == "cmp_lt" else "inclusive", f["idx"], f["ranges"],
                                                                                                       "" if f["pure"] else "; compared are %s and %s, not the station's own %s and the given limit"
                                                                                                       % (f["value"], f["bound"], attr))),
                   sample={"rule": "C03.1", "attr": attr, "side": side, "found": {k: v for k, v in (f or {}).items() if k != "node"}})


def check_obsrange(ctx):
    prog = ctx.prog
    site = "verif.data.Data.get_scores"
    m = prog.module("verif.data")
    ev = trace.trace(prog, site)
    # whatever the masked array is called, and whether the two bounds are two stores or one store with `below | above`
    st0 = [e for e in trace.stores(ev) if len(e["indices"]) == 1 and isinstance(e["indices"][0], Rat) and "$self._obs_range" in e["indices"][0].key()]
    st = []
    for e in st0:
        for lf in q.leaves(e["indices"][0], "or"):
            st.append(dict(e, indices=[lf]))
    lows = highs = 0
    for e in st:
        ix = e["indices"][0]
        parts = _cmp_parts(ix)
        if parts is None or not (isinstance(e["value"], Rat) and e["value"].key() == "$nan"):
            continue
        op, a, b = parts
        obs_only = q.has_cond(e["conds"], lambda c: "call:verif.field.Obs()" in c.key() and "$self._obs_range" in c.key(), True)
        ga = [g for g in [q.top(a, "getitem")] if g is not None and isinstance(g.args[0], Rat) and g.args[0].key() == "$self._obs_range"]
        gb = [g for g in [q.top(b, "getitem")] if g is not None and isinstance(g.args[0], Rat) and g.args[0].key() == "$self._obs_range"]
        if gb and not ga:     # value < range[k]
            k = gb[0].args[1].const_value()
            lows += 1
            ctx.ob("C03.1", site, op == "cmp_lt" and k == 0 and obs_only, "-obsrange: observations strictly below element 0 are removed", loc=prog.loc(m, e["node"]),
                   msg="-obsrange lower bound: removes values %s element %s%s" % ("<" if op == "cmp_lt" else "<=", k, "" if obs_only else " (not restricted to the observation field)"))
        elif ga and not gb:   # range[k] < value
            k = ga[0].args[1].const_value()
            highs += 1
            ctx.ob("C03.1", site, op == "cmp_lt" and k == 1 and obs_only, "-obsrange: observations strictly above element 1 are removed", loc=prog.loc(m, e["node"]),
                   msg="-obsrange upper bound: removes values %s element %s%s" % (">" if op == "cmp_lt" else ">=", k, "" if obs_only else " (not restricted to the observation field)"))
    ctx.need(lows >= 1 and highs >= 1, "%s: the two -obsrange masking stores were not found" % site)
    # the range is applied on every request of the observation field (no one-shot flag, no other condition)
    for e in st:
        if not (isinstance(e["value"], Rat) and e["value"].key() == "$nan"):
            continue
        extra = []
        for c, pol in e["conds"]:
            k = c.key()
            if "_get_scores_cache" in k or "$input_index" in k or k.startswith("exception("):
                continue        # cache hit / argument check of the enclosing function
            for lf in q.leaves(c, "and"):
                lk = lf.key()
                if lk == "cmp_ne($None - $self._obs_range,0)" and pol:
                    continue
                if "call:verif.field.Obs()" in lk and lf.as_atom() is not None and lf.as_atom().func == "cmp_eq" and pol \
                        and "$self." not in lk:
                    continue
                extra.append(lk[:80])
        ctx.ob("C03.1", site, not extra, "-obsrange masking depends only on the field being Obs and the range being given", loc=prog.loc(m, e["node"]),
               msg="-obsrange masking is additionally conditional on %s: it is not applied on every request / for every input" % extra)
    # empty selection -> NaN sentinel
    sent = [a for a in trace.assigns(ev, "scores") if q.has_cond(a["conds"], lambda c: "attr:shape" in c.key() and c.as_atom() is not None and c.as_atom().func == "cmp_eq", True)]
    ok = bool(sent) and all(q.mentions(a["value"], "$nan") for a in sent)
    ctx.ob("C03.5", site, ok, "an empty slice is replaced by a NaN sentinel", msg="get_scores no longer replaces an empty result by NaN")


def check_common_values(ctx):
    prog = ctx.prog
    site = "verif.data.Data._get_common_indices"
    m = prog.module("verif.data")
    from . import c02
    final, ev = c02.common_values(prog, "Time")
    ctx.need(final is not None, "%s: the list of common values was not found in the index lookup" % site)
    loc = prog.loc(m, prog.func(site))
    # NaN filter on top of a sort
    g = q.top(final, "getitem")
    nanfilter = g is not None and isinstance(g.args[1], Rat) and g.args[1].equals(form.apply("cmp_eq", [form.apply("isnan", [g.args[0]]), Rat.const(0)]))
    ctx.ob("C03.2", site, nanfilter, "missing (NaN) dimension values are removed from the common values", loc=loc, msg="no isnan==0 filter on the common values")
    inner = g.args[0] if g is not None else final
    srt = q.top(inner, "sort")
    ctx.ob("C03.2", site, srt is not None, "common values are sorted ascending", loc=loc, msg="the common values are not passed through np.sort")
    body = srt.args[0] if srt is not None else inner
    inter = q.atoms(body, "call:numpy.intersect1d")
    ctx.ob("C03.2", site, len(inter) >= 2, "common values are an intersection across inputs (and the user's list)", loc=loc,
           msg="np.intersect1d is not used to combine the inputs: %s" % str(body)[:200])
    # every per-input operand is unique()d, both unrolled inputs take part
    uniq = q.atoms(body, "unique")
    both = any("elem#1($inputs)" in Rat.of_atom(u).key() for u in uniq) and any("elem#2($inputs)" in Rat.of_atom(u).key() for u in uniq)
    ctx.ob("C03.2", site, both, "every input contributes its (de-duplicated) values to the intersection", loc=loc,
           msg="not every input's values enter the intersection")
    # loop over all inputs
    outer = [l for l in ev.loops if isinstance(l["iter"], Rat) and l["iter"].key() in ("$inputs", "call:enumerate($inputs)")]
    ctx.ob("C03.2", site, len(outer) >= 2, "the fold ranges over all inputs", loc=loc, msg="the loop does not range over `inputs`")
    # seeded with the user's list exactly when one is given
    seeds = []
    for a in q.atoms(body, "ifexp"):
        c = a.args[0]
        if "$aux" in c.key() and "$None" in c.key():
            seeds.append(c)
    ok = bool(seeds) and all(c.key() == "cmp_eq($None - $aux,0)" for c in seeds)
    ctx.ob("C03.2", site, ok, "the user's list restricts the result exactly when it is given (is None test only)", loc=loc,
           msg="the user-supplied list is ignored/used under %s (an empty selection would silently select everything)"
               % sorted(set(c.key() for c in seeds)),
           sample={"rule": "C03.2", "seed_conditions": sorted(set(c.key() for c in seeds))})
    # unconditional intersection with aux when given
    uses_aux = any("$aux" in Rat.of_atom(a).key() for a in inter)
    ctx.ob("C03.2", site, uses_aux, "the user's list takes part in the intersection", loc=loc, msg="aux does not reach np.intersect1d")


def check_init(ctx):
    prog = ctx.prog
    site = "verif.data.Data.__init__"
    m = prog.module("verif.data")
    ev = trace.trace(prog, site, env={"inputs": S("INPUTS")})
    check_ranges(ctx, ev)
    # -lx last: the location list handed to the intersection
    calls = [c for c in trace.calls(ev, "self._get_common_indices")]
    ctx.need(len(calls) >= 3, "%s: expected one _get_common_indices call per dimension" % site)
    by_axis = {}
    for c in calls:
        ax = c["args"][1].key() if len(c["args"]) > 1 else "?"
        by_axis.setdefault(ax, []).append(c)
    locs = by_axis.get("call:verif.axis.Location()", [])
    ctx.need(len(locs) == 1 and len(locs[0]["args"]) == 3, "%s: location intersection call not recognised" % site)
    use = locs[0]["args"][2]
    top = q.top(use, "ifexp")
    ok = top is not None and top.args[0].key() == "cmp_ne($None - $locations_x,0)"
    if ok:
        filt = q.top(top.args[1], "map")
        ok = filt is not None and len(filt.args) == 3 and filt.args[2].as_atom() is not None and filt.args[2].as_atom().func == "notin" \
            and "$locations_x" in filt.args[2].key() and filt.args[1].equals(top.args[2])
        rest = top.args[2]
        mentions = all(t in rest.key() for t in ("$elev_range", "$lat_range", "$locations"))
        ok = ok and mentions
    ctx.ob("C03.4", site, ok, "-lx is applied last, to the result of -l / -latrange / -lonrange / -elevrange", loc=prog.loc(m, locs[0]["node"]),
           msg="the location list reaching the intersection is %s" % str(use)[:200])
    # all inputs incl. climatology are intersected (the list passed is self._inputs after the climatology was appended)
    for ax, cs in sorted(by_axis.items()):
        for c in cs:
            a0 = c["args"][0]
            ok = isinstance(a0, Rat) and "$clim" in a0.key()
            ctx.ob("C03.2", site, ok, "%s: the intersection is taken over the inputs including the climatology" % ax.replace("call:verif.axis.", ""),
                   loc=prog.loc(m, c["node"]), msg="_get_common_indices receives %s" % str(a0)[:120])
    # user lists reach the right axis
    want = {"call:verif.axis.Time()": "$times", "call:verif.axis.Leadtime()": "$leadtimes"}
    for ax, par in want.items():
        cs = by_axis.get(ax, [])
        ok = bool(cs) and cs[0]["args"][2].key() == par
        ctx.ob("C03.6", site, ok, "%s seeds the %s intersection" % (par[1:], ax.replace("call:verif.axis.", "")),
               loc=prog.loc(m, cs[0]["node"]) if cs else None, msg="the %s intersection is seeded with %s" % (ax, cs[0]["args"][2] if cs else None))
    # C03.3 recomputation after -d / -tod
    fall = [o for o in ev.outcomes if o.kind == "fallthrough"]
    ctx.need(len(fall) == 1, "%s: one normal exit expected" % site)
    env = fall[0].env
    t_final = env.get("self.times")
    ti_final = env.get("self._timesI")
    ctx.need(isinstance(t_final, Rat) and isinstance(ti_final, Rat), "%s: self.times / self._timesI not found" % site)
    at = q.top(ti_final, "self._get_common_indices")
    ok = at is not None and len(at.args) == 3 and at.args[1].key() == "call:verif.axis.Time()" and at.args[2].equals(t_final)
    ctx.ob("C03.3", site, ok, "the time indices are recomputed from the final list of times (after -d / -tod)", loc=prog.loc(m, fall[0].node),
           msg="self._timesI is %s but self.times ends up as %s" % (str(ti_final)[:120], str(t_final)[:120]))
    ctc = [c for c in trace.calls(ev) if c["name"].endswith("compute_from_times")]
    ctx.need(ctc, "%s: axis caches (compute_from_times) not found" % site)
    for c in ctc:
        ok = c["args"] and isinstance(c["args"][-1], Rat) and c["args"][-1].equals(t_final)
        ctx.ob("C03.3", site, ok, "time-derived axis values are computed from the final list of times", loc=prog.loc(m, c["node"]),
               msg="compute_from_times is applied to a list of times that is not the final one (the -d/-tod filters come later)")
    clc = [c for c in trace.calls(ev) if c["name"].endswith("compute_from_leadtimes")]
    lt_final = env.get("self.leadtimes")
    for c in clc:
        ok = c["args"] and isinstance(c["args"][-1], Rat) and isinstance(lt_final, Rat) and c["args"][-1].equals(lt_final)
        ctx.ob("C03.3", site, ok, "lead-time-derived axis values are computed from the final lead times", loc=prog.loc(m, c["node"]),
               msg="compute_from_leadtimes is applied to something other than self.leadtimes")
    # form of the -d and -tod filters
    t0 = form.apply("self._get_times", [])
    ref_d = symeval.eval_expr_string("int(t / 86400) * 86400")
    ref_h = symeval.eval_expr_string("int(t % 86400) / 3600")
    filters = [a for a in q.atoms(t_final, "map") if len(a.args) == 3]
    got_d = got_h = False
    for a in filters:
        cond = a.args[2].as_atom()
        if cond is None or cond.func != "in":
            continue
        elem = form.apply("elem", [a.args[1]])
        left = cond.args[0]
        if "$tods" in cond.args[1].key() if isinstance(cond.args[1], Rat) else False:
            got_h = True
            ok = left.equals(form.subst(ref_h, {"t": elem})) and a.args[0].equals(elem)
            ctx.ob("C03.3", site, ok, "-tod keeps the times with (t mod 86400)/3600 in the given hours", loc=prog.loc(m, fall[0].node),
                   msg="the -tod test is %s in tods" % left)
        else:
            got_d = True
            right = cond.args[1]
            okr = isinstance(right, Rat) and q.top(right, "map") is not None and "call:verif.util.date_to_unixtime(elem($dates))" in right.key()
            ok = left.equals(form.subst(ref_d, {"t": elem})) and a.args[0].equals(elem) and okr
            ctx.ob("C03.3", site, ok, "-d keeps the times whose day (floor to 86400 s) is one of the given dates", loc=prog.loc(m, fall[0].node),
                   msg="the -d test is %s in %s" % (left, str(right)[:100]))
    ctx.ob("C03.3", site, got_d and got_h, "both the -d and the -tod filter act on self.times", loc=prog.loc(m, fall[0].node),
           msg="the -d / -tod filter on self.times was not found in the final value of self.times")
    # C03.5 error exits
    errs = [o for o in ev.outcomes if o.kind == "error"]
    want = {"self._timesI": False, "self._leadtimesI": False, "self._locationsI": False}
    for o in errs:
        if not o.conds:
            continue
        c, pol = o.conds[-1]
        at = c.as_atom()
        if pol and at is not None and at.func == "cmp_eq" and "len(getitem(self._get_common_indices(" in c.key():
            for ax, name in (("Time", "self._timesI"), ("Leadtime", "self._leadtimesI"), ("Location", "self._locationsI")):
                if "call:verif.axis.%s()" % ax in c.key().split("len(getitem(")[1][:4000] and c.key().count("self._get_common_indices(") == 1:
                    want[name] = True
    for name, ok in want.items():
        ctx.ob("C03.5", site, ok, "empty %s selection stops with an error" % name[6:-1], msg="the 'No valid ...' error exit for %s is gone" % name)
    return ev


def check_driver_wiring(ctx):
    """The nine subsetting options reach the matching Data(...) keyword (C03.6, shared with C13)."""
    prog = ctx.prog
    site = "verif.driver.run"
    m = prog.module("verif.driver")
    f = prog.func(site)
    want = {"-l": ("locations", "locations"), "-lx": ("locations_x", "locations_x"), "-latrange": ("lat_range", "lat_range"),
            "-lonrange": ("lon_range", "lon_range"), "-elevrange": ("elev_range", "elev_range"), "-obsrange": ("obs_range", "obs_range"),
            "-t": ("times", "times"), "-d": ("dates", "dates"), "-tod": ("tods", "tods"), "-o": ("leadtimes", "leadtimes")}
    # flag -> local variable
    flag_var = {}
    for n in ast.walk(f):
        if isinstance(n, ast.If) and isinstance(n.test, ast.Compare) and dotted(n.test.left) == "arg" and len(n.test.comparators) == 1:
            flag = const(n.test.comparators[0])
            if isinstance(flag, str):
                for st in n.body:
                    if isinstance(st, ast.Assign) and len(st.targets) == 1 and isinstance(st.targets[0], ast.Name):
                        flag_var.setdefault(flag, []).append((st.targets[0].id, st.value))
    kw = {}
    for call in calls_in(f):
        if call_name(m, call) == "verif.data.Data":
            for k in call.keywords:
                kw[k.arg] = dotted(k.value)
    for flag, (var, param) in sorted(want.items()):
        vs = [v for v, _ in flag_var.get(flag, [])]
        ok = vs == [var] and kw.get(param) == var
        ctx.ob("C03.6", site, ok, "%s -> %s -> Data(%s=)" % (flag, var, param), loc=prog.loc(m, f),
               msg="%s is stored in %s and Data(%s=%s)" % (flag, vs, param, kw.get(param)))
        for v, val in flag_var.get(flag, []):
            src = norm(val)
            parser_ok = "arg_next" in src and ("parse_numbers" in src)
            date_ok = (flag != "-d") or ("True" in src or "is_date" in src or "parse_dates" in src)
            ctx.ob("C03.6", site, parser_ok and date_ok, "%s is parsed as a %s vector from its own argument" % (flag, "date" if flag == "-d" else "number"),
                   loc=prog.loc(m, val), msg="%s is parsed by %s" % (flag, src))


def run(ctx):
    ctx.rule("C03.1", "inclusive lat/lon/elev ranges on the right attribute and element; -obsrange masks the complement on Obs only")
    ctx.rule("C03.2", "intersection over all inputs (incl. climatology) and the user's list; unique, sorted, NaN-free")
    ctx.rule("C03.3", "indices and axis caches recomputed from the final times after -d/-tod; form of the two filters")
    ctx.rule("C03.4", "-lx applied after all other location filters")
    ctx.rule("C03.5", "nothing selected -> error exit / NaN sentinel")
    ctx.rule("C03.6", "the subsetting options reach the matching constructor parameters")
    check_init(ctx)
    check_obsrange(ctx)
    check_common_values(ctx)
    check_driver_wiring(ctx)
    ctx.floor("C03.1", 9)
    ctx.floor("C03.2", 10)
    ctx.floor("C03.3", 5)
    ctx.floor("C03.6", 20)


CLAIM = {
    "level": "Static analysis of the subsetting mechanism: comparison shapes and operand provenance of the six range tests and of -obsrange; "
             "structure of the common-value computation (fold over all inputs, intersection, seed condition, unique/sort/NaN filter); "
             "ordering facts (recomputation after -d/-tod, -lx last); error exits. All are necessary conditions visible in the code for "
             "every input and option value; no dataset is built.",
    "note": "Trusted: CPython ast, vsa symbolic folding with event log, numpy intersect1d/unique/sort semantics. Not decided: behaviour of "
            "parse_numbers on concrete strings (C13), non-numeric ids.",
    "technique": "static analysis: symbolic folding with event log; comparison-shape and operand provenance; must-happen-after ordering; "
                 "structural pattern of the fold",
}
