"""C20 - helper scripts transform files as documented."""
import ast

from .. import form, q, symeval, trace, ncwriter
from ..core import AnalysisError, const, dotted, norm
from ..form import Rat

EXPLANATION = (
    "The (variable, dimensions, dtype, value) table each script writes is extracted from its source by symbolic folding and "
    "checked: coordinates and location metadata are passed through from the input (time, leadtime, location id, lat, lon, "
    "altitude <- times, leadtimes, loc.id, loc.lat, loc.lon, loc.elev), fields that are not transformed are written from the "
    "corresponding input attribute, data variables have dimension order (time, leadtime, location[, 4th]). accumulate: the "
    "window sum is a 'valid' convolution with a kernel of ones that has the window on the dimension position of the chosen axis, "
    "stored from index window-1 on with NaN before, and the cumulative mode sums along the same axis number; ens2prob: the CDF is "
    "the NaN-aware mean over the member axis of a comparison evaluated on the non-missing members only (hence in [0,1] and "
    "non-decreasing in the threshold), quantiles are read from the members sorted along the member axis, PIT is the mean of "
    "(member < observation) over the member axis with cases re-masked where the observation is missing; expandverif: an "
    "observation is placed where input valid time (time + 3600*leadtime) equals requested init + 3600*lead, first match, and "
    "cells without a match keep the missing value.")
ASSUMPTIONS = ["scipy.signal.convolve / scipy.interpolate.interp1d / numpy reductions are trusted", "no script is run"]
AUDIT = {"functions": ["scripts.accumulate.convolve", "scripts.accumulate.main", "scripts.ens2prob.main", "scripts.expandverif.main", "scripts.window.main"]}

COORDS = {
    "time": "attr:times($INPUT)", "leadtime": "attr:leadtimes($INPUT)",
    "location": "map(attr:id(elem(attr:locations($INPUT))),attr:locations($INPUT))",
    "lat": "map(attr:lat(elem(attr:locations($INPUT))),attr:locations($INPUT))",
    "lon": "map(attr:lon(elem(attr:locations($INPUT))),attr:locations($INPUT))",
    "altitude": "map(attr:elev(elem(attr:locations($INPUT))),attr:locations($INPUT))",
}
DIMS3 = ("time", "leadtime", "location")


def S(n):
    return Rat.sym(n)


def check_passthrough(ctx, tables):
    prog = ctx.prog
    for script, (table, ev) in sorted(tables.items()):
        site = "scripts.%s.main" % script
        m = prog.module("scripts." + script)
        own_coords = {"expandverif": ("time", "leadtime")}.get(script, ())
        for var, src in COORDS.items():
            row = table.get(var)
            ctx.ob("C20.1", site, row is not None, "'%s' is written" % var, msg="%s does not write '%s'" % (script, var))
            if row is None or var in own_coords:
                continue
            v = row["value"]
            ok = isinstance(v, Rat) and v.key() == src
            ctx.ob("C20.1", site, ok, "'%s' <- %s (passed through)" % (var, src.replace("($INPUT)", "").replace("attr:", "input.")[:60]),
                   loc=prog.loc(m, row.get("store_node", row["node"])), msg="%s writes '%s' from %s" % (script, var, str(v)[:120]),
                   sample={"rule": "C20.1", "script": script, "variable": var, "source": str(v)[:100]})
            ok_d = row["dims"] == ((var,) if var in ("time", "leadtime", "location") else ("location",))
            ctx.ob("C20.1", site, ok_d, "'%s' has its own dimension" % var, loc=prog.loc(m, row["node"]), msg="'%s' has dimensions %s" % (var, row["dims"]))
        for var in ("obs", "fcst", "pit"):
            row = table.get(var)
            if row is not None:
                ctx.ob("C20.1", site, row["dims"] == DIMS3, "'%s' has dimensions (time, leadtime, location)" % var, loc=prog.loc(m, row["node"]),
                       msg="'%s' has dimensions %s" % (var, row["dims"]))
        for var, d4 in (("cdf", "threshold"), ("x", "quantile")):
            row = table.get(var)
            if row is not None:
                ctx.ob("C20.1", site, row["dims"] == DIMS3 + (d4,), "'%s' has dimensions (time, leadtime, location, %s)" % (var, d4), loc=prog.loc(m, row["node"]),
                       msg="'%s' has dimensions %s" % (var, row["dims"]))
    # untransformed fields
    t = tables["ens2prob"][0]
    for var in ("obs", "fcst"):
        v = t[var]["value"]
        ok = isinstance(v, Rat) and v.key() == "call:copy.deepcopy(attr:%s($INPUT))" % var
        ctx.ob("C20.1", "scripts.ens2prob.main", ok, "ens2prob passes '%s' through unchanged" % var, msg="ens2prob writes '%s' from %s" % (var, str(v)[:120]))
    for var, arg in (("threshold", "$args.thresholds"), ("quantile", "$args.quantiles")):
        v = t[var]["value"]
        ctx.ob("C20.1", "scripts.ens2prob.main", isinstance(v, Rat) and v.key() == arg, "'%s' lists the requested values in the given order" % var,
               msg="'%s' is written from %s" % (var, v))
    ctx.floor("C20.1", 50)


def check_accumulate(ctx, tables):
    prog = ctx.prog
    m = prog.module("scripts.accumulate")
    site = "scripts.accumulate.convolve"
    f = prog.func(site)
    for axname, pos in (("leadtime", 1), ("time", 0)):
        ev = symeval.Evaluator(m)
        ev.record = True
        ev.merge_ifs = True
        outs = ev.run(f, env={"axis": form.apply("str:" + repr(axname), [])})
        st = [e for e in ev.events if e["kind"] == "store" and e["root"] == "new_array"]
        ctx.need(st, "%s(axis=%s): no store into the result" % (site, axname))
        e = st[-1]
        loc = prog.loc(m, e["node"])
        ix = e["indices"][0]
        w = S("window")
        ok_ix = isinstance(ix, tuple) and len(ix) == 3 and isinstance(ix[pos], tuple) and ix[pos][0] == "slice" and isinstance(ix[pos][1], Rat) and \
            ix[pos][1].equals(w - Rat.const(1)) and ix[pos][2] == "None" and all(ix[k] == ("slice", "None", "None", "None") for k in range(3) if k != pos)
        ctx.ob("C20.2", site, ok_ix, "-x %s: sums are stored from index window-1 on along dimension %d" % (axname, pos), loc=loc, msg="result stored at %s" % str(ix))
        v = e["value"]
        at = q.top(v, "call:scipy.signal.convolve")
        fft = q.top(v, "call:scipy.signal.fftconvolve") or q.top(v, "call:scipy.signal.oaconvolve")
        if at is None and fft is not None:
            ctx.ob("C20.2", site, False, "-x %s: the window sum is computed locally (a missing value only affects the windows that contain it)" % axname, loc=loc,
                   msg="the window sum uses an FFT convolution (%s): one NaN in a series makes every window of that series NaN, also the complete "
                       "windows that do not contain it" % fft.func[5:])
            continue
        if at is None:
            cs = "cumsum" in v.key() if isinstance(v, Rat) else False
            if cs:
                ctx.ob("C20.2", site, False, "-x %s: window sum = 'valid' convolution with a kernel of ones" % axname, loc=loc,
                       msg="the window sum is computed as a difference of cumulative sums: one missing value makes every later window of the series "
                           "missing, not only the incomplete ones")
                continue
            raise AnalysisError("%s(axis=%s): window sum of unrecognised form %s" % (site, axname, str(v)[:120]))
        kern = at.args[1]
        shape = [Rat.const(1), Rat.const(1), Rat.const(1)]
        shape[pos] = w
        ok_k = isinstance(kern, Rat) and kern.equals(form.apply("ones", [tuple(shape)])) and symeval._strval(at.args[2]) == "valid"
        arr_ok = at.args[0].key() in ("$array",) or "setitem($array" in at.args[0].key()
        ctx.ob("C20.2", site, ok_k and arr_ok, "-x %s: 'valid' convolution with ones(%s)" % (axname, ["window" if k == pos else 1 for k in range(3)]), loc=loc,
               msg="convolution kernel is %s mode %s" % (kern, at.args[2]), sample={"rule": "C20.2", "axis": axname, "kernel": str(kern)})
        # scipy.signal.convolve(method='auto', the default) switches to FFT whenever it estimates that to be faster (already for a
        # 5 x 50 x 3 array and a window of 24); FFT spreads one NaN over the whole series.  Only method='direct' is NaN-local.
        kwm = [x[1] for x in at.args if isinstance(x, tuple) and x and x[0] == "kw:method"]
        meth = symeval._strval(kwm[0]) if kwm else (symeval._strval(at.args[3]) if len([x for x in at.args if not isinstance(x, tuple)]) > 3 else None)
        ctx.ob("C20.2", site, meth == "direct", "-x %s: the window sum is computed locally (method='direct'): a missing value only affects the windows that contain it"
               % axname, loc=loc,
               msg="scipy.signal.convolve is called with method=%r: with the default 'auto' scipy uses an FFT when it is faster, and one missing value "
                   "then turns every window of the series into NaN, not only the windows that contain it" % meth,
               sample={"rule": "C20.2", "axis": axname, "method": meth})
        base = e.get("old")
        nan_before = isinstance(base, Rat) and "$nan" in base.key() and "zeros(" in base.key()
        ctx.ob("C20.2", site, nan_before, "-x %s: incomplete windows stay NaN" % axname, loc=loc, msg="the result array is not initialised with NaN: %s" % str(base)[:80])
    # main: cumulative mode uses the same axis number; windowed mode passes args.axis
    t = tables["accumulate"][0]
    for var in ("obs", "fcst"):
        v = t[var]["value"]
        k = v.key() if isinstance(v, Rat) else ""
        # by value: with -x leadtime / -x time the cumulative sums run along axis 1 / 0 (however the name is mapped to the number)
        ok = isinstance(v, Rat)
        for axname_, axnum_ in (("leadtime", 1), ("time", 0)):
            try:
                vv = form.subst(v, {"args.axis": form.apply("str:" + repr(axname_), [])}) if isinstance(v, Rat) else None
            except form.Undefined:
                vv = None
            found = {}
            if vv is not None:
                for fn_ in ("cumsum", "nancumsum"):
                    for at_ in q.atoms(vv, fn_):
                        kw_ = {x_[0][3:]: x_[1] for x_ in at_.args if isinstance(x_, tuple) and x_ and isinstance(x_[0], str) and x_[0].startswith("kw:")}
                        src_ok = isinstance(at_.args[0], Rat) and at_.args[0].key() == "call:copy.deepcopy(attr:%s($INPUT))" % var
                        if src_ok and isinstance(kw_.get("axis"), Rat):
                            found[fn_] = kw_["axis"].const_value()
            ok = ok and found.get("cumsum") == axnum_ and found.get("nancumsum") == axnum_
        ctx.ob("C20.2", "scripts.accumulate.main", ok, "cumulative mode: (nan)cumsum of '%s' along leadtime=1 / time=0" % var, msg="cumulative branch of '%s' is %s" % (var, k[:200]))
        ok = ("call:scripts.accumulate.convolve(call:copy.deepcopy(attr:%s($INPUT)),$args.w,$args.ignore,$args.axis)" % var) in k
        ctx.ob("C20.2", "scripts.accumulate.main", ok, "windowed mode: convolve('%s' copy, w, ignore, axis)" % var, msg="windowed branch of '%s' is %s" % (var, k[:200]))
        ok = "cmp_eq($None - $args.w,0)" in k
        ctx.ob("C20.2", "scripts.accumulate.main", ok, "'%s': without -w the whole axis is accumulated" % var, msg="-w handling changed for '%s'" % var)


def check_ens2prob(ctx, tables):
    prog = ctx.prog
    site = "scripts.ens2prob.main"
    m = prog.module("scripts.ens2prob")
    t = tables["ens2prob"][0]
    ens = form.apply("sort", [form.apply("call:copy.deepcopy", [form.apply("attr:ensemble", [S("INPUT")])])], {"axis": Rat.const(3)})
    obs = form.apply("call:copy.deepcopy", [form.apply("attr:obs", [S("INPUT")])])
    # CDF
    v = t["cdf"]["value"]
    loc = prog.loc(m, t["cdf"].get("store_node", t["cdf"]["node"]))
    nm = [a for a in q.atoms(v, "nanmean")]
    ctx.need(nm, "%s: the CDF is not a nanmean over the members" % site)
    a = nm[0]
    kw = {x[0][3:]: x[1] for x in a.args if isinstance(x, tuple) and x and isinstance(x[0], str) and x[0].startswith("kw:")}
    ctx.ob("C20.3", site, isinstance(kw.get("axis"), Rat) and kw["axis"].const_value() in (3, -1), "CDF: NaN-aware mean over the member axis", loc=loc,
           msg="CDF is averaged over axis %s" % kw.get("axis"))
    st = q.top(a.args[0], "setitem")
    ok = False
    if st is not None:
        base, mask, val = st.args
        valid = form.apply("cmp_eq", [form.apply("isnan", [ens]), Rat.const(0)])
        cmp_ = val.as_atom() if isinstance(val, Rat) else None
        ok = isinstance(mask, Rat) and mask.equals(valid) and cmp_ is not None and cmp_.func in ("cmp_lt", "cmp_le") and \
            cmp_.args[0].equals(form.apply("getitem", [ens, valid])) and "$args.thresholds" in cmp_.args[1].key() and "$nan" in base.key()
        # column i belongs to the i-th requested threshold, which is what the 'threshold' variable lists at position i
        thr = cmp_.args[1] if cmp_ is not None else None
        same = isinstance(thr, Rat) and (thr.equals(form.apply("elem", [S("args.thresholds")])) or
                                         thr.equals(form.apply("getitem", [S("args.thresholds"), S("i")])))
        ctx.ob("C20.3", site, same, "CDF column i is computed for the i-th threshold as listed in the 'threshold' variable", loc=loc,
               msg="column i of the CDF is computed for %s, but the 'threshold' variable lists $args.thresholds[i]: with thresholds given in another "
                   "order the probabilities are stored against the wrong threshold" % str(thr)[:80])
    ctx.ob("C20.3", site, ok, "CDF: (member < threshold) evaluated on the non-missing members only, missing members stay NaN", loc=loc,
           msg="the CDF comparison is %s" % str(a.args[0])[:200], sample={"rule": "C20.3", "cdf": str(a.args[0])[:160]})
    # value in [0,1]: nanmean(...)*(upper-lower) + lower/2 with constants 0 <= lower, upper <= 1
    lin = None
    for cand in q.atoms(v, "setitem"):
        pass
    cdf_st = q.top(v, "setitem")
    if cdf_st is None:
        # the store may sit under the `if thresholds were requested` condition once the computation lives in a helper: the store whose
        # stored value contains the member mean
        for cand in q.atoms(v, "setitem"):
            if len(cand.args) == 3 and isinstance(cand.args[2], Rat) and a.key in cand.args[2].key() and isinstance(cand.args[1], tuple):
                cdf_st = cand
                break
    scal_ok = False
    if cdf_st is not None:
        stored = cdf_st.args[2]
        mean = Rat.of_atom(a)
        # stored = c1*mean + c0 with 0 <= c0, c0 + c1 <= 1
        diff = stored - mean
        c0 = diff.const_value()
        if c0 is not None:
            scal_ok = 0 <= c0 <= 1
        else:
            try:
                ratio = (stored / mean).const_value()
            except form.Undefined:
                ratio = None
            scal_ok = ratio is not None and 0 <= ratio <= 1
        ix = cdf_st.args[1]
        pos_ok = isinstance(ix, tuple) and len(ix) == 4 and all(isinstance(ix[k], tuple) for k in range(3)) and isinstance(ix[3], Rat)
        ctx.ob("C20.3", site, pos_ok, "CDF of threshold i is stored at [:, :, :, i]", loc=loc, msg="CDF stored at %s" % str(ix)[:100])
    ctx.ob("C20.3", site, scal_ok, "CDF = fraction of members scaled into [0, 1]", loc=loc, msg="the CDF is an affine function of the member fraction that can leave [0,1]")
    # quantiles
    v = t["x"]["value"]
    loc = prog.loc(m, t["x"].get("store_node", t["x"]["node"]))
    k = v.key() if isinstance(v, Rat) else ""
    ok = ens.key() in k and "call:scipy.interpolate.interp1d(linspace(0,1,getitem(attr:shape(%s),3)),%s" % (ens.key(), ens.key()) in k and "('kw:axis',3)" in k
    ctx.ob("C20.3", site, ok, "quantiles are read from the members sorted along the member axis (non-decreasing in the level, within the ensemble range)", loc=loc,
           msg="quantile computation is %s" % k[:240])
    last = form.apply("getitem", [ens, (("slice", "None", "None", "None"),) * 3 + (Rat.const(-1),)])
    ctx.ob("C20.3", site, last.key() in k and "cmp_eq(1 - elem($args.quantiles),0)" in k, "level 1 is the largest member", loc=loc, msg="level 1 is not mapped to the largest member")
    # PIT
    v = t["pit"]["value"]
    loc = prog.loc(m, t["pit"].get("store_node", t["pit"]["node"]))
    means = [a_ for a_ in q.atoms(v, "mean")]
    ctx.need(means, "%s: PIT is not a mean over the members" % site)
    a = means[0]
    kw = {x[0][3:]: x[1] for x in a.args if isinstance(x, tuple) and x and isinstance(x[0], str) and x[0].startswith("kw:")}
    cmp_ = a.args[0].as_atom() if isinstance(a.args[0], Rat) else None
    tiled = "call:numpy.tile(call:numpy.expand_dims(%s,3)" % obs.key()
    ok = cmp_ is not None and cmp_.func == "cmp_lt" and cmp_.args[0].equals(ens) and cmp_.args[1].key().startswith(tiled)
    ctx.ob("C20.3", site, ok, "PIT = fraction of members strictly below the observation", loc=loc,
           msg="PIT compares %s (members equal to the observation must not count as below it)" % (str(a.args[0])[:160]),
           sample={"rule": "C20.3", "pit": str(a.args[0])[:160]})
    ctx.ob("C20.3", site, isinstance(kw.get("axis"), Rat) and kw["axis"].const_value() in (3, -1), "PIT: mean over the member axis", loc=loc, msg="PIT averaged over axis %s" % kw.get("axis"))
    remask = False
    for st in q.atoms(v, "setitem"):
        if isinstance(st.args[1], Rat) and st.args[1].equals(form.apply("isnan", [obs])) and isinstance(st.args[2], Rat) and st.args[2].key() == "$nan" \
                and isinstance(st.args[0], Rat) and st.args[0].equals(Rat.of_atom(a)):
            remask = True
    ctx.ob("C20.3", site, remask, "PIT is missing where the observation is missing (the comparison alone would give 0)", loc=loc,
           msg="the comparison with a missing observation is False for every member: PIT 0 is written instead of a missing value")


def check_expandverif(ctx, tables):
    prog = ctx.prog
    site = "scripts.expandverif.main"
    m = prog.module("scripts.expandverif")
    t = tables["expandverif"][0]
    v = t["obs"]["value"]
    loc = prog.loc(m, t["obs"].get("store_node", t["obs"]["node"]))
    k = v.key() if isinstance(v, Rat) else ""
    eqs = [a for a in q.atoms(v, "cmp_eq") if "call:numpy.meshgrid" in Rat.of_atom(a).key()]
    ctx.need(eqs, "%s: the valid-time match was not found" % site)
    d = eqs[0].args[0]
    mg = "call:numpy.meshgrid(attr:leadtimes($INPUT),attr:times($INPUT))"
    alltimes = form.apply("flatten", [Rat.const(3600) * form.apply("getitem", [form.apply("call:numpy.meshgrid", [form.apply("attr:leadtimes", [S("INPUT")]), form.apply("attr:times", [S("INPUT")])]), Rat.const(0)]) +
                                      form.apply("getitem", [form.apply("call:numpy.meshgrid", [form.apply("attr:leadtimes", [S("INPUT")]), form.apply("attr:times", [S("INPUT")])]), Rat.const(1)])])
    rest1, rest2 = alltimes - d, d + alltimes
    target = None
    for r_ in (rest1, rest2):
        if mg not in r_.key():
            target = r_
    ok = target is not None and "getitem($args.lead_times,$lt)" in target.key() and "$t)" in target.key()
    if ok:
        lead = form.apply("getitem", [S("args.lead_times"), S("lt")])
        init = target - Rat.const(3600) * lead
        ok = "$args.lead_times" not in init.key() and q.top(init, "getitem") is not None
    ctx.ob("C20.4", site, ok, "match: input time + 3600*leadtime == requested init time + 3600*requested lead time", loc=loc,
           msg="the valid-time match compares %s" % str(d)[:240], sample={"rule": "C20.4", "match": str(d)[:200]})
    first = "getitem(getitem(where(" in k and ",0),0)" in k
    ctx.ob("C20.4", site, first, "the first matching input case supplies the observation", loc=loc, msg="not the first match is used")
    ctx.ob("C20.4", site, "cmp_le(1,len(" in k, "cells without a matching valid time keep the missing value", loc=loc, msg="the >= 1 match guard is gone")
    fill = "call:numpy.ones" in k or "ones(" in k
    ctx.ob("C20.4", site, fill and "$nc_missing" in k or "nc_missing" in k, "the observation array is initialised with the NetCDF missing value", loc=loc,
           msg="the output array is not initialised with the missing value")
    # init times: whole days of the input + requested hour
    tv = t["time"]["value"]
    tk = tv.key() if isinstance(tv, Rat) else ""
    ctx.ob("C20.4", site, "86400*int(1/86400*elem(attr:times($INPUT)))" in tk and "3600*getitem($args.init_times,$i)" in tk, "output times = whole input days + requested initialisation hour",
           loc=prog.loc(m, t["time"]["node"]), msg="output times are %s" % tk[:200])
    lv = t["leadtime"]["value"]
    ctx.ob("C20.4", site, isinstance(lv, Rat) and lv.key() == "$args.lead_times", "output lead times = requested lead times", msg="output lead times are %s" % lv)


def run(ctx):
    ctx.rule("C20.1", "coordinates, location metadata and untransformed fields are passed through; dimension order")
    ctx.rule("C20.2", "accumulate: kernel/axis/offset agreement, NaN before complete windows, cumulative mode on the same axis")
    ctx.rule("C20.3", "ens2prob: CDF / quantile / PIT structure incl. missing members and missing observations")
    ctx.rule("C20.4", "expandverif: valid-time equality match, first match, missing elsewhere")
    prog = ctx.prog
    tables = {}
    for s in ("accumulate", "ens2prob", "expandverif", "window"):
        tables[s] = ncwriter.writer_table(prog, "scripts.%s.main" % s)
    for s_ in sorted(tables):
        ncwriter.check_exact_coordinates(ctx, "C20.1", "scripts.%s.main" % s_, prog, prog.module("scripts.%s" % s_), tables[s_][0])
    check_passthrough(ctx, tables)
    check_accumulate(ctx, tables)
    check_ens2prob(ctx, tables)
    check_expandverif(ctx, tables)
    ctx.floor("C20.2", 12)
    ctx.floor("C20.3", 9)
    ctx.floor("C20.4", 6)


CLAIM = {
    "level": "Static WIRE/INDEX analysis of the four helper scripts via the table each writes (extracted from the source): pass-through of "
             "coordinates/metadata/untransformed fields and dimension order; structure of the accumulation (kernel position = axis, offset, NaN "
             "before), of the ensemble CDF/quantile/PIT computations (member axis, non-missing subset, strict comparison, re-mask of missing "
             "observations) and of the valid-time match. Necessary conditions; outputs on real files are not produced.",
    "note": "Trusted: CPython ast, vsa symbolic folding, scipy.signal.convolve/interp1d. window.py's run-length algorithm itself is not decided.",
    "technique": "static analysis: extraction of the writer's (name, dims, dtype, value) table by symbolic folding; structural patterns on the "
                 "folded values (cumulative axis decided by substituting the axis name); exact NetCDF type of the time coordinate; NaN-laundering comparison rule",
}
