"""C18 - query results are independent of query history and repeatable."""
import ast

from .. import form, q, symeval, trace
from ..core import AnalysisError, const, dotted, norm, calls_in, call_name, parent_map
from ..form import Rat

EXPLANATION = (
    "EFFECT (alias / mutation / determinism) analysis. Every in-place write (subscript store, augmented assignment) in the query path "
    "of Data is enumerated from the symbolic event log and its target classified FRESH / ALIAS(cache or input) by an abstract alias "
    "domain over the folded value (basic slicing, _get_score and _apply_axis results alias the cache; arithmetic, copies, advanced "
    "indexing, flatten are fresh). A write into an alias is accepted only when its mask and value depend on the entry itself, "
    "same-field entries of the other inputs and construction-time constants (then it is idempotent and request-independent); "
    "anything that depends on other requested fields, the axis or the slice makes later answers depend on earlier requests. "
    "No library function mutates an array parameter in place; callers of get_scores never write into what they received; the memo "
    "key contains every parameter of the request and the classes used in it define __eq__/__hash__ (exact spelling) over their "
    "parameters; every random draw is seeded in the same function; the caches are private to Data.")
ASSUMPTIONS = ["numpy view/copy semantics: basic slicing and attribute loads alias, arithmetic / advanced indexing / flatten / astype / "
               "deepcopy / np.array(copy=True) are fresh", "exhaustive request sequences are not explored"]
AUDIT = {"functions": ["verif.data.Data.get_scores", "verif.data.Data._get_score", "verif.data.Data._apply_axis", "verif.field.Pit.randomize"]}

CACHE = "$self._get_score_cache"


def S(n):
    return Rat.sym(n)


FRESH_FUNCS = {"nparray", "zeros", "ones", "flatten", "astype", "m:astype", "call:copy.deepcopy", "call:numpy.copy", "m:copy", "where",
               "nanmean", "mean", "sum", "cmp_lt", "cmp_le", "cmp_eq", "cmp_ne", "and", "or", "isnan", "isinf", "call:numpy.quantile",
               "quantile", "mafilled", "call:verif.util.clean", "sort", "unique", "map", "abs", "base"}


def alias_of(r, depth=0):
    """Abstract alias class of an array value: 'fresh', 'cache', 'input', 'param:<name>' or 'unknown'."""
    if not isinstance(r, Rat) or depth > 40:
        return "unknown"
    at = r.as_atom()
    if at is None:
        return "fresh"           # arithmetic creates a new array
    f = at.func
    if f.startswith("$"):
        name = f[1:]
        if name.startswith("self._get_score_cache"):
            return "cache"
        if name.startswith("self."):
            return "attr"
        return "param:" + name
    if f in FRESH_FUNCS:
        return "fresh"
    if f in ("self._get_score",):
        return "cache"
    if f in ("self._apply_axis",):
        return alias_of(at.args[0], depth + 1)      # axis=All returns the array itself
    if f == "self.preaggregate":
        return alias_of(at.args[0], depth + 1)      # without -T the array is returned unchanged
    if f in ("getitem",):
        base = alias_of(at.args[0], depth + 1)
        ix = at.args[1]
        comps = ix if isinstance(ix, tuple) and not (ix and ix[0] == "slice") else (ix,)
        advanced = any(isinstance(c, Rat) and c.const_value() is None and not _is_scalar_index(c) and not _may_be_slice(c) for c in comps)
        inner = at.args[0].as_atom() if isinstance(at.args[0], Rat) else None
        if inner is not None and inner.func == "pylist" and inner.args and isinstance(inner.args[0], tuple):
            # element of a python list of arrays: the element itself (worst case over the elements)
            els = [alias_of(x, depth + 1) for x in inner.args[0] if isinstance(x, Rat)]
            worst = [e for e in els if e != "fresh"]
            return worst[0] if worst else "fresh"
        if base in ("fresh",):
            return "fresh"
        if isinstance(at.args[0], tuple):
            # element of a python list of arrays: the element itself
            els = [alias_of(x, depth + 1) for x in at.args[0] if isinstance(x, Rat)]
            worst = [e for e in els if e != "fresh"]
            return worst[0] if worst else "fresh"
        return "fresh" if advanced else base
    if f in ("setitem",):
        return alias_of(at.args[0], depth + 1)
    if f == "ifexp":
        a, b = alias_of(at.args[1], depth + 1), alias_of(at.args[2], depth + 1)
        for x in (a, b):
            if x != "fresh":
                return x
        return "fresh"
    if f.startswith("attr:") and at.args and isinstance(at.args[0], Rat):
        inner = at.args[0].key()
        if "$self._inputs" in inner or inner.startswith("$input") or "elem" in inner:
            return "input"
        return alias_of(at.args[0], depth + 1)
    if f == "m:other_score":
        return "input"
    if f == "call:verif.field.Pit.randomize":
        return "unknown"
    if f == "pylist":
        return "fresh"
    if f.startswith("self.") and _PROG is not None and f.count(".") == 1:
        return _summary_alias(f[5:], at.args, depth)
    return "unknown"


_PROG = None
_SUMMARIES = {}


def _summary_alias(method, args, depth):
    """Alias class of the value returned by the helper method Data.<method>: the worst case over its return values, with the
    helper's parameters replaced by the alias classes of the actual arguments (one level of summaries, recursion bounded by depth)."""
    hit = _PROG.lookup_method(_PROG.cls("verif.data.Data"), method)
    if hit is None:
        return "unknown"
    fdef = hit[1]
    if method not in _SUMMARIES:
        _SUMMARIES[method] = None
        try:
            ev = symeval.Evaluator(hit[0].module)
            ev.loop_mode = "unroll2"
            ev.merge_ifs = True
            outs = ev.run(fdef)
            _SUMMARIES[method] = [o.value for o in outs if o.kind == "return"]
        except (symeval.Undecided, AnalysisError):
            _SUMMARIES[method] = None
    vals = _SUMMARIES[method]
    if not vals:
        return "unknown"
    params = [a.arg for a in fdef.args.args if a.arg != "self"]
    worst = "fresh"
    for v in vals:
        al = alias_of(v, depth + 5) if isinstance(v, Rat) else "unknown"
        if al.startswith("param:"):
            name = al[6:]
            if name in params and params.index(name) < len(args) and isinstance(args[params.index(name)], Rat):
                al = alias_of(args[params.index(name)], depth + 5)
            else:
                al = "unknown"
        if al != "fresh":
            worst = al
    return worst


_SLICE_SUMMARIES = {}


def _may_be_slice(c, depth=0):
    """Can this index component be a slice object?  Subscripting with a slice gives a VIEW of the array, subscripting with an index
    array gives a copy.  Helper methods of Data that hand out the index (``self._get_time_indices(i)``) are summarised by their
    return values."""
    if isinstance(c, tuple):
        return bool(c) and c[0] == "slice"
    if not isinstance(c, Rat) or depth > 6:
        return False
    at = c.as_atom()
    if at is None:
        return False
    f = at.func
    if f in ("call:slice", "slice", "call:builtins.slice", "call:numpy.s_", "call:numpy.index_exp"):
        return True
    if f == "ifexp":
        return _may_be_slice(at.args[1], depth + 1) or _may_be_slice(at.args[2], depth + 1)
    if f.startswith("self.") and f.count(".") == 1 and _PROG is not None:
        method = f[5:]
        if method not in _SLICE_SUMMARIES:
            _SLICE_SUMMARIES[method] = False
            hit = _PROG.lookup_method(_PROG.cls("verif.data.Data"), method)
            if hit is not None:
                try:
                    ev = symeval.Evaluator(hit[0].module)
                    ev.loop_mode = "unroll2"
                    ev.merge_ifs = True
                    outs = ev.run(hit[1])
                    _SLICE_SUMMARIES[method] = any(_may_be_slice(o.value, depth + 1) for o in outs if o.kind == "return")
                except (symeval.Undecided, AnalysisError):
                    _SLICE_SUMMARIES[method] = False
        return _SLICE_SUMMARIES[method]
    return False


def _is_scalar_index(c):
    k = c.key()
    return k.startswith("$") and ("#" in k or k in ("$i", "$t", "$f", "$d", "$axis_index", "$input_index"))


def _depends_only_on_entry(mask, target, allowed_consts):
    """Atoms of the mask expression must be the written entry itself, same-field cache entries or construction-time constants."""
    bad = []
    own = set(a.func[1:] for a in q.atoms(target) if a.func.startswith("$")) if isinstance(target, Rat) else set()
    allowed_consts = set(allowed_consts) | own
    for a in q.atoms(mask):
        k = a.func
        if k.startswith("$"):
            name = k[1:]
            if name in allowed_consts or name.startswith("self._get_score_cache") or name in ("nan", "None", "inf"):
                continue
            if "#" in name or name in ("i", "j"):
                continue
            bad.append(name)
    return bad


def check_data_writes(ctx):
    prog = ctx.prog
    m = prog.module("verif.data")
    n = 0
    n_fill = 0
    consts = {"self._obs_range", "self._remove_missing_across_all", "field", "self._obs_field", "self._fcst_field", "input_index"}
    for site in ("verif.data.Data.get_scores", "verif.data.Data._get_score"):
        ev = trace.trace(prog, site)
        replaced = {}
        for e in ev.events:
            if e["kind"] == "store":
                root = e["root"]
                old = e.get("old")
                # the array written into: root value indexed by all but the last index
                if root == "self._get_score_cache":
                    if len(e["indices"]) < 3:
                        # cache[i][field] = array: filling a slot.  The entries are later written in place (missing-in-any-input mask,
                        # -obsrange), so a slot must hold a new array or another slot's array, never the input object's own data
                        if len(e["indices"]) == 2 and isinstance(e["value"], Rat):
                            al = alias_of(e["value"])
                            n_fill += 1
                            ctx.ob("C18.1", site, al in ("fresh", "cache"), "a cache slot is filled with a new array (or another slot), not with the input's own array",
                                   loc=prog.loc(m, e["node"]),
                                   msg="the array stored in the cache can be %s (alias class %s): the in-place masking of cache entries then modifies the "
                                       "input object's data, and re-using that input gives different results"
                                       % (str(e["value"])[:90], al), sample={"rule": "C18.1", "site": site, "fill": al})
                        continue
                    target_alias = "cache"
                    mask = e["indices"][-1]
                elif root == "self._get_scores_cache":
                    continue
                else:
                    ck = [(c.key() if isinstance(c, Rat) else str(c), pol) for c, pol in e["conds"]]
                    if len(e["indices"]) == 1 and isinstance(old, list):
                        # whole-element replacement in a python list of arrays: remembered for the in-place writes that follow
                        ixk = e["indices"][0].key() if isinstance(e["indices"][0], Rat) else str(e["indices"][0])
                        replaced[(root, ixk)] = (alias_of(e["value"]) if isinstance(e["value"], Rat) else "unknown", ck)
                        continue
                    base = old
                    for ix in e["indices"][:-1]:
                        base = form.apply("getitem", [base if isinstance(base, Rat) else form.apply("pylist", [tuple(base)]), ix if isinstance(ix, (Rat, tuple)) else (ix,)])
                    if isinstance(base, list):
                        continue
                    target_alias = alias_of(base)
                    if len(e["indices"]) == 2 and isinstance(old, list):
                        ixk = e["indices"][0].key() if isinstance(e["indices"][0], Rat) else str(e["indices"][0])
                        rep = replaced.get((root, ixk))
                        if rep is not None:
                            always = all(c in ck for c in rep[1])        # the replacement happened on every path that reaches this write
                            if always:
                                target_alias = rep[0]
                            elif target_alias == "fresh":
                                target_alias = rep[0]
                    mask = e["indices"][-1]
                n += 1
                if target_alias in ("fresh",):
                    ctx.ob("C18.1", site, True, "in-place write into a fresh array (%s)" % root, nontrivial=True,
                           sample={"rule": "C18.1", "site": site, "write": root, "target": "fresh"})
                    continue
                tgt_val = base if root != "self._get_score_cache" else None
                deps = _depends_only_on_entry(mask, tgt_val, consts) + (_depends_only_on_entry(e["value"], tgt_val, consts) if isinstance(e["value"], Rat) else [])
                foreign = [d for d in deps if d not in ("temp",)]
                # the mask may mention the written array itself through `temp`
                ok = not foreign and target_alias in ("cache", "attr", "unknown", "input") and not _mentions_request(mask, tgt_val)
                ctx.ob("C18.1", site, ok, "in-place write into shared storage (%s) depends only on the entry and construction-time constants" % root,
                       loc=prog.loc(m, e["node"]),
                       msg="in-place write into %s (alias of %s) with a mask/value that depends on %s: later answers depend on earlier requests"
                           % (root, target_alias, sorted(set(foreign)) or "the other requested fields / the axis / the slice"),
                       sample={"rule": "C18.1", "site": site, "write": root, "target": target_alias, "mask": str(mask)[:120]})
            elif e["kind"] == "inplace":
                n += 1
                before = e["before"]
                al = alias_of(before)
                ok = al == "fresh" or (isinstance(before, Rat) and before.const_value() is not None)
                ctx.ob("C18.1", site, ok, "augmented assignment on %s acts on a fresh value" % e["name"], loc=prog.loc(m, e["node"]),
                       msg="`%s` modifies %s in place, which can be the cached array itself (alias of %s): the cache is changed by a request "
                           "and every later request sees the modified data" % (norm(e["node"]), e["name"], al))
    ctx.need(n >= 4, "fewer than 4 in-place writes examined in the query path")
    ctx.need(n_fill >= 3, "fewer than 3 cache fills examined in _get_score (%d)" % n_fill)
    # returned values: whole-array results must not be the cached arrays when they were modified; the memo stores the final list
    ctx.floor("C18.1", 4)


def _mentions_request(mask, target=None):
    k = mask.key() if isinstance(mask, Rat) else " ".join(x.key() for x in mask if isinstance(x, Rat)) if isinstance(mask, tuple) else str(mask)
    if isinstance(target, Rat):
        k = k.replace(target.key(), "<self>")
    return "$axis" in k or "$fields" in k


def check_param_mutation(ctx):
    """No library function reachable from a query mutates an array parameter in place."""
    prog = ctx.prog
    targets = ["verif.field.Pit.randomize", "verif.data.preaggregate_time", "verif.data.preaggregate_leadtime", "verif.util.clean",
               "verif.util.apply_threshold", "verif.util.apply_threshold_prob", "verif.interval.Interval.within", "verif.data.Data._apply_axis",
               "verif.data.Data.preaggregate"]
    for qual in targets:
        f = prog.func(qual, required=False)
        if f is None:
            continue
        modname = ".".join(qual.split(".")[:2])
        m = prog.module(modname)
        ev = symeval.Evaluator(m)
        ev.record = True
        ev.loop_mode = "body_once"
        ev.merge_ifs = True
        try:
            ev.run(f)
        except symeval.Undecided as e:
            raise AnalysisError("%s: %s" % (qual, e))
        params = [a.arg for a in f.args.args if a.arg != "self"]
        bad = []
        for e in ev.events:
            if e["kind"] == "inplace":
                al = alias_of(e["before"])
                if al.startswith("param:") and al[6:] in params:
                    bad.append((e["node"], al[6:], norm(e["node"])))
            elif e["kind"] == "store":
                old = e.get("old")
                al = alias_of(old) if isinstance(old, Rat) else "fresh"
                if al.startswith("param:") and al[6:] in params:
                    bad.append((e["node"], al[6:], norm(e["node"])))
        ctx.ob("C18.1", qual, not bad, "does not modify its array parameters in place", loc=prog.loc(m, bad[0][0]) if bad else prog.loc(m, f),
               msg="%s modifies parameter %s in place (%s): the caller's array (an input's data or a cached array) is changed"
                   % (qual, bad[0][1] if bad else "", bad[0][2] if bad else ""),
               sample={"rule": "C18.1", "function": qual, "parameters": params, "inplace_on_param": [b[2] for b in bad]})


def check_callers(ctx):
    """Callers of get_scores / get_p / get_q never write in place into what they received."""
    prog = ctx.prog
    n = 0
    for qual, m, c, f in prog.all_functions(["verif.output", "verif.metric", "verif.driver"]):
        pm = parent_map(f)
        defs = []
        for st in ast.walk(f):
            if isinstance(st, ast.Assign):
                is_src = isinstance(st.value, ast.Call) and (
                    (isinstance(st.value.func, ast.Attribute) and st.value.func.attr in ("get_scores",)) or
                    dotted(st.value.func) in ("get_p", "get_q"))
                for t in st.targets:
                    for nm in ([t] if isinstance(t, ast.Name) else (t.elts if isinstance(t, (ast.Tuple, ast.List)) else [])):
                        if isinstance(nm, ast.Name):
                            defs.append({"name": nm.id, "line": st.lineno, "value": st.value, "src": is_src, "alias": is_src})
                if is_src:
                    n += 1
        if not any(d["src"] for d in defs):
            continue

        def alias_expr(expr, line):
            if isinstance(expr, ast.Name):
                cands = [d for d in defs if d["name"] == expr.id and d["line"] <= line]
                return bool(cands) and max(cands, key=lambda d: d["line"])["alias"]
            if isinstance(expr, ast.Subscript):
                # basic slicing / element of the returned list keep the alias; index arrays copy
                idx_names = [n_.id for n_ in ast.walk(expr.slice) if isinstance(n_, ast.Name)]
                if any(nm.startswith("I") for nm in idx_names):
                    return False
                return alias_expr(expr.value, line)
            return False
        changed = True
        while changed:
            changed = False
            for d in defs:
                if not d["alias"] and alias_expr(d["value"], d["line"]):
                    d["alias"] = True
                    changed = True
        for st in ast.walk(f):
            tgt = None
            if isinstance(st, ast.AugAssign):
                tgt = st.target
            elif isinstance(st, ast.Assign) and len(st.targets) == 1 and isinstance(st.targets[0], ast.Subscript):
                tgt = st.targets[0]
            if tgt is None:
                continue
            base = tgt
            while isinstance(base, ast.Subscript):
                base = base.value
            if isinstance(base, ast.Name) and alias_expr(base, st.lineno) and (isinstance(st, ast.AugAssign) or isinstance(tgt, ast.Subscript)):
                ctx.ob("C18.2", qual, False, "writes in place into a result of get_scores (%s)" % norm(st)[:60], loc=prog.loc(m, st),
                       msg="%s modifies an array returned by get_scores/get_p/get_q in place (%s): the dataset's cached arrays are shared "
                           "with every later request" % (qual, norm(st)[:80]))
        ctx.ob("C18.2", qual, True, "results of get_scores are not modified in place", nontrivial=True)
    ctx.need(n >= 60, "fewer than 60 get_scores call sites found (%d)" % n)


def check_memo_key(ctx):
    prog = ctx.prog
    site = "verif.data.Data.get_scores"
    m = prog.module("verif.data")
    f = prog.own_method(site)
    ev = trace.trace(prog, site)
    params = [a.arg for a in f.args.args if a.arg != "self"]
    st = trace.stores(ev, "self._get_scores_cache")
    ctx.need(st, "%s: the result is not stored in the request cache" % site)
    key = st[-1]["indices"][0]
    kk = " ".join(x.key() for x in key) if isinstance(key, (tuple, list)) else key.key()
    for p in params:
        ctx.ob("C18.3", site, "$" + p in kk, "memo key contains parameter %s" % p, loc=prog.loc(m, st[-1]["node"]),
               msg="the request cache key %s does not contain parameter %s: requests differing only in %s share one cached answer" % (kk[:120], p, p))
    # ... and of the parameter VALUES themselves, not of something derived from them (names, hashes, strings): two different requests
    # whose derived components coincide (every Ensemble member is called "Ensemble") would share one entry
    comps = list(key) if isinstance(key, (tuple, list)) else [key]
    for cpt in comps:
        if not isinstance(cpt, Rat):
            continue
        at = cpt.as_atom()
        pure = at is not None and (at.func.startswith("$") or (at.func in ("call:tuple", "pylist", "ifexp") and not any(
            a.func.startswith("m:") or a.func in ("call:hash", "call:str", "call:repr", "call:id", "map") or a.func.startswith("attr:") for a in cpt.atoms(deep=True))))
        ctx.ob("C18.3", site, pure, "memo key component is a parameter value itself (%s)" % str(cpt)[:50], loc=prog.loc(m, st[-1]["node"]),
               msg="the request cache key contains %s, a quantity derived from a parameter: different requests can collide" % str(cpt)[:100])
    # stored after the last write into the result list
    last_store = max(i for i, e in enumerate(ev.events) if e["kind"] == "store" and e["root"] == "scores") if any(e["kind"] == "store" and e["root"] == "scores" for e in ev.events) else -1
    memo_pos = max(i for i, e in enumerate(ev.events) if e["kind"] == "store" and e["root"] == "self._get_scores_cache")
    ctx.ob("C18.3", site, memo_pos > last_store, "the result is memoised after its last modification", msg="the result list is modified after being cached")
    # the memoised object is the one returned on the miss path: a later request must get what the first one got
    memo_node = ev.events[memo_pos]["node"]
    stored_name = dotted(memo_node.value) if isinstance(memo_node, ast.Assign) else None
    if stored_name is None:
        # the stored value is an expression (e.g. the result of a helper): nothing can be rebound afterwards
        ctx.ob("C18.3", site, True, "the memoised value is an expression stored directly (nothing to rebind afterwards)", nontrivial=False)
        return _memo_classes(ctx)
    rebinds = [n_ for n_ in ast.walk(f) if isinstance(n_, (ast.Assign, ast.AugAssign)) and n_.lineno > memo_node.lineno
               and any(dotted(t) == stored_name or (isinstance(t, ast.Subscript) and dotted(t.value) == stored_name)
                       for t in (n_.targets if isinstance(n_, ast.Assign) else [n_.target]))]
    ctx.ob("C18.3", site, not rebinds, "the result name is not rebound or written after being memoised (first and later requests get the same arrays)",
           loc=prog.loc(m, rebinds[0]) if rebinds else prog.loc(m, memo_node),
           msg="%s is %s after it was stored in the request cache (line %d): the first request returns one result (e.g. the NaN placeholder of an empty "
               "slice) and every later identical request another (the cached one)" % (stored_name, "rebound/modified", memo_node.lineno))
    rets = [n_ for n_ in ast.walk(f) if isinstance(n_, ast.Return) and n_.lineno > memo_node.lineno and n_.value is not None]
    bad = [r for r in rets if not (dotted(r.value) == stored_name or (isinstance(r.value, ast.Subscript) and dotted(r.value.value) == stored_name
                                                                       and const(r.value.slice) == 0))]
    ctx.ob("C18.3", site, rets and not bad, "the miss path returns the memoised list (or its element 0 for a single field)",
           loc=prog.loc(m, bad[0]) if bad else None, msg="the miss path returns %s, not the memoised %s" % (norm(bad[0].value)[:60] if bad else "nothing", stored_name))
    return _memo_classes(ctx)


def _memo_classes(ctx):
    prog = ctx.prog
    # classes used inside keys
    fm = prog.module("verif.field")
    for c in fm.classes.values():
        if not prog.is_subclass(c, "verif.field.Field") or c.name == "Field":
            continue
        init = c.methods.get("__init__")
        attrs = []
        if init is not None:
            for st_ in ast.walk(init):
                if isinstance(st_, ast.Assign) and len(st_.targets) == 1 and dotted(st_.targets[0]) and dotted(st_.targets[0]).startswith("self."):
                    attrs.append(dotted(st_.targets[0])[5:])
        if not attrs:
            continue
        odd = [n_ for n_ in c.methods if n_.startswith("__eq") and n_ != "__eq__" or n_.startswith("__hash") and n_ != "__hash__"]
        has_eq, has_hash = "__eq__" in c.methods, "__hash__" in c.methods
        uses = all(("self." + a) in norm(c.methods["__eq__"]) for a in attrs) if has_eq else False
        uses_h = all(("self." + a) in norm(c.methods["__hash__"]) for a in attrs) if has_hash else False
        ctx.ob("C18.3", c.qual, has_eq and has_hash and uses and uses_h and not odd,
               "parameterised field %s defines __eq__ and __hash__ over %s" % (c.name, attrs), loc=prog.loc(fm, c.node),
               msg="field class %s has parameters %s but %s: different %s compare equal (or hash alike) and collide in the caches"
                   % (c.name, attrs, "a misspelt method %s" % odd if odd else "no __eq__/__hash__ over them", c.name),
               sample={"rule": "C18.3", "class": c.name, "attrs": attrs, "eq": has_eq, "hash": has_hash, "misspelt": odd})
    for modname in ("verif.axis", "verif.field", "verif.aggregator"):
        base = {"verif.axis": "Axis", "verif.field": "Field", "verif.aggregator": "Aggregator"}[modname]
        bc = prog.cls(modname + "." + base)
        ctx.ob("C18.3", bc.qual, "__eq__" in bc.methods and "__hash__" in bc.methods, "%s defines __eq__ and __hash__" % bc.name,
               msg="%s lost __eq__/__hash__" % bc.qual)


def check_class_exact_equality(ctx):
    """The objects used inside cache keys (fields, axes, aggregators) compare equal only to objects of the SAME class: the folded
    __eq__ of every registered class (own or inherited) returns a value that implies `self.__class__ == other.__class__`.  An
    isinstance test against a shared base (Quantile(0.5) == Threshold(0.5)) hands one field the other's cached arrays."""
    prog = ctx.prog
    from .. import boolq
    for modname, base in (("verif.field", "Field"), ("verif.axis", "Axis"), ("verif.aggregator", "Aggregator")):
        mm = prog.module(modname)
        for c in sorted(mm.classes.values(), key=lambda c_: c_.name):
            if not prog.is_subclass(c, modname + "." + base):
                continue
            hit = prog.lookup_method(c, "__eq__")
            if hit is None:
                continue
            owner, fdef = hit
            ev = symeval.Evaluator(owner.module)
            ev.merge_ifs = True
            try:
                outs = [o for o in ev.run(fdef) if o.kind == "return"]
            except (symeval.Undecided, AnalysisError, RecursionError):
                ctx.undecided_item("C18.3", c.qual, "__eq__ is outside the analysable fragment")
                continue
            ok = bool(outs)
            why = ""
            for o in outs:
                v = o.value
                if not isinstance(v, Rat):
                    ok = False
                    why = "returns a non-scalar value"
                    continue
                full = boolq.conj(list(o.conds) + [(v, True)])
                cls_atoms = []
                for a in v.atoms(deep=True):
                    if a.func in ("cmp_eq", "cmp_ne") and "__class__" in a.key and "$self" in a.key and "$other" in a.key:
                        cls_atoms.append(a)
                    elif a.func in ("cmp_eq", "cmp_ne", "is", "isnot") and "call:type($self)" in a.key and "call:type($other)" in a.key:
                        cls_atoms.append(a)
                for c_, _pol in o.conds:
                    if isinstance(c_, Rat):
                        for a in c_.atoms(deep=True):
                            if a.func in ("cmp_eq", "cmp_ne") and "__class__" in a.key and "$self" in a.key and "$other" in a.key:
                                cls_atoms.append(a)
                if not cls_atoms:
                    cv = v.const_value()
                    if cv == 0:
                        continue          # this exit never says "equal"
                    ok = False
                    why = "no comparison of self.__class__ with other.__class__"
                    continue
                same = boolq.disj([boolq.prop(Rat.of_atom(form.atom("cmp_eq", a.args))) for a in cls_atoms])
                try:
                    if not boolq.implies(full, same):
                        ok = False
                        why = "can return True for objects of different classes"
                except boolq.TooBig:
                    ctx.undecided_item("C18.3", c.qual, "__eq__ condition too large")
            ctx.ob("C18.3", c.qual, ok, "%s.__eq__ (from %s) is true only for objects of the same class" % (c.name, owner.name), loc=prog.loc(owner.module, fdef),
                   msg="%s.__eq__ (defined in %s) %s: instances of different %s classes compare equal and are handed each other's entries of the "
                       "score caches (results then depend on which was requested first)" % (c.name, owner.name, why, base.lower()),
                   nontrivial=(owner is c))


def check_other_memos(ctx):
    """Every dictionary attribute of Data that is filled outside __init__ is a memo: its key must be built from the parameter values
    themselves (no hash()/id()/str() digest, whose collisions silently merge different requests) and contain every parameter the
    function has."""
    prog = ctx.prog
    c = prog.cls("verif.data.Data")
    m = c.module
    dicts = set()
    for n_ in ast.walk(c.methods["__init__"]):
        if isinstance(n_, ast.Assign) and isinstance(n_.value, ast.Call) and dotted(n_.value.func) == "dict":
            for t in n_.targets:
                if (dotted(t) or "").startswith("self."):
                    dicts.add(dotted(t))
    ctx.need("self._get_scores_cache" in dicts, "Data.__init__: dictionary caches not found")
    for name, f in c.methods.items():
        if name == "__init__":
            continue
        params = [a.arg for a in f.args.args if a.arg != "self"]
        for n_ in ast.walk(f):
            if not (isinstance(n_, ast.Assign) and len(n_.targets) == 1 and isinstance(n_.targets[0], ast.Subscript)):
                continue
            t = n_.targets[0]
            if dotted(t.value) not in dicts:
                continue
            keyexpr = t.slice
            if isinstance(keyexpr, ast.Name):
                defs = [a for a in ast.walk(f) if isinstance(a, ast.Assign) and any(dotted(x) == keyexpr.id for x in a.targets)]
                if len(defs) == 1:
                    keyexpr = defs[0].value
            digest = [k for k in ast.walk(keyexpr) if isinstance(k, ast.Call) and dotted(k.func) in ("hash", "id", "str", "repr")]
            names = {x.id for x in ast.walk(keyexpr) if isinstance(x, ast.Name)}
            missing = [p_ for p_ in params if p_ not in names]
            site = c.qual + "." + name
            ctx.ob("C18.3", site, not digest, "memo %s is keyed by the parameter values, not by a digest" % dotted(t.value), loc=prog.loc(m, n_),
                   msg="the key of %s is %s: a hash()/id()/str() digest; objects whose __hash__ coincide (every verif.axis class hashes alike) "
                       "share one entry, so the answer depends on which request came first" % (dotted(t.value), norm(keyexpr)[:60]))
            ctx.ob("C18.3", site, not missing, "memo %s: the key contains every parameter of %s" % (dotted(t.value), name), loc=prog.loc(m, n_),
                   msg="the key of %s (%s) lacks parameter(s) %s of %s" % (dotted(t.value), norm(keyexpr)[:60], missing, name))


def check_determinism(ctx):
    prog = ctx.prog
    n = 0
    for qual, m, c, f in prog.all_functions():
        if not qual.startswith("verif."):
            continue
        draws = [k for k in calls_in(f) if (call_name(m, k) or "").startswith("numpy.random.") and not (call_name(m, k) or "").endswith(".seed")]
        if not draws:
            continue
        seeds = [k for k in calls_in(f) if call_name(m, k) == "numpy.random.seed" and k.args and const(k.args[0]) is not None]
        for d in draws:
            n += 1
            ok = any(s.lineno < d.lineno for s in seeds)
            ctx.ob("C18.4", qual, ok, "random draw %s is preceded by np.random.seed(constant)" % norm(d.func), loc=prog.loc(m, d),
                   msg="%s draws random numbers (%s) without seeding: repeating the same command gives different output" % (qual, norm(d)[:60]),
                   sample={"rule": "C18.4", "function": qual, "draw": norm(d)[:60], "seeded": ok})
    ctx.need(n >= 2, "fewer than 2 random draws found")


def check_ownership(ctx):
    prog = ctx.prog
    private = ("_get_score_cache", "_get_scores_cache", "_inputs", "_timesI", "_leadtimesI", "_locationsI")
    hits = 0
    for qual, m, c, f in prog.all_functions():
        inside = c is not None and c.qual == "verif.data.Data"
        for n_ in ast.walk(f):
            if isinstance(n_, ast.Attribute) and n_.attr in private:
                hits += 1
                ctx.ob("C18.5", qual, inside, "%s is only touched inside Data" % n_.attr, loc=prog.loc(m, n_),
                       msg="%s accesses Data's private %s" % (qual, n_.attr), nontrivial=not inside)
    ctx.need(hits >= 20, "private cache attributes not found")


def run(ctx):
    global _PROG
    _PROG = ctx.prog
    _SUMMARIES.clear()
    _SLICE_SUMMARIES.clear()
    ctx.rule("C18.1", "no request-dependent in-place write into shared storage; no in-place mutation of array parameters")
    ctx.rule("C18.2", "callers never write into arrays returned by get_scores/get_p/get_q")
    ctx.rule("C18.3", "memo key complete; classes inside keys define __eq__/__hash__ over their parameters")
    ctx.rule("C18.4", "every random draw is seeded in the same function")
    ctx.rule("C18.5", "caches and index lists are private to Data")
    check_data_writes(ctx)
    check_param_mutation(ctx)
    check_callers(ctx)
    check_memo_key(ctx)
    check_other_memos(ctx)
    check_class_exact_equality(ctx)
    check_determinism(ctx)
    check_ownership(ctx)
    ctx.rule("C18.6", "no mutable allocation is shared between keys or positions (dict.fromkeys(keys, alloc), [alloc] * n): a write through one entry would show in all")
    from .. import lints
    ctx.control("C18.6", lints.control(), "shared-allocation lint fires on dict.fromkeys(keys, alloc) / [alloc] * n, silent on immutable values")
    for name in sorted(ctx.prog.modules):
        mod = ctx.prog.modules[name]
        hits = lints.shared_allocations(mod.tree)
        ctx.ob("C18.6", name, not hits, "no shared mutable allocation in %s" % name, loc=ctx.prog.loc(mod, hits[0][0]) if hits else None,
               msg="; ".join(h[1] for h in hits))
    ctx.floor("C18.6", 15)
    # controls of the alias domain
    x = S("self._get_score_cache")
    ctx.control("C18.1", alias_of(form.apply("self._apply_axis", [form.apply("self._get_score", [S("f"), S("i")]), S("axis"), S("k")])) == "cache"
                and alias_of(form.apply("nparray", [form.apply("self._get_score", [S("f"), S("i")])])) == "fresh"
                and alias_of(form.apply("self._get_score", [S("f"), S("i")]) - S("clim")) == "fresh",
                "alias domain: _apply_axis(_get_score()) aliases the cache, np.array(copy)/arithmetic are fresh")


CLAIM = {
    "level": "Static effect analysis: all in-place writes of the query path are enumerated with an alias class for their target and a "
             "dependence check on their mask/value; parameter-mutation summaries for the library functions on the path; a per-function alias "
             "taint over ~75 call sites shows callers never write into results; memo-key completeness and __eq__/__hash__ consistency; "
             "seeding of random draws; cache ownership. These exclude the causes of history dependence independently of any request sequence.",
    "note": "Trusted: CPython ast, vsa symbolic folding/event log, the alias transfer rules for ~25 numpy idioms (listed in the module). "
            "Not decided: exhaustive request sequences, library determinism. Known finding: unseeded PIT randomisation.",
    "technique": "static analysis: alias/effect abstract domain over symbolic values (copy vs view: index arrays copy, slices and helpers that may "
                 "return slices give views), mutation summaries, intra-procedural alias taint, "
                 "key-completeness and dunder-consistency lint, class-exact equality of the classes inside cache keys (folded __eq__ implies "
                 "self.__class__ == other.__class__, truth table), seed-dominance, who-may-access; C18.6 shared-allocation lint over every module",
}
