"""C01 - fair comparison: every input is scored on the identical set of cases."""
import ast

from .. import form, q, trace
from ..core import AnalysisError, const, dotted, calls_in, call_name
from ..form import Rat

EXPLANATION = (
    "Provenance / order analysis of Data._get_score, Data.get_scores and Data.__init__ by symbolic folding with an event log "
    "(every store into the per-input cache with its index, value, path conditions and loop context; loops unrolled twice with "
    "distinct index symbols): C01.1 the cross-input NaN union ranges over ALL inputs incl. climatology, is complete before it is "
    "applied, and is applied to every input under no other condition than the construction-time flag; C01.2 the per-request "
    "validity mask is the AND over all requested fields of isnan==0 & isinf==0 and the same index is applied to every field; "
    "C01.3 the array cached for input i is built only from input i's collections and index lists (non-interference); C01.4 an "
    "input without observations receives the observation entry of an input that has it, and an error exit exists otherwise.")
ASSUMPTIONS = ["numpy boolean masking/indexing semantics", "the number of inputs is only known at run time: loops are analysed "
               "for one generic pair of iterations (two distinct symbolic indices)"]
AUDIT = {"functions": ["verif.data.Data._get_score", "verif.data.Data.get_scores"]}

CACHE = "self._get_score_cache"
NWC = "self._get_num_inputs_with_clim"
PER_INPUT_CALLS = ("self._get_time_indices", "self._get_leadtime_indices", "self._get_location_indices")


def S(n):
    return Rat.sym(n)


def _loop_iter(ev, node):
    for l in ev.loops:
        if l["node"] is node:
            return l["iter"]
    return None


def _cache_seq(seq):
    """A sequence that runs over the per-input cache dictionaries - the list itself, a slice of it, or a comprehension
    [cache[field] for cache in <such a sequence>] - as (lo, hi, field or None): positions lo .. hi-1 of self._get_score_cache, with
    hi None for "to the end of the list" (the list has one dictionary per input, climatology included)."""
    if not isinstance(seq, Rat):
        return None
    if seq.key() == "$" + CACHE:
        return Rat.const(0), None, None
    at = seq.as_atom()
    if at is None:
        return None
    if at.func == "getitem" and len(at.args) == 2 and isinstance(at.args[1], tuple) and at.args[1] and at.args[1][0] == "slice":
        inner = _cache_seq(at.args[0])
        if inner is None:
            return None
        lo0, hi0, fld = inner
        _s, a, b, st = at.args[1]
        if st != "None":
            return None
        lo = lo0 if a == "None" else (lo0 + a if isinstance(a, Rat) else None)
        if lo is None:
            return None
        if b == "None":
            hi = hi0
        elif isinstance(b, Rat) and lo0.is_zero() and hi0 is None:
            hi = b
        elif isinstance(b, Rat) and lo0.is_zero() and hi0 is not None and hi0.equals(b):
            hi = b
        else:
            return None
        return lo, hi, fld
    if at.func == "map" and len(at.args) == 2 and isinstance(at.args[0], Rat) and isinstance(at.args[1], Rat):
        inner = _cache_seq(at.args[1])
        body = at.args[0].as_atom("getitem")
        if inner is None or inner[2] is not None or body is None or not isinstance(body.args[0], Rat) or not isinstance(body.args[1], Rat):
            return None
        el = body.args[0].as_atom()
        if el is None or not el.func.startswith("elem") or not (el.args and isinstance(el.args[0], Rat) and el.args[0].key() == at.args[1].key()):
            return None
        return inner[0], inner[1], body.args[1]
    return None


def _cache_entry(x):
    """cache[k][field] however it is reached: -> (k, field) with k a Rat (constant or symbol) or the string "elem" for "the element
    of the loop that runs over the cache list"."""
    if not isinstance(x, Rat):
        return None
    base, idx = q.getitem_chain(x)
    if isinstance(base, Rat) and base.key() == "$" + CACHE and len(idx) == 2 and isinstance(idx[0], Rat):
        return idx[0], idx[1]
    at = x.as_atom()
    if at is None:
        return None
    if at.func.startswith("elem") and at.args and isinstance(at.args[0], Rat):
        cs = _cache_seq(at.args[0])
        if cs is not None and cs[2] is not None:
            return "elem", cs[2]                       # element of [cache[field] for cache in ...]
    if at.func == "getitem" and len(at.args) == 2 and isinstance(at.args[0], Rat) and isinstance(at.args[1], Rat):
        inner = at.args[0].as_atom()
        if inner is not None and inner.func.startswith("elem") and inner.args and isinstance(inner.args[0], Rat):
            cs = _cache_seq(inner.args[0])
            if cs is not None and cs[2] is None:
                return "elem", at.args[1]              # cache[field] with cache the element of a loop over the list
        cs = _cache_seq(at.args[0])
        if cs is not None and cs[2] is not None:
            return cs[0] + at.args[1], cs[2]           # arrays[k]
        if inner is not None and inner.func == "getitem" and len(inner.args) == 2 and isinstance(inner.args[0], Rat) and isinstance(inner.args[1], Rat):
            cs = _cache_seq(inner.args[0])
            if cs is not None and cs[2] is None:
                return cs[0] + inner.args[1], at.args[1]   # caches[k][field]
    return None


def _range_bounds(it):
    """(start, stop) of a range(...) iterator value - or of a sequence over the cache dictionaries (stop = all inputs) - or None."""
    at = it.as_atom("call:range") if isinstance(it, Rat) else None
    if at is None:
        cs = _cache_seq(it) if isinstance(it, Rat) else None
        if cs is not None:
            return cs[0], (cs[1] if cs[1] is not None else form.apply(NWC, []))
        return None
    if len(at.args) == 1:
        return Rat.const(0), at.args[0]
    if len(at.args) == 2:
        return at.args[0], at.args[1]
    return None


_PM = {}


def _parents(f):
    if id(f) not in _PM:
        pm = {}
        for n in ast.walk(f):
            for c in ast.iter_child_nodes(n):
                pm[c] = n
        _PM[id(f)] = pm
    return _PM[id(f)]


def check_get_score(ctx):
    prog = ctx.prog
    site = "verif.data.Data._get_score"
    ev = trace.trace(prog, site)
    m = prog.module("verif.data")
    stores = trace.stores(ev, CACHE)
    ctx.need(stores, "%s: no store into the per-input cache found" % site)
    loaders = [e for e in stores if len(e["indices"]) == 2]
    masks = [e for e in stores if len(e["indices"]) == 3]
    # the same stores made through a loop variable that runs over the cache dictionaries (for cache in caches: cache[field][mask] = nan)
    # or over their arrays (for array in [c[field] for c in caches]: array[mask] = nan), brought to the indexed form
    for e in trace.stores(ev):
        old_ = e.get("old")
        oa = old_.as_atom() if isinstance(old_, Rat) else None
        if e["root"] != CACHE and oa is not None and oa.func == "getitem" and len(oa.args) == 2 and isinstance(oa.args[0], Rat) and isinstance(oa.args[1], Rat) \
                and len(e["indices"]) == 1:
            # array[mask] = nan with array = cache[field], cache the element of a loop over the cache list
            ia = oa.args[0].as_atom()
            if ia is not None and ia.func.startswith("elem") and ia.args and isinstance(ia.args[0], Rat):
                cs0 = _cache_seq(ia.args[0])
                if cs0 is not None and cs0[2] is None:
                    masks.append(dict(e, root=CACHE, indices=[Rat.sym("pos:" + ia.func), oa.args[1], e["indices"][0]]))
                    continue
        if e["root"] == CACHE or oa is None or not oa.func.startswith("elem") or not (oa.args and isinstance(oa.args[0], Rat)):
            continue
        cs = _cache_seq(oa.args[0])
        if cs is None:
            continue
        pos = Rat.sym("pos:" + oa.func)
        if cs[2] is None and len(e["indices"]) == 2:
            masks.append(dict(e, root=CACHE, indices=[pos, e["indices"][0], e["indices"][1]]))
        elif cs[2] is not None and len(e["indices"]) == 1:
            masks.append(dict(e, root=CACHE, indices=[pos, cs[2], e["indices"][0]]))
    ctx.need(loaders and masks, "%s: loader / propagation stores not recognised" % site)

    # ---- C01.3 / C01.4: per-input discipline of what is loaded ---------------------------------
    n_load = n_share = 0
    seen = set()
    for e in loaders:
        k_in, fld = e["indices"]
        val = e["value"]
        key = (k_in.key(), fld.key(), val.key() if isinstance(val, Rat) else str(val))
        if key in seen:
            continue
        seen.add(key)
        loc = prog.loc(m, e["node"])
        base, idx = q.getitem_chain(val)
        if isinstance(base, Rat) and base.key() == "$" + CACHE and len(idx) == 2:
            # observation sharing: cache[i][f] = cache[j][f]
            n_share += 1
            same_field = idx[1].equals(fld)
            guard_i = q.has_cond(e["conds"], lambda c: c.as_atom() is not None and c.as_atom().func == "notin"
                                 and c.as_atom().args[0].equals(fld) and k_in.key() in c.key(), True)
            guard_j = q.has_cond(e["conds"], lambda c: c.as_atom() is not None and c.as_atom().func == "in"
                                 and c.as_atom().args[0].equals(fld) and idx[0].key() in c.key(), True)
            obs_branch = q.has_cond(e["conds"], lambda c: "call:verif.field.Obs()" in c.key() and "$field" in c.key(), True)
            ctx.ob("C01.4", site, same_field and guard_i and guard_j and obs_branch,
                   "an input lacking the observation field receives the entry of an input that has it", loc=loc,
                   msg="observation sharing copies %s into [%s][%s] under conditions %s" % (val, k_in, fld, [(c.key()[:60], p) for c, p in e["conds"]]),
                   sample={"rule": "C01.4", "store": "cache[%s][%s] <- %s" % (k_in, fld, val)})
            continue
        n_load += 1
        bad = []
        for a in q.atoms(val):
            if a.func == "getitem" and isinstance(a.args[0], Rat) and a.args[0].key() == "$self._inputs":
                if not (isinstance(a.args[1], Rat) and a.args[1].equals(k_in)):
                    bad.append("self._inputs[%s]" % a.args[1])
            if a.func in PER_INPUT_CALLS:
                if not (a.args and isinstance(a.args[0], Rat) and a.args[0].equals(k_in)):
                    bad.append("%s(%s)" % (a.func, a.args[0] if a.args else ""))
            if a.func == "getitem" and isinstance(a.args[0], Rat) and a.args[0].key() in ("$self._timesI", "$self._leadtimesI", "$self._locationsI"):
                if not (isinstance(a.args[1], Rat) and a.args[1].equals(k_in)):
                    bad.append("%s[%s]" % (a.args[0], a.args[1]))
            if a.func == "getitem" and isinstance(a.args[0], Rat) and a.args[0].key() == "$" + CACHE:
                bad.append("cache[%s]" % a.args[1])
            if a.func.startswith("elem") and a.args and isinstance(a.args[0], Rat) and a.args[0].key() == "$self._inputs":
                bad.append("another input picked by iterating over self._inputs")
        uses_own = any(a.func == "getitem" and isinstance(a.args[0], Rat) and a.args[0].key() == "$self._inputs" for a in q.atoms(val))
        ctx.ob("C01.3", site, not bad and uses_own, "array cached for input %s is built only from that input's data and index lists" % k_in,
               loc=loc, msg="the array stored for input %s reads %s" % (k_in, ", ".join(sorted(set(bad))) or "no input at all"),
               sample={"rule": "C01.3", "store": "cache[%s][%s]" % (k_in, str(fld)[:60]), "foreign_reads": bad})
        # every input is loaded whatever the inputs before it contained: the loop over the inputs that performs this load is not left
        # early (a `break` / `return` after the first input that has the field hands that input's array to all the others)
        kk = k_in.key()
        if kk.endswith("#2"):
            pm = _parents(prog.own_method(site))
            n_ = e["node"]
            loop = None
            while n_ in pm:
                n_ = pm[n_]
                if isinstance(n_, ast.For) and any(isinstance(t, ast.Name) and ("$" + t.id + "#2") == kk for t in ast.walk(n_.target)):
                    loop = n_
                    break
            early = []
            if loop is not None:
                stack = list(loop.body)
                while stack:
                    x = stack.pop()
                    if isinstance(x, (ast.Break, ast.Return)):
                        early.append(x)
                    if isinstance(x, (ast.For, ast.While, ast.FunctionDef)):
                        stack.extend(y for y in ast.walk(x) if isinstance(y, ast.Return) and not isinstance(x, ast.FunctionDef))
                        continue
                    stack.extend(ast.iter_child_nodes(x))
            if loop is not None:         # (a load that sits in a helper evaluated in place has its loop elsewhere: nothing to decide here)
                ctx.ob("C01.3", site, not early, "the loop that loads input %s visits every input (no break / return inside)" % k_in, loc=loc,
                       msg="the loop over the inputs that loads each input's own array is left early (line %s): the inputs after the first one that has "
                           "the field are given that input's array although they have their own data" % ", ".join(str(x.lineno) for x in early),
                       sample={"rule": "C01.3", "store": "cache[%s]" % k_in, "early_exits": [x.lineno for x in early]})
        # dimension-position agreement of the three indexing steps (also C02.2)
        pos = {}
        for a in q.atoms(val, "getitem"):
            ix = a.args[1]
            if isinstance(ix, tuple) and len(ix) == 3:
                for p_, comp in enumerate(ix):
                    if isinstance(comp, Rat):
                        for c_ in q.atoms(comp):
                            if c_.func in PER_INPUT_CALLS:
                                pos[c_.func] = p_
        want = {"self._get_time_indices": 0, "self._get_leadtime_indices": 1, "self._get_location_indices": 2}
        ctx.ob("C01.3", site, pos == want, "time/leadtime/location index lists subscript positions 0/1/2", loc=loc,
               msg="index lists are applied at positions %s" % pos)
    if not ctx.findings:
        ctx.need(n_load >= 2, "%s: fewer than two loading stores (observation branch and general branch)" % site)
        ctx.need(n_share >= 1, "%s: the observation-sharing store was not found" % site)
    # error exit when no input has observations
    errs = [o for o in ev.outcomes if o.kind == "error" and q.has_cond(o.conds, lambda c: "call:verif.field.Obs()" in c.key() and "$field" in c.key(), True)]
    ctx.ob("C01.4", site, len(errs) >= 1, "no input has observations -> error exit", msg="the 'No files have observations' error exit is gone")

    # ---- C01.1: cross-input missing-value propagation --------------------------------------------
    branches = {}
    for e in masks:
        obs_branch = q.has_cond(e["conds"], lambda c: "call:verif.field.Obs()" in c.key() and "$field" in c.key(), True)
        branches.setdefault(obs_branch, []).append(e)
    ctx.ob("C01.1", site, set(branches) == {True, False}, "propagation block reached from the observation branch and the general branch",
           msg="the cross-input propagation block is only reached on branches %s" % sorted(branches))
    n_total = form.apply(NWC, [])
    for obs_branch, evs in sorted(branches.items()):
        e0 = evs[0]
        loc = prog.loc(m, e0["node"])
        tag = "obs branch" if obs_branch else "general branch"
        ok_val = all(isinstance(e["value"], Rat) and e["value"].key() == "$nan" for e in evs)
        ctx.ob("C01.1", site, ok_val, "%s: masked cases are set to NaN" % tag, loc=loc, msg="propagation stores %s" % e0["value"])
        # the mask: OR of isnan(cache[k][field]) over ALL k
        fld = e0["indices"][1]
        mask = e0["indices"][2]
        members = q.leaves(mask, "or")
        ks = []
        shape_ok = True
        for mem in members:
            at = q.top(mem, "isnan")
            ent = _cache_entry(at.args[0]) if at is not None and at.args else None
            if ent is None or not (isinstance(ent[1], Rat) and ent[1].equals(fld)):
                shape_ok = False
            else:
                ks.append(ent[0] if isinstance(ent[0], Rat) else Rat.sym("pos:elem"))
        ctx.ob("C01.1", site, shape_ok and len(ks) >= 2, "%s: mask is the OR of isnan(cache[k][field]) of the same field" % tag, loc=loc,
               msg="the missing-value mask is %s" % str(mask)[:300],
               sample={"rule": "C01.1", "branch": tag, "mask": str(mask)[:300]})
        # where is the mask accumulated, over which range?
        acc = [a for a in trace.assigns(ev) if isinstance(a["value"], Rat) and a["value"].key() == mask.key() and a["loops"]]
        seed0 = any(k.const_value() == 0 for k in ks)
        cover_ok = False
        acc_loop = None
        if acc:
            acc_loop = acc[-1]["loops"][-1]
            b = _range_bounds(_loop_iter(ev, acc_loop))
            if b is not None:
                start, stop = b
                cover_ok = stop.equals(n_total) and (start.is_zero() or (start.const_value() == 1 and seed0))
        ctx.ob("C01.1", site, cover_ok, "%s: the union ranges over all inputs including the climatology (0 .. %s)" % (tag, NWC), loc=loc,
               msg="the missing-value union does not range over inputs 0 .. %s-1 (loop %s, seed index 0 %s)"
                   % (NWC, _loop_iter(ev, acc_loop) if acc_loop is not None else "not found", "present" if seed0 else "absent"))
        # application: every input, after the union is complete
        store_loops = set(e["loops"][-1] for e in evs if e["loops"])
        applied_all = False
        complete = True
        for sl in store_loops:
            b = _range_bounds(_loop_iter(ev, sl))
            if b is not None and b[0].is_zero() and b[1].equals(n_total):
                applied_all = True
            if acc_loop is not None and sl is acc_loop:
                complete = False
        idx_ok = all(isinstance(e["indices"][0], Rat) and e["indices"][0].key().startswith("$") for e in evs if e["loops"])
        ctx.ob("C01.1", site, applied_all and idx_ok, "%s: the mask is written into every input's array" % tag, loc=loc,
               msg="the NaN mask is not written into the arrays of all inputs 0 .. %s-1" % NWC)
        ctx.ob("C01.1", site, complete and bool(acc), "%s: the mask is applied only after the union over all inputs is complete" % tag, loc=loc,
               msg="the mask is applied inside the loop that still accumulates it: inputs are masked with a partial union")
        same_mask = all(e["indices"][2].key() == mask.key() and e["indices"][1].equals(fld) for e in evs)
        ctx.ob("C01.1", site, same_mask, "%s: one mask, one field for all inputs" % tag, loc=loc, msg="different masks/fields are used for different inputs")
        # conditions: only the construction-time flag
        for e in evs:
            extra = [c.key()[:80] for c, pol in e["conds"] if pol and "$input_index" in c.key()]
            flag = q.has_cond(e["conds"], lambda c: c.key() == "$self._remove_missing_across_all", True)
            ctx.ob("C01.1", site, flag and not extra, "%s: propagation depends only on the construction-time flag" % tag,
                   loc=prog.loc(m, e["node"]), msg="propagation is conditional on %s" % (extra or "something other than remove_missing_across_all"),
                   nontrivial=False)
    # the flag defaults to True and the driver does not switch it off
    init = prog.own_method("verif.data.Data.__init__")
    names = [a.arg for a in init.args.args]
    defaults = dict(zip(names[len(names) - len(init.args.defaults):], init.args.defaults))
    d = defaults.get("remove_missing_across_all")
    ctx.ob("C01.1", "verif.data.Data.__init__", d is not None and const(d) is True, "remove_missing_across_all defaults to True",
           loc=prog.loc(m, init), msg="the default of remove_missing_across_all is %s" % (const(d) if d is not None else "gone"))
    drv = prog.module("verif.driver")
    for call in calls_in(prog.func("verif.driver.run")):
        if call_name(drv, call) == "verif.data.Data":
            kw = [k.arg for k in call.keywords]
            ctx.ob("C01.1", "verif.driver.run", "remove_missing_across_all" not in kw, "the driver keeps the default",
                   loc=prog.loc(drv, call), msg="the driver overrides remove_missing_across_all")
    ctx.floor("C01.1", 12)
    ctx.floor("C01.3", 4)
    ctx.floor("C01.4", 2)


def _check_get_scores_shape_based(ctx):   # superseded by the value-based check_get_scores below (kept for reference, not run)
    prog = ctx.prog
    site = "verif.data.Data.get_scores"
    m = prog.module("verif.data")
    ev = trace.trace(prog, site)
    # what is appended to the result list in the two unrolled iterations
    apps = [a for a in trace.assigns(ev, "scores") if isinstance(a["value"], list) and a["loops"]]
    ctx.need(apps, "%s: the result list is not filled in a loop over the requested fields" % site)
    final = max(apps, key=lambda a: len(a["value"]))["value"]
    ctx.need(len(final) >= 2, "%s: two iterations of the field loop expected" % site)
    fill_loop = apps[-1]["loops"][-1]
    b = _range_bounds(_loop_iter(ev, fill_loop))
    nfields = None
    if b is not None:
        nfields = b[1]
    ctx.ob("C01.2", site, b is not None and b[0].is_zero() and "fields" in b[1].key(), "one result per requested field",
           loc=prog.loc(m, fill_loop), msg="the field loop iterates over %s" % _loop_iter(ev, fill_loop))
    # the validity mask after the loop
    valids = [a for a in trace.assigns(ev, "valid") if a["loops"]]
    ctx.need(valids, "%s: validity accumulator not found" % site)
    valid = valids[-1]["value"]
    leaves = q.leaves(valid, "and")
    isnan_x, isinf_x, other = [], [], []
    for lf in leaves:
        at = q.top(lf, "cmp_eq")
        inner = at.args[0].as_atom() if at is not None and at.args[1].is_zero() else None
        if inner is not None and inner.func == "isnan":
            isnan_x.append(inner.args[0])
        elif inner is not None and inner.func == "isinf":
            isinf_x.append(inner.args[0])
        else:
            other.append(lf)
    ctx.ob("C01.2", site, not other and isinstance(valid, Rat) and (valid.as_atom("and") is not None),
           "validity = AND over the requested fields of (isnan == 0) & (isinf == 0)", loc=prog.loc(m, valids[-1]["node"]),
           msg="the validity mask is not a pure conjunction of non-NaN/non-inf tests: %s" % ([str(o)[:120] for o in other] or str(valid)[:200]),
           sample={"rule": "C01.2", "n_conjuncts": len(leaves)})
    for k, cur in enumerate(final):
        has_nan = any(x.equals(cur) for x in isnan_x)
        has_inf = any(x.equals(cur) for x in isinf_x)
        ctx.ob("C01.2", site, has_nan, "field #%d of the request contributes its NaN pattern to the mask" % (k + 1), loc=prog.loc(m, valids[-1]["node"]),
               msg="requested field #%d is not part of the validity mask (isnan)" % (k + 1))
        ctx.ob("C01.2", site, has_inf, "field #%d of the request contributes its non-finite values to the mask" % (k + 1), loc=prog.loc(m, valids[-1]["node"]),
               msg="non-finite values of requested field #%d (e.g. from dividing by a zero climatology) are not removed" % (k + 1))
    # application to every element
    st = trace.stores(ev, "scores")
    sliced = [e for e in st if len(e["indices"]) == 1 and q.has_cond(e["conds"], lambda c: "call:verif.axis.All()" in c.key(), False)]
    whole = [e for e in st if len(e["indices"]) == 2 and q.has_cond(e["conds"], lambda c: "call:verif.axis.All()" in c.key(), True)]
    ctx.need(sliced and whole, "%s: application of the mask (sliced / whole-array) not recognised" % site)
    where_valid = form.apply("where", [valid])
    for e in sliced:
        idxs = [a for a in q.atoms(e["value"], "where")]
        ok = isinstance(e["value"], Rat) and any(Rat.of_atom(a).equals(where_valid) for a in idxs)
        b2 = _range_bounds(_loop_iter(ev, e["loops"][-1])) if e["loops"] else None
        rng = b2 is not None and b2[0].is_zero() and nfields is not None and b2[1].equals(nfields)
        ctx.ob("C01.2", site, ok and rng, "sliced request: every field is indexed with where(valid)", loc=prog.loc(m, e["node"]),
               msg="a field of a sliced request is cut with %s over %s" % ([str(Rat.of_atom(a))[:100] for a in idxs], _loop_iter(ev, e["loops"][-1]) if e["loops"] else None))
    invalid = form.apply("where", [form.apply("cmp_eq", [valid, Rat.const(0)])])
    for e in whole:
        ix = e["indices"][1]
        comps = ix if isinstance(ix, tuple) else (ix,)
        ok = all(isinstance(c_, Rat) and c_.as_atom("getitem") is not None and c_.as_atom("getitem").args[0].equals(invalid) for c_ in comps) \
            and isinstance(e["value"], Rat) and e["value"].key() == "$nan"
        b2 = _range_bounds(_loop_iter(ev, e["loops"][-1])) if e["loops"] else None
        rng = b2 is not None and b2[0].is_zero() and nfields is not None and b2[1].equals(nfields)
        ctx.ob("C01.2", site, ok and rng, "whole-array request: the complement of valid is set to NaN in every field", loc=prog.loc(m, e["node"]),
               msg="whole-array masking uses %s" % str(ix)[:200])
    ctx.floor("C01.2", 8)


def _split_memo(v):
    """The value stored in the request cache -> (placeholder branch or None, [result of field 1, result of field 2])."""
    if isinstance(v, list):
        return None, v
    at = v.as_atom("ifexp") if isinstance(v, Rat) else None
    if at is not None:
        for ph, lst in ((at.args[1], at.args[2]), (at.args[2], at.args[1])):
            la = lst.as_atom("pylist") if isinstance(lst, Rat) else None
            if la is not None and la.args and isinstance(la.args[0], tuple):
                return ph, list(la.args[0])
    la = v.as_atom("pylist") if isinstance(v, Rat) else None
    if la is not None and la.args and isinstance(la.args[0], tuple):
        return None, list(la.args[0])
    return None, None


def _mask_fields(valid):
    """valid = AND_k (isnan(X_k) == 0) & (isinf(X_k) == 0)  ->  ({key of X_k with isnan}, {with isinf}, other conjuncts)"""
    nans, infs, other = {}, {}, []
    for lf in q.leaves(valid, "and"):
        at = q.top(lf, "cmp_eq")
        inner = at.args[0].as_atom() if at is not None and isinstance(at.args[0], Rat) and at.args[1].is_zero() else None
        if inner is not None and inner.func == "isnan" and isinstance(inner.args[0], Rat):
            nans[inner.args[0].key()] = inner.args[0]
        elif inner is not None and inner.func == "isinf" and isinstance(inner.args[0], Rat):
            infs[inner.args[0].key()] = inner.args[0]
        else:
            other.append(lf)
    return nans, infs, other


def check_get_scores(ctx):
    """Value-based form of C01.2 (independent of local names and of how the loops are written): get_scores is folded once with the
    axis fixed to All (whole-array request) and once with another axis; the list stored in the request cache is taken apart."""
    prog = ctx.prog
    site = "verif.data.Data.get_scores"
    m = prog.module("verif.data")
    for case in ("All", "Time"):
        ev = trace.trace(prog, site, env={"axis": form.apply("call:verif.axis." + case, [])})
        st = trace.stores(ev, "self._get_scores_cache")
        ctx.need(st, "%s: the result is not stored in the request cache" % site)
        what = "whole-array request" if case == "All" else "sliced request"
        # every store into the request cache is examined (a short-cut that caches something else for some requests included)
        for extra in st[:-1]:
            ph_x, res_x = _split_memo(extra["value"])
            ok_x = res_x is not None and ph_x is not None and all(isinstance(r_, Rat) and (r_.as_atom("setitem") if case == "All" else r_.as_atom("getitem")) is not None
                                                                  and (case == "All" or (isinstance(r_.as_atom("getitem").args[1], Rat) and r_.as_atom("getitem").args[1].as_atom("where") is not None))
                                                                  for r_ in res_x)
            ctx.ob("C01.2", site, ok_x, "%s: an additional store into the request cache holds results of the same form (masked / cut with np.where(valid), NaN placeholder)" % what,
                   loc=prog.loc(m, extra["node"]),
                   msg="%s: under %s the request cache receives %s, which is not the masked result with its NaN placeholder for an empty selection"
                       % (what, [str(c_)[:50] for c_, _ in extra["conds"][-2:]], str(extra["value"])[:120]))
        loc = prog.loc(m, st[-1]["node"])
        ph, res = _split_memo(st[-1]["value"])
        ctx.need(res is not None and len(res) == 2, "%s (axis %s): the cached value is not a list with one result per requested field" % (site, case))
        fields_x, valids = [], []
        for k, r in enumerate(res):
            if case == "All":
                at = r.as_atom("setitem") if isinstance(r, Rat) else None
                ok_shape = at is not None and isinstance(at.args[0], Rat) and at.args[0].as_atom("nparray") is not None and isinstance(at.args[2], Rat) and at.args[2].key() == "$nan"
                ctx.ob("C01.2", site, ok_shape, "%s: field #%d is a copy of the array with the invalid cases set to NaN" % (what, k + 1), loc=loc,
                       msg="%s: result #%d is %s, expected a copy (np.array) of the field with NaN written where any requested field is invalid"
                           % (what, k + 1, str(r)[:160]))
                if not ok_shape:
                    continue
                cp = at.args[0].as_atom("nparray")
                kw = {x[0][3:]: x[1] for x in cp.args if isinstance(x, tuple) and x and isinstance(x[0], str) and x[0].startswith("kw:")}
                copied = not ("copy" in kw and isinstance(kw["copy"], Rat) and kw["copy"].const_value() == 0)
                ctx.ob("C01.2", site, copied, "%s: field #%d is really copied before it is masked" % (what, k + 1), loc=loc,
                       msg="%s: np.array(..., copy=False) does not copy: the cached array shared by all requests is masked in place" % what)
                x = cp.args[0]
                idx = at.args[1]
                ws = [w for w in q.atoms(Rat.of_atom(form.atom("tmp", (idx,))) if False else _as_rat(idx), "where")]
                comps = idx if isinstance(idx, tuple) else (idx,)
                ok_idx = len(comps) == 3 and all(isinstance(c_, Rat) and c_.as_atom("getitem") is not None and isinstance(c_.as_atom("getitem").args[1], Rat)
                                                 and c_.as_atom("getitem").args[1].const_value() == j for j, c_ in enumerate(comps)) and \
                    len({c_.as_atom("getitem").args[0].key() for c_ in comps}) == 1
                ctx.ob("C01.2", site, ok_idx, "%s: NaN is written at (I[0], I[1], I[2]) of one np.where result" % what, loc=loc,
                       msg="%s: the positions blanked in field #%d are %s" % (what, k + 1, str(idx)[:160]))
                w = comps[0].as_atom("getitem").args[0].as_atom("where") if ok_idx else None
                inv = w.args[0].as_atom("cmp_eq") if w is not None and isinstance(w.args[0], Rat) else None
                valid = inv.args[0] if inv is not None and inv.args[1].is_zero() else None
                ctx.ob("C01.2", site, valid is not None, "%s: the blanked positions are those where the joint validity mask is 0" % what, loc=loc,
                       msg="%s: positions are selected by %s, expected np.where(valid == 0)" % (what, str(w.args[0])[:120] if w is not None else "?"))
            else:
                at = r.as_atom("getitem") if isinstance(r, Rat) else None
                w = at.args[1].as_atom("where") if at is not None and isinstance(at.args[1], Rat) else None
                ok_shape = w is not None and isinstance(at.args[0], Rat)
                ctx.ob("C01.2", site, ok_shape, "%s: field #%d is cut with np.where(valid)" % (what, k + 1), loc=loc,
                       msg="%s: result #%d is %s, expected field[np.where(valid)]" % (what, k + 1, str(r)[:160]))
                if not ok_shape:
                    continue
                x = at.args[0]
                valid = w.args[0] if isinstance(w.args[0], Rat) else None
            fields_x.append(x)
            valids.append(valid)
        if len(fields_x) == 2 and all(v is not None for v in valids):
            ctx.ob("C01.2", site, valids[0].equals(valids[1]), "%s: both fields are masked with the same validity mask" % what, loc=loc,
                   msg="%s: the two requested fields are masked with different masks" % what)
            nans, infs, other = _mask_fields(valids[0])
            for k, x in enumerate(fields_x):
                ctx.ob("C01.2", site, x.key() in nans and x.key() in infs and not other,
                       "%s: the mask removes NaN (isnan == 0) and non-finite values (isinf == 0) of field #%d, and nothing else" % (what, k + 1), loc=loc,
                       msg="%s: field #%d (%s) is %s of the validity mask%s" % (what, k + 1, str(x)[:60], "part" if x.key() in nans and x.key() in infs else "NOT part",
                                                                                   "; extra conjuncts %s" % [str(o)[:60] for o in other] if other else ""))
            ctx.ob("C01.2", site, not fields_x[0].equals(fields_x[1]), "%s: the two results come from the two requested fields" % what, loc=loc,
                   msg="%s: both results are taken from the same field" % what)
        if ph is not None:
            body = None
            pa = ph.as_atom() if isinstance(ph, Rat) else None
            if pa is not None and pa.func in ("map", "repeat") and isinstance(pa.args[0], Rat):
                body = pa.args[0]
            want = Rat.sym("nan") * form.apply("zeros", [Rat.const(1), Rat.sym("float")])
            ok_ph = body is not None and (body.equals(want) or body.equals(Rat.sym("nan") * form.apply("zeros", [Rat.const(1)])))
            # one placeholder per requested field: the comprehension runs over the fields (or over range(len(fields)))
            seq = pa.args[1] if pa is not None and len(pa.args) > 1 and isinstance(pa.args[1], Rat) else None
            flds = form.apply("ifexp", [form.apply("not", [form.apply("call:isinstance", [Rat.sym("fields"), Rat.sym("list")])]),
                                        form.apply("pylist", [(Rat.sym("fields"),)]), Rat.sym("fields")])
            n_ok = False
            if seq is not None:
                rg = seq.as_atom("call:range")
                if pa.func == "repeat":
                    n_ok = seq.equals(form.apply("len", [flds]))
                elif rg is not None:
                    n_ok = (len(rg.args) == 1 and rg.args[0].equals(form.apply("len", [flds]))) or \
                        (len(rg.args) == 2 and isinstance(rg.args[0], Rat) and rg.args[0].is_zero() and rg.args[1].equals(form.apply("len", [flds])))
                else:
                    n_ok = seq.equals(flds)
            ctx.ob("C01.2", site, n_ok, "%s: the placeholder has one entry per requested field" % what, loc=loc,
                   msg="%s: the NaN placeholder is built over %s, not over the requested fields" % (what, str(seq)[:100]))
            # the guard: the first result has no rows
            top = st[-1]["value"].as_atom("ifexp") if isinstance(st[-1]["value"], Rat) else None
            g = top.args[0].as_atom("cmp_eq") if top is not None and isinstance(top.args[0], Rat) else None
            g_ok = False
            if g is not None and g.args[1].is_zero() and isinstance(g.args[0], Rat):
                gi = g.args[0].as_atom("getitem")
                if gi is not None and isinstance(gi.args[1], Rat) and gi.args[1].const_value() == 0 and isinstance(gi.args[0], Rat):
                    sh = gi.args[0].as_atom("attr:shape")
                    g_ok = sh is not None and isinstance(sh.args[0], Rat) and any(sh.args[0].equals(r_) for r_ in res if isinstance(r_, Rat)) \
                        and top.args[1].key() == ph.key()
            ctx.ob("C01.2", site, g_ok, "%s: the placeholder is used exactly when a result has no rows (shape[0] == 0)" % what, loc=loc,
                   msg="%s: the empty-selection guard is %s" % (what, str(top.args[0])[:140] if top is not None else "?"))
            ctx.ob("C01.2", site, ok_ph, "%s: an empty selection is replaced by one NaN per requested field" % what, loc=loc,
                   msg="%s: the placeholder for an empty selection is %s, expected [nan * zeros(1)] per field" % (what, str(ph)[:120]))
        else:
            ctx.ob("C01.2", site, False, "%s: an empty selection is replaced by one NaN per requested field" % what, loc=loc,
                   msg="%s: no NaN placeholder for an empty selection is cached" % what)
        # what is returned on the miss path: the cached list, or its first element for a single field (and only then)
        single = form.apply("not", [form.apply("call:isinstance", [Rat.sym("fields"), Rat.sym("list")])])
        memo_v = st[-1]["value"]
        memo_r = memo_v if isinstance(memo_v, Rat) else form.apply("pylist", [tuple(memo_v)])
        from .. import boolq
        got_single, got_list = [], []
        for o in ev.outcomes:
            if o.kind != "return" or not isinstance(o.value, (Rat, list)):
                continue
            v = o.value if isinstance(o.value, Rat) else form.apply("pylist", [tuple(o.value)])
            pre = boolq.conj(o.conds)
            first = form.apply("getitem", [memo_r, Rat.const(0)])
            # reading the entry back from the cache under the key it was stored with is the same object
            kx = st[-1]["indices"][0]
            back = form.apply("getitem", [Rat.sym("self._get_scores_cache"), kx if isinstance(kx, (Rat, tuple)) else (kx,)])
            back0 = form.apply("getitem", [back, Rat.const(0)])
            items = [(pre, v)] if (v.equals(memo_r) or v.equals(first) or v.equals(back) or v.equals(back0)) else _guarded_leaves(v, pre, stop=(memo_r, first, back, back0))
            def _is_hit(c_, pol):
                if not (isinstance(c_, Rat) and "_get_scores_cache" in c_.key()):
                    return False
                a_ = c_.as_atom()
                if a_ is not None and a_.func in ("or", "and"):
                    return False                     # a joined hit-or-miss path: what it returns is checked like a miss
                if a_ is not None and (a_.func == "notin" or (a_.func.startswith("expr:") and " not in " in a_.func)):
                    return not pol                   # `if key not in cache:` taken = the MISS path
                return pol
            hit = any(_is_hit(c_, pol) for c_, pol in o.conds)
            if hit:
                continue                       # the cache-hit path (checked by C18)
            for cnd, leaf in items:
                if leaf.equals(memo_r) or leaf.equals(back):
                    got_list.append(cnd)
                elif leaf.equals(first) or leaf.equals(back0):
                    got_single.append(cnd)
        sp = boolq.prop(single)
        ok_ret = bool(got_single) and bool(got_list)
        try:
            ok_ret = ok_ret and boolq.implies(boolq.disj(got_single), sp) and boolq.implies(boolq.disj(got_list), ("not", sp))
        except boolq.TooBig:
            pass
        ctx.ob("C01.2", site, ok_ret, "%s: a single field gets element 0 of the cached list, a list of fields gets the list" % what, loc=loc,
               msg="%s: the miss path does not return scores[0] exactly for a single (non-list) field and the list otherwise" % what)
    ctx.floor("C01.2", 16)


def _guarded_leaves(v, pre, stop=()):
    """(condition, leaf) pairs of a nest of conditional expressions; a sub-value equal to one of ``stop`` is a leaf even when it is
    itself conditional (`scores[0] if single else scores` with scores a conditional value)."""
    from .. import boolq
    at = v.as_atom("ifexp") if isinstance(v, Rat) else None
    if at is not None and any(isinstance(s_, Rat) and v.equals(s_) for s_ in stop):
        return [(pre, v)]
    if at is not None and all(isinstance(x, Rat) for x in at.args):
        c = boolq.prop(at.args[0])
        return _guarded_leaves(at.args[1], ("and", [pre, c]), stop) + _guarded_leaves(at.args[2], ("and", [pre, ("not", c)]), stop)
    return [(pre, v)]


def _as_rat(idx):
    if isinstance(idx, Rat):
        return idx
    return form.apply("pylist", [tuple(x for x in idx if isinstance(x, Rat))])


def run(ctx):
    ctx.rule("C01.1", "cross-input missing-value propagation: union over all inputs incl. climatology, complete before applied, applied to all")
    ctx.rule("C01.2", "per-request validity mask, by cases (axis All / other): AND over all requested fields of isnan==0 & isinf==0; copy + NaN at np.where(valid == 0) resp. cut at np.where(valid); NaN placeholder for empty selections")
    ctx.rule("C01.3", "per-input discipline: the array cached for input i reads only input i (non-interference)")
    ctx.rule("C01.4", "observation sharing between inputs; error when no input has observations")
    check_get_score(ctx)
    check_get_scores(ctx)


CLAIM = {
    "level": "Static provenance/order analysis of the mechanism that makes the comparison fair: which inputs the missing-value union ranges "
             "over, when and to what it is applied, what the per-request mask conjoins and to which fields it is applied, and which "
             "input's data can reach which input's array. These are necessary conditions for every dataset; the numbers are not examined.",
    "note": "Trusted: CPython ast, vsa symbolic folding with event log (loops unrolled twice with distinct symbolic indices), numpy masking "
            "semantics. Not decided: equality of the resulting numbers; inputs whose dimension values collide numerically (C02/C03).",
    "technique": "static analysis: C01.3 the per-input loader loop has no early exit; symbolic def-use folding with store/call event log, provenance of cache stores, loop-range and "
                 "ordering (must-complete-before) checks; C01.2 by case evaluation (the function folded with the axis fixed to All / another "
                 "axis, the list stored in the request cache taken apart: copy + NaN at np.where(valid == 0) resp. cut at np.where(valid), one "
                 "mask = AND of isnan==0 & isinf==0 over all requested fields, NaN placeholder, what is returned); functions proven "
                 "equivalent to the verified reference (summary comparison) are analysed in reference form",
}
