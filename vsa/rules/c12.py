"""C12 - text and CSV outputs report exactly the computed scores."""
import ast
import re

from .. import boolq, form, q, symeval, trace
from ..core import AnalysisError, const, dotted, norm, calls_in, call_name
from ..form import Rat

EXPLANATION = (
    "INDEX/sibling analysis of Standard._get_x_y and the two writers Output.text / Output.csv: column f of the table is filled "
    "from metric.compute(data, f, axis, interval) with the same f over range(data.num_inputs) and headed by data.get_legend() "
    "(legend if given, else input names, climatology excluded - decided in C14); threshold-like axes give one row per interval, "
    "other axes the mean over the intervals (sum / len(intervals)); -acc is cumsum(nan_to_num(y), axis=0) along the rows; in both "
    "writers the row index subscripts every descriptor and axis 0 of y, the column index axis 1; the cell formats are %g "
    "(6 significant digits) for csv and .4g for text; with -f the same string that would be printed is written to the file; both "
    "writers build the row descriptors for the same axis cases and from get_axis_descriptions, whose keys carry the attribute "
    "they name (shared with C11).")
ASSUMPTIONS = ["Python %-formatting semantics", "exact bytes of the output are not compared"]
AUDIT = {"functions": ["verif.output.Standard._get_x_y", "verif.output.Output.text", "verif.output.Output.csv", "verif.data.Data.get_axis_descriptions"]}


def S(n):
    return Rat.sym(n)


def check_table(ctx):
    prog = ctx.prog
    site = "verif.output.Standard._get_x_y"
    m = prog.module("verif.output")
    ev = trace.trace(prog, site, loop_mode="unroll2")
    # columns
    st = [e for e in trace.stores(ev, "y") if len(e["indices"]) == 1 and isinstance(e["indices"][0], tuple)]
    ctx.need(len(st) >= 2, "%s: column stores y[:, f] not found" % site)
    outer = st[0]["loops"][0]
    it = [l for l in ev.loops if l["node"] is outer][0]["iter"]
    ok = isinstance(it, Rat) and it.key() in ("call:range($data.num_inputs)", "call:range(0,$data.num_inputs)")
    ctx.ob("C12.1", site, ok, "one column per input: f in range(data.num_inputs)", loc=prog.loc(m, outer), msg="the column loop iterates over %s" % it)
    for e in st:
        ix = e["indices"][0]
        fsym = ix[1]
        ok_ix = ix[0] == ("slice", "None", "None", "None") and isinstance(fsym, Rat) and fsym.key().startswith("$f#")
        ctx.ob("C12.1", site, ok_ix, "scores are stored in column f (all rows)", loc=prog.loc(m, e["node"]), msg="column store subscript is %s" % str(ix))
        comps = [a for a in q.atoms(e["value"]) if a.func in ("self._metric.compute", "m:compute", "call:self._metric.compute")]
        ctx.need(comps, "%s: the stored column does not come from metric.compute" % site)
        same = all(len(a.args) >= 4 and isinstance(a.args[-3], Rat) and a.args[-3].equals(fsym) for a in comps)
        axis_ok = all(a.args[-2].key() == "$axis" and a.args[-4].key() == "$data" for a in comps)
        ctx.ob("C12.1", site, same and axis_ok, "column f holds metric.compute(data, f, axis, interval) of the same f", loc=prog.loc(m, e["node"]),
               msg="column %s is computed with input index %s" % (fsym, sorted(set(str(a.args[-3]) for a in comps))),
               sample={"rule": "C12.1", "column": str(fsym), "compute_calls": len(comps)})
        # averaging over intervals on ordinary axes
        v = e["value"]
        alts = q.atoms(v, "ifexp")
        k = v.key()
        intervals = "call:verif.util.get_intervals($self.bin_type,$self.thresholds)"
        ok_avg = ("len(%s)" % intervals) in k
        ctx.ob("C12.4", site, ok_avg, "on ordinary axes the scores of all intervals are averaged (sum / len(intervals))", loc=prog.loc(m, e["node"]),
               msg="the threshold average does not divide by len(intervals)")
        per_interval = any(a.func == "setitem" for a in q.atoms(v)) and ("getitem(%s,$i#" % intervals in k or "elem#1(%s)" % intervals in k
                                                                         or re.search(r"getitem\(%s,\$\w+#\d\)" % re.escape(intervals), k) is not None)
        ctx.ob("C12.1", site, per_interval, "on threshold-like axes row i holds the score of interval i", loc=prog.loc(m, e["node"]), msg="per-interval rows are not filled from intervals[i]")
    # return value: legend as column names, acc
    rets = [o for o in ev.outcomes if o.kind == "return"]
    ctx.need(rets, "%s: no return" % site)
    for o in rets:
        v = o.value
        ctx.need(isinstance(v, list) and len(v) == 5, "%s: return is not (x, y, xname, ynames, descs)" % site)
        ctx.ob("C12.1", site, isinstance(v[3], Rat) and v[3].key() == "call:data.get_legend()", "column headers are data.get_legend()", loc=prog.loc(m, o.node),
               msg="column headers are %s" % str(v[3])[:80])
        y = v[1]
        at = q.top(y, "ifexp")
        ok = False
        if at is not None and at.args[0].key() == "$self.show_acc":
            acc = at.args[1]
            c = q.top(acc, "cumsum")
            kw = {a[0][3:]: a[1] for a in c.args if isinstance(a, tuple) and a and isinstance(a[0], str) and a[0].startswith("kw:")} if c is not None else {}
            inner = q.top(c.args[0], "nan_to_num") if c is not None and isinstance(c.args[0], Rat) else None
            ok = c is not None and inner is not None and isinstance(kw.get("axis"), Rat) and kw["axis"].const_value() == 0 and inner.args[0].equals(at.args[2])
        ctx.ob("C12.4", site, ok, "-acc: running sums along the rows = cumsum(nan_to_num(y), axis=0)", loc=prog.loc(m, o.node),
               msg="-acc computes %s: a slice without a valid score turns every later row into NaN / the sum runs along the wrong axis" % (str(q.top(y, "ifexp").args[1])[:120] if q.top(y, "ifexp") else str(y)[:120]))
        x = v[0]
        xk = x.key() if isinstance(x, Rat) else ""
        ctx.ob("C12.1", site, "call:data.get_axis_values($axis)" in xk and "attr:center(" in xk and "call:verif.util.unixtime_to_datenum(" in xk,
               "row coordinates: axis values (dates as date numbers), interval centres on threshold-like axes", loc=prog.loc(m, o.node), msg="x is %s" % xk[:160])
    ctx.floor("C12.1", 8)


def _writer_facts(prog, name):
    m = prog.module("verif.output")
    f = prog.own_method("verif.output.Output." + name)
    facts = {"node": f}
    src = norm(f)
    facts["src"] = src
    # loops
    row_loops = [n for n in ast.walk(f) if isinstance(n, ast.For) and norm(n.iter) == "range(len(x))"]
    facts["row_loop"] = row_loops[0] if row_loops else None
    facts["col_loops"] = [n for n in ast.walk(f) if isinstance(n, ast.For) and norm(n.iter) == "range(y.shape[1])"]
    fmts = []
    for n in ast.walk(f):
        if isinstance(n, ast.BinOp) and isinstance(n.op, ast.Mod) and isinstance(n.left, ast.Constant) and isinstance(n.left.value, str) and "y[" in norm(n.right):
            fmts.append((n.left.value, norm(n.right)))
    facts["cell_formats"] = fmts
    return facts


def _cells_by_value(prog, name):
    """The table cells a writer formats, from the folded function - however its loops are spelled (nested for loops, a join over a
    comprehension, a helper): every ``fmt % y[I, F]`` with y the matrix returned by _get_x_y.  -> list of (format, rows_ok, cols_ok)
    where rows_ok / cols_ok say that I runs over range(len(x)) and F over range(y.shape[1])."""
    site = "verif.output.Output." + name
    ev = trace.trace(prog, site, loop_mode="unroll2")
    def iters_for(e):
        """loop variable -> iteration spaces of the loops that ENCLOSE this event (a name may be reused by another loop elsewhere)"""
        enclosing = set(id(n_) for n_ in (e.get("loops") or []))
        out = {}
        for lp in ev.loops:
            st = lp["node"]
            if id(st) in enclosing and isinstance(st, ast.For) and isinstance(lp["iter"], Rat):
                for t_ in ast.walk(st.target):
                    if isinstance(t_, ast.Name):
                        out.setdefault(t_.id, set()).add(lp["iter"].key())
        return out
    vals = []
    for e in ev.events:
        li = None
        for k_ in ("value", "operand"):
            if isinstance(e.get(k_), Rat):
                li = li if li is not None else iters_for(e)
                vals.append((e[k_], li))
        for a in e.get("args") or []:
            if isinstance(a, Rat):
                li = li if li is not None else iters_for(e)
                vals.append((a, li))
    cells = {}

    def opaque_cells(v):
        """'%-*.4g| ' % (lengths[f], y[i, f]) is kept as a name-free template expr:'...' % (_v0[_v1], _v2[_v3, _v1])(args): read y, i, f back"""
        out = []
        for a in q.atoms(v):
            if not a.func.startswith("expr:") or " % " not in a.func:
                continue
            try:
                tree = ast.parse(a.func[5:], mode="eval").body
            except SyntaxError:
                continue
            if not (isinstance(tree, ast.BinOp) and isinstance(tree.op, ast.Mod) and isinstance(tree.left, ast.Constant) and isinstance(tree.left.value, str)):
                continue

            def arg_of(n_):
                if isinstance(n_, ast.Name) and n_.id.startswith("_v") and n_.id[2:].isdigit() and int(n_.id[2:]) < len(a.args):
                    return a.args[int(n_.id[2:])]
                return None
            for sub in ast.walk(tree.right):
                if isinstance(sub, ast.Subscript) and isinstance(sub.slice, ast.Tuple) and len(sub.slice.elts) == 2:
                    ymat, i_, f_ = arg_of(sub.value), arg_of(sub.slice.elts[0]), arg_of(sub.slice.elts[1])
                    if isinstance(ymat, Rat) and isinstance(i_, Rat) and isinstance(f_, Rat) and "_get_x_y(" in ymat.key():
                        out.append(form.atom("mod", (form.apply("str:" + repr(tree.left.value), []), form.apply("getitem", [ymat, (i_, f_)]))))
        return out
    for v, loop_iters in vals:
        maps = [a for a in q.atoms(v, "map") if len(a.args) >= 2 and isinstance(a.args[0], Rat) and isinstance(a.args[1], Rat)]
        for a in list(q.atoms(v, "mod")) + opaque_cells(v):
            if len(a.args) != 2 or not isinstance(a.args[0], Rat):
                continue
            if isinstance(a.args[1], tuple):
                # "%-*.4g| " % (width, y[i, f]): the formatted value is the last element
                cand = [x for x in a.args[1] if isinstance(x, Rat) and x.as_atom("getitem") is not None and "_get_x_y(" in x.key()]
                if len(cand) != 1:
                    continue
                a = form.atom("mod", (a.args[0], cand[0]))
            if not isinstance(a.args[1], Rat):
                continue
            fmt = symeval._strval(a.args[0])
            g = a.args[1].as_atom("getitem")
            if fmt is None or g is None or not isinstance(g.args[1], tuple) or len(g.args[1]) != 2 or not isinstance(g.args[0], Rat):
                continue
            ymat = g.args[0]
            yk = ymat.key()
            if "_get_x_y(" not in yk:
                continue
            xk = yk.replace("),1)", "),0)") if yk.endswith(",1)") else None

            def ranges_of(ix):
                if not isinstance(ix, Rat):
                    return None
                k = ix.key()
                if not k.startswith("$"):
                    return None
                nm = k[1:].split("#")[0]
                out = set(loop_iters.get(nm, ()))
                for mp in maps:
                    if any(b.func == "$" + nm for b in q.atoms(mp.args[0])):
                        out.add(mp.args[1].key())
                return out
            ri, rf = ranges_of(g.args[1][0]), ranges_of(g.args[1][1])
            want_rows = {"call:range(len(%s))" % xk, "call:range(0,len(%s))" % xk} if xk else set()
            want_cols = {"call:range(getitem(attr:shape(%s),1))" % yk, "call:range(0,getitem(attr:shape(%s),1))" % yk}
            ck = (fmt, g.args[1][0].key() if isinstance(g.args[1][0], Rat) else "?", g.args[1][1].key() if isinstance(g.args[1][1], Rat) else "?")
            # (the cell travels on inside the accumulated string: the occurrence inside its own loops is the one that tells)
            prev = cells.get(ck, (False, False))
            cells[ck] = (prev[0] or (bool(ri) and ri <= want_rows), prev[1] or (bool(rf) and rf <= want_cols))
    return [(k[0], v[0], v[1]) for k, v in sorted(cells.items())]


def descriptor_cases(prog, name):
    """{axis class: (column name, values)} and whether other axes use get_axis_descriptions - from the folded writer (helpers, tables of
    (axis, name) rows and early returns are seen through)"""
    evw_ = trace.trace(prog, "verif.output.Output." + name, loop_mode="unroll2")
    found, default = {}, False
    for e in evw_.events:
        for k_ in ("value", "operand"):
            v = e.get(k_)
            if not isinstance(v, Rat) or "verif.axis." not in v.key():
                continue
            for a in q.atoms(v, "ifexp"):
                cnd = a.args[0].key() if isinstance(a.args[0], Rat) else ""
                # the positive axis test of the condition (an early-return chain gives `not(previous tests) and this one`)
                pos = [m_ for m_ in re.finditer(r"cmp_eq\(\$self\.axis - call:verif\.axis\.(\w+)\(\),0\)", cnd)
                       if not cnd[:m_.start()].endswith("not(")]
                mm = pos[0] if len(pos) == 1 else None
                th = a.args[1].as_atom("pydict") if isinstance(a.args[1], Rat) else None
                if mm and th is not None and th.args and isinstance(th.args[0], tuple) and len(th.args[0]) == 2:
                    kk, vv = th.args[0]
                    found[mm.group(1)] = (symeval._strval(kk), vv.key() if isinstance(vv, Rat) else str(vv))
            if "call:data.get_axis_descriptions($self.axis)" in v.key():
                default = True
    return found, default


def check_writers(ctx):
    prog = ctx.prog
    m = prog.module("verif.output")
    t = _writer_facts(prog, "text")
    c = _writer_facts(prog, "csv")
    by_value = {}
    for name in ("text", "csv"):
        try:
            by_value[name] = _cells_by_value(prog, name)
        except (symeval.Undecided, AnalysisError):
            by_value[name] = []
    for name, fx, fmt_re, digits in (("text", t, r"%-\*\.4g", 4), ("csv", c, r"%g", 6)):
        site = "verif.output.Output." + name
        loc = prog.loc(m, fx["node"])
        cells = by_value.get(name) or []
        cells_ok = bool(cells) and len(set(c_[0] for c_ in cells)) == 1 and all(c_[1] and c_[2] for c_ in cells)
        ctx.ob("C12.1", site, fx["row_loop"] is not None or cells_ok, "one output row per slice: for i in range(len(x))", loc=loc, msg="%s: the row loop over range(len(x)) is gone" % name)
        if fx["row_loop"] is not None or cells_ok:
            inner = [n for n in ast.walk(fx["row_loop"]) if n in fx["col_loops"]] if fx["row_loop"] is not None else []
            ctx.ob("C12.1", site, len(inner) == 1 or cells_ok, "inside each row one cell per input: for f in range(y.shape[1])", loc=loc, msg="%s: the column loop is not nested in the row loop" % name)
            rl = norm(fx["row_loop"]) if fx["row_loop"] is not None else fx["src"]
            ctx.ob("C12.1", site, "descs[" in rl and "][i]" in rl, "the row index subscripts the descriptors", loc=loc, msg="%s: descriptors are not indexed by the row index" % name)
        ok = len(fx["cell_formats"]) == 1 and fx["cell_formats"][0][1].replace(" ", "").endswith("y[i,f]") or \
            (len(fx["cell_formats"]) == 1 and "y[i, f]" in fx["cell_formats"][0][1])
        ctx.ob("C12.1", site, ok or cells_ok, "cell (row i, column f) prints y[i, f]", loc=loc, msg="%s prints %s" % (name, fx["cell_formats"] or cells))
        fm = fx["cell_formats"][0][0] if fx["cell_formats"] else (cells[0][0] if cells_ok else "")
        ctx.ob("C12.2", site, re.search(fmt_re, fm) is not None and (name == "text" or ".") , "%s cells are formatted with %s significant digits (%s)" % (name, digits, fm.strip()), loc=loc,
               msg="%s cell format is %r, documented precision is %d significant digits" % (name, fm, digits), sample={"rule": "C12.2", "writer": name, "format": fm})
        if name == "csv":
            ctx.ob("C12.2", site, fm.strip() == ",%g", "csv cell format is exactly ',%g'", loc=loc, msg="csv cell format is %r" % fm)
        # -f: the same string goes to the file or to the screen (from the call events of the folded function; helpers are seen through)
        src = fx["src"]
        evw = trace.trace(prog, site)
        prints = [e for e in trace.calls(evw) if e["name"] == "print" and e["args"]]
        writes = [e for e in trace.calls(evw) if isinstance(e["node"].func, ast.Attribute) and e["node"].func.attr == "write" and e["args"]
                  and isinstance(e.get("recv"), Rat) and e["recv"].as_atom("call:open") is not None]
        closes = [e for e in trace.calls(evw) if isinstance(e["node"].func, ast.Attribute) and e["node"].func.attr == "close"
                  and isinstance(e.get("recv"), Rat) and e["recv"].as_atom("call:open") is not None]
        given = boolq.prop(form.apply("cmp_ne", [Rat.sym("None") - Rat.sym("self.filename"), Rat.const(0)]))
        ok = bool(prints) and bool(writes) and isinstance(prints[0]["args"][0], Rat) and isinstance(writes[0]["args"][0], Rat) \
            and prints[0]["args"][0].equals(writes[0]["args"][0])
        if ok:
            op = writes[0]["recv"].as_atom("call:open")
            ok = len(op.args) >= 2 and isinstance(op.args[0], Rat) and op.args[0].key() == "$self.filename" and symeval._strval(op.args[1]) == "w"
            try:
                ok = ok and boolq.implies(boolq.conj(writes[0]["conds"]), given) and boolq.implies(boolq.conj(prints[0]["conds"]), ("not", given))
            except boolq.TooBig:
                pass
        ctx.ob("C12.3", site, ok, "with -f the string that would be printed is written to that file (opened for writing), otherwise it is printed", loc=loc,
               msg="%s: file output and screen output no longer share one string / the file is not self.filename opened with 'w'" % name)
        nl = len(writes) == 2 and symeval._strval(writes[1]["args"][0]) == "\n"
        # closed explicitly, or opened in a `with` statement (closed on leaving it)
        withs = [e for e in evw.events if e["kind"] == "with" and isinstance(e.get("value"), Rat) and e["value"].as_atom("call:open") is not None]
        ctx.ob("C12.3", site, nl and (bool(closes) or bool(withs)), "the file gets the table and a final newline, then is closed", loc=loc, msg="%s: file writing changed" % name)
        gx = [e for e in trace.calls(evw) if e["name"] == "self._get_x_y" and len(e["args"]) == 2]
        ctx.ob("C12.1", site, bool(gx) and all(e["args"][0].key() == "$data" and e["args"][1].key() == "$self.axis" for e in gx),
               "%s() takes the table from _get_x_y(data, self.axis)" % name, loc=loc, msg="%s does not use _get_x_y(data, self.axis)" % name)
    # header
    ctx.ob("C12.1", "verif.output.Output.csv", "s = ','.join(descs.keys()) + ',' + ','.join(labels) + '\\n'" in c["src"], "csv header: descriptor names then one column per input",
           msg="csv header construction changed")
    ctx.ob("C12.1", "verif.output.Output.text", "for w in descs.keys():" in t["src"] and "for i in range(len(ylabels)):" in t["src"], "text header: descriptor names then one column per input",
           msg="text header construction changed")
    # sibling case analysis - by value: the folded writers (helpers seen through) contain the chain
    #   descs = {"Threshold": thresholds} if axis == Threshold() else {"Observed": ...} if axis == Obs() else ... get_axis_descriptions(axis)
    try:
        dt, dc = descriptor_cases(prog, "text"), descriptor_cases(prog, "csv")
    except (symeval.Undecided, AnalysisError):
        dt = dc = ({}, False)

    def cases(src):
        return sorted(set(re.findall(r"self\.axis == (verif\.axis\.\w+\(\))", src)))
    ct, cc = cases(t["src"]), cases(c["src"])
    same_cases = (ct == cc and len(ct) >= 3) or (dt[0] == dc[0] and len(dt[0]) >= 3)
    ctx.ob("C12.5", "verif.output.Output", same_cases, "text() and csv() build descriptors for the same axis cases %s" % (ct or sorted(dt[0])),
           msg="text() handles %s, csv() handles %s" % (ct or sorted(dt[0]), cc or sorted(dc[0])))
    for name, fx, dv in (("text", t, dt), ("csv", c, dc)):
        for ax, key in (("Threshold", "Threshold"), ("Obs", "Observed"), ("Fcst", "Forecasted")):
            ok = ("self.axis == verif.axis.%s():\n" % ax) in fx["src"] and ("descs = {'%s': self.thresholds}" % key) in fx["src"]
            ok = ok or dv[0].get(ax) == (key, "$self.thresholds")
            ctx.ob("C12.5", "verif.output.Output." + name, ok, "-x %s rows are identified by the thresholds (column '%s')" % (ax.lower(), key), msg="%s: -x %s descriptor changed" % (name, ax.lower()))
        ctx.ob("C12.5", "verif.output.Output." + name, "descs = data.get_axis_descriptions(self.axis)" in fx["src"] or dv[1], "other axes use data.get_axis_descriptions(self.axis)",
               msg="%s does not use get_axis_descriptions" % name)


def check_descriptions(ctx):
    prog = ctx.prog
    site = "verif.data.Data.get_axis_descriptions"
    m = prog.module("verif.data")
    f = prog.own_method(site)
    src = norm(f)
    ctx.ob("C12.5", site, "dates = [matplotlib.dates.num2date(verif.util.unixtime_to_datenum(unixtime)) for unixtime in unixtimes]" in src and "times = [date.strftime(fmt) for date in dates]" in src
           and "fmt = axis.fmt" in src and "unixtimes = self.get_axis_values(axis)" in src, "time-like axes: axis values formatted with the axis' own date format",
           loc=prog.loc(m, f), msg="formatting of time-like row descriptors changed")
    ctx.ob("C12.5", site, "return {axis.name(): self.get_axis_values(axis)}" in src, "other axes: the axis values themselves under the axis name", loc=prog.loc(m, f),
           msg="default row descriptors changed")
    from . import c11
    from .c04 import _import
    sub = type(ctx)(ctx.prog, "C11", ctx.tier, True)
    order = c11.check_apply_axis(sub)
    c11.check_axis_values(sub, order)
    _import(ctx, sub, "C11.6", "C12.5")


MIN_DESCRIPTOR_DIGITS = 10


def check_descriptor_precision(ctx):
    """The leading fields of a row identify the slice: a location id, a coordinate or a threshold must come out with all its digits.
    Every float conversion (%g/%f/%e, format specs) of an element of the row-descriptor table must keep at least 10 significant
    digits (str() and %s keep everything; %g alone keeps 6 and prints 1001234 as 1.00123e+06, the same as 1001232)."""
    from . import c19
    prog = ctx.prog
    users, found = c19.descriptor_conversions(prog)
    ctx.need(users >= 2, "fewer than 2 users of get_axis_descriptions found (confirmed: Output.text, Output.csv)")
    n = 0
    for qual, m, node, what, conv, prec, guarded in found:
        if conv not in ("g", "G", "f", "F", "e", "E"):
            continue
        n += 1
        ok = prec is not None and prec >= MIN_DESCRIPTOR_DIGITS
        ctx.ob("C12.6", qual, ok, "row descriptors are written with at least %d significant digits (%s)" % (MIN_DESCRIPTOR_DIGITS, what), loc=prog.loc(m, node),
               msg="%s keeps only %s significant digits of a location id / coordinate / threshold: different slices are printed with the same "
                   "leading fields (1001232 and 1001234 both as 1.00123e+06)" % (what, prec if prec is not None else 6),
               sample={"rule": "C12.6", "function": qual, "conversion": what, "precision": prec})
    ctx.sample({"rule": "C12.6", "functions_using_descriptors": users, "float_conversions": n})


def run(ctx):
    ctx.rule("C12.6", "row descriptors keep their digits: float conversions of descriptor elements have >= 10 significant digits")
    check_descriptor_precision(ctx)
    ctx.rule("C12.1", "table index discipline: column f <- compute(data, f, ...), headers = legend, row/column loop indices")
    ctx.rule("C12.2", "precision: %g for csv, .4g for text")
    ctx.rule("C12.3", "-f writes the same string that would be printed")
    ctx.rule("C12.4", "-acc = cumsum(nan_to_num(y), axis=0); threshold averaging divides by len(intervals)")
    ctx.rule("C12.5", "text()/csv() sibling agreement on descriptors; descriptor keys carry the attribute they name")
    check_table(ctx)
    check_writers(ctx)
    check_descriptions(ctx)
    # the table itself, by value (shared with C16.6): column f <- metric of input f, average over ALL -r intervals for every metric on a
    # data axis, undefined scores stay undefined
    from . import c16
    from .c04 import _import
    sub = type(ctx)(ctx.prog, "C16", ctx.tier, True)
    c16.check_standard_xy(sub)
    _import(ctx, sub, "C16.6", "C12.4")
    ctx.floor("C12.5", 14)


CLAIM = {
    "level": "Static INDEX/sibling analysis of the table construction and the two writers: which input a column belongs to, which interval a row "
             "belongs to, averaging and accumulation formulas, loop-index discipline of rows/columns/descriptors, cell formats, identity of file and "
             "screen output, agreement of the two writers' case analyses and descriptor keys. Necessary conditions; no output is produced.",
    "note": "Trusted: CPython ast, vsa symbolic folding, Python %-format semantics. Several writer obligations are syntactic patterns over "
            "Output.text/csv as written today. Ascending row order follows from C03.2.",
    "technique": "static analysis: C12.4 the returned table taken apart by cases (shared with C16.6); C12.6 element-type / precision lint on row descriptors; symbolic folding of _get_x_y with event log (index provenance of column stores), loop/index patterns, "
                 "format-string parsing, sibling case comparison",
}
