"""C05 - deterministic scores equal their published definitions."""
import ast
import json
import os

from .. import form, symeval
from ..core import AnalysisError, dotted, norm, calls_in, call_name
from ..form import Rat
from ..harness import VERIF_DIR

EXPLANATION = (
    "FORM analysis of the 22 subclasses of metric.ObsFcstBased and of the field-based / conditional metrics: each "
    "straight-line _compute_from_obs_fcst body is folded by def-use substitution into a normal form over obs, fcst, n with "
    "opaque atoms (agg, mean, sum, var, corr, sort, log, abs, comparisons) and compared with the reference definition; NaN "
    "guards must be undefined points of the definition; substituting fcst := obs must give the declared perfect_score of "
    "every oriented metric; supports_aggregator must agree with the use of self.aggregator; the pair filter and the "
    "obs/fcst conditional axes are checked as wiring. Loop bodies (Leps) are UNDECIDED apart from the argsort-as-rank pattern.")
ASSUMPTIONS = ["numpy/scipy reductions compute the statistics they are named after",
               "'no forecast scores better than perfect' (an inequality over all vectors) is not decided"]
AUDIT = {"class_methods": ("verif.metric.ObsFcstBased", "_compute_from_obs_fcst"),
         "functions": ["verif.metric.ObsFcstBased.compute_from_obs_fcst", "verif.metric.ObsFcstBased.compute_single",
                       "verif.metric.FromField.compute_single", "verif.metric.Within.compute_from_obs_fcst",
                       "verif.metric.Conditional.compute_from_obs_fcst", "verif.metric.XConditional.compute_from_obs_fcst"]}

LEN_SYMS = {"$obs": "n", "$fcst": "n"}


def S(n):
    return Rat.sym(n)


def load_table():
    with open(os.path.join(VERIF_DIR, "tables", "deterministic.json")) as f:
        return json.load(f)["rows"]


def within_hook(ev, node, rname, args, kwargs, path):
    f = node.func
    if isinstance(f, ast.Attribute) and f.attr == "within" and len(args) == 1:
        return form.apply("within", [ev.ev(f.value, path), args[0]])
    return None


def _guard_ok(cond, pol, allowed, allow_opaque):
    """Is a NaN-returning condition one of the allowed undefined points?"""
    zs, nzs, ok = symeval.zero_sets(cond, pol)
    if ok and zs:
        for z in zs:
            hit = False
            for g in allowed:
                if isinstance(g, Rat) and (z.equals(g) or (g.pow(2)).equals(z) or z.pow(2).equals(g)
                                           or form.poly_divides(z.num, g.num) and form.poly_divides(g.num, z.num)):
                    hit = True
            if not hit:
                return False, z.key()
        return True, None
    at = cond.as_atom()
    if at is not None and at.func in ("cmp_le", "cmp_lt") and pol and "n<=1" in allowed:
        # len(obs) <= 1  /  len(obs) < 2
        a, b = at.args
        if a.key() == "$n" and b.const_value() is not None and b.const_value() <= 2:
            return True, None
    if allow_opaque:
        return True, None
    return False, cond.key()


def check_formulas(ctx):
    prog = ctx.prog
    table = load_table()
    # every concrete metric, with the formula it actually runs (its own or the one it inherits from another metric)
    base = prog.cls("verif.metric.ObsFcstBased")
    classes = []
    for c in prog.subclasses("verif.metric.ObsFcstBased", "verif.metric"):
        hit = prog.lookup_method(c, "_compute_from_obs_fcst")
        if hit is not None and hit[0] is not base:
            classes.append(c)
    names = set(c.name for c in classes)
    missing = sorted(set(table) - names)
    ctx.need(not missing, "reference rows without a class: %s" % missing)
    obs = S("obs")
    for c in sorted(classes, key=lambda c: c.name):
        owner, f = prog.lookup_method(c, "_compute_from_obs_fcst")
        m = owner.module
        site = c.qual + "._compute_from_obs_fcst"
        loc = prog.loc(m, f)
        # C05.3 argsort used arithmetically (as a rank) - pattern rule, also for loop bodies
        check_argsort(ctx, c, f, site)
        ev = symeval.Evaluator(m, len_syms=LEN_SYMS)
        try:
            outs = ev.run(f)
        except symeval.Undecided as e:
            ctx.undecided_item("C05.1", site, "UNDECIDED(form): %s" % e)
            continue
        rets = _split_conditional_values([o for o in outs if o.kind == "return"])
        ctx.need(rets and not [o for o in outs if o.kind == "fallthrough"], "%s: no return / falls off the end" % site)
        main = [o for o in rets if not o.is_nan()]
        nans = [o for o in rets if o.is_nan()]
        row = table.get(c.name)
        uses_agg = any(any(a.func == "agg" for a in o.value.atoms()) for o in main if isinstance(o.value, Rat))
        declared = bool(prog.attr_const(c, "supports_aggregator", False))
        ctx.ob("C05.4", c.qual, uses_agg == declared, "supports_aggregator=%s agrees with the use of self.aggregator" % declared,
               loc=loc, msg="%s declares supports_aggregator=%s but its formula %s self.aggregator"
                            % (c.name, declared, "uses" if uses_agg else "does not use"))
        if row is None:
            ctx.undecided_item("C05.1", site, "class not in the reference table (UNCOVERED new metric)")
        else:
            ref = symeval.eval_expr_string(row["value"])
            for o in main:
                ok = isinstance(o.value, Rat) and o.value.equals(ref)
                ctx.ob("C05.1", site, ok, "value == %s" % row["value"], loc=loc,
                       msg="%s computes a formula different from its definition" % c.name,
                       expected=row["value"], found=str(o.value)[:300],
                       sample={"rule": "C05.1", "class": c.name, "normal_form": str(o.value)[:240], "reference": row["value"], "equal": ok})
            allowed = []
            for g in row.get("guards", []):
                allowed.append(g if g in ("n<=1", "opaque") else symeval.eval_expr_string(g))
            for o in nans:
                if not o.conds:
                    ctx.ob("C05.1", site, False, "unconditional NaN", loc=loc, msg="%s returns NaN unconditionally" % c.name)
                    continue
                cnd, pol = o.conds[-1]
                ok, what = _guard_ok(cnd, pol, allowed, "opaque" in allowed)
                ctx.ob("C05.5", site, ok, "NaN guard %s is an undefined point of the definition" % cnd.key()[:80], loc=prog.loc(m, o.node),
                       msg="%s returns NaN when %s although the definition is defined there" % (c.name, what or cnd.key()))
        # C05.2 perfect forecast
        perfect = prog.attr_const(c, "perfect_score")
        orientation = prog.attr_const(c, "orientation", 0)
        rank_defect = any(f_.rule == "C05.3" and f_.site == site for f_ in ctx.findings)
        if perfect is not None and orientation != 0 and rank_defect:
            # the perfect-forecast value is wrong BECAUSE argsort is used as a rank: one defect, reported once (by C05.3, with the
            # construct that causes it), however the rest of the body is written
            ctx.note("C05.2 %s: not evaluated, the score uses argsort as a rank (reported by C05.3)" % c.name)
        if perfect is not None and orientation != 0 and not rank_defect:
            for o in main:
                try:
                    v = form.subst(o.value, {"fcst": obs})
                except form.Undefined:
                    ctx.note("C05.2 %s: undefined for fcst=obs" % c.name)
                    continue
                cv = v.const_value()
                ok = cv is not None and cv == perfect
                ctx.ob("C05.2", c.qual, ok, "fcst=obs gives perfect_score=%s" % perfect, loc=loc,
                       msg="%s is oriented (orientation=%s) and declares perfect_score=%s, but a forecast identical to the "
                           "observations gives %s" % (c.name, orientation, perfect, v),
                       expected=perfect, found=str(v),
                       sample={"rule": "C05.2", "class": c.name, "value_for_perfect_forecast": str(v), "declared": perfect})
    ctx.floor("C05.1", 21)
    ctx.floor("C05.2", 12)


def check_argsort(ctx, c, f, site):
    """np.argsort(x) gives the permutation that sorts x, not the ranks: using it arithmetically is the LEPS defect."""
    prog = ctx.prog
    m = c.module
    tainted = set()
    for st in ast.walk(f):
        if isinstance(st, ast.Assign) and len(st.targets) == 1 and isinstance(st.targets[0], ast.Name):
            src = st.value
            has = any(call_name(m, k) == "numpy.argsort" and not _is_double_argsort(m, k, st.value) for k in calls_in(src))
            if has:
                tainted.add(st.targets[0].id)
    bad = None
    for n in ast.walk(f):
        if isinstance(n, ast.BinOp) and isinstance(n.op, (ast.Div, ast.Sub, ast.Add, ast.Mult)):
            for side in (n.left, n.right):
                if isinstance(side, ast.Name) and side.id in tainted:
                    bad = n
                if isinstance(side, ast.Call) and call_name(m, side) == "numpy.argsort":
                    bad = n
    if tainted or bad is not None:
        ctx.ob("C05.3", site, bad is None, "argsort result used arithmetically as a rank", loc=prog.loc(m, bad or f),
               msg="%s uses np.argsort(...) in arithmetic (%s): argsort is the sorting permutation, not the rank of each "
                   "element, so the score is wrong whenever the data are not already sorted (a perfect forecast does not "
                   "score 0)" % (c.name, norm(bad) if bad is not None else ""))


def _is_double_argsort(m, call, root):
    # argsort(argsort(x)) does give ranks
    for k in calls_in(root):
        if call_name(m, k) == "numpy.argsort" and k is not call and any(call is a for a in ast.walk(k)):
            return True
    return call.args and isinstance(call.args[0], ast.Call) and call_name(m, call.args[0]) == "numpy.argsort"


def check_pair_filter(ctx):
    prog = ctx.prog
    site = "verif.metric.ObsFcstBased.compute_from_obs_fcst"
    c = prog.cls("verif.metric.ObsFcstBased")
    f = prog.own_method(site)
    m = c.module
    outs = [o for o in symeval.Evaluator(m).run(f) if o.kind == "return"]
    obs, fcst = S("obs"), S("fcst")
    valid = form.apply("cmp_eq", [form.apply("or", [form.apply("isnan", [obs]), form.apply("isnan", [fcst])]), Rat.const(0)])
    I = form.apply("getitem", [form.apply("where", [valid]), Rat.const(0)])
    I2 = form.apply("where", [valid])
    seen = False
    for o in outs:
        if o.is_nan():
            continue
        at = o.value.as_atom()
        ok = at is not None and at.func == "self._compute_from_obs_fcst" and len(at.args) == 2
        if ok:
            seen = True
            a0, a1 = at.args
            ok = any(a0.equals(form.apply("getitem", [obs, idx])) and a1.equals(form.apply("getitem", [fcst, idx])) for idx in (I, I2))
        ctx.ob("C05.6", site, ok, "_compute_from_obs_fcst receives obs[I], fcst[I] with I = where(not(isnan(obs)|isnan(fcst)))",
               loc=prog.loc(m, o.node), msg="the pair filter passes %s" % str(o.value)[:300])
        nonempty = any("attr:shape" in cnd.key() or "len(" in cnd.key() for cnd, pol in o.conds)
        ctx.ob("C05.6", site, nonempty, "the formula is only evaluated when pairs remain", loc=prog.loc(m, o.node),
               msg="_compute_from_obs_fcst is called without checking that valid pairs remain")
    ctx.need(seen, "%s: the call of _compute_from_obs_fcst was not found" % site)
    ctx.ob("C05.6", site, any(o.is_nan() for o in outs), "no valid pair gives NaN", loc=prog.loc(m, f),
           msg="no NaN return for an empty set of pairs")
    # nobody bypasses the filter
    for sub in prog.subclasses("verif.metric.ObsFcstBased", "verif.metric"):
        for name in ("compute_from_obs_fcst", "compute_single"):
            ctx.ob("C05.6", sub.qual, name not in sub.methods, "%s does not override %s" % (sub.name, name),
                   loc=prog.loc(sub.module, sub.node), msg="%s overrides %s and bypasses the pair filter" % (sub.name, name))


def _axis_polarity(o, axis_name):
    key = "call:verif.axis.%s()" % axis_name
    for cnd, pol in o.conds:
        at = cnd.as_atom()
        if at is not None and at.func in ("cmp_eq", "cmp_ne") and "$axis" in cnd.key() and key in cnd.key() \
                and "self._field" not in cnd.key():
            return pol if at.func == "cmp_eq" else not pol
    return None


def check_conditional_axes(ctx):
    """-x obs / -x fcst: the slice is restricted to the cases whose obs (fcst) lies in the interval."""
    prog = ctx.prog
    m = prog.module("verif.metric")
    # ObsFcstBased.compute_single
    site = "verif.metric.ObsFcstBased.compute_single"
    f = prog.own_method(site)
    # by cases: the function is folded with the axis fixed to Obs, Fcst and another axis (however its branches are written)
    cases = []
    for case in ("Obs", "Fcst", "Time"):
        evc = symeval.Evaluator(m, call_hook=within_hook)
        evc.merge_ifs = True
        outs_c = [o for o in evc.run(f, env={"axis": form.apply("call:verif.axis." + case, [])}) if o.kind == "return"]
        ctx.need(outs_c, "%s: no return for -x %s" % (site, case.lower()))
        for o in outs_c:
            cases.append((case if case in ("Obs", "Fcst") else None, o))
    for which, o in cases:
        at = o.value.as_atom()
        if o.value.key() in ("$nan", "$np.nan"):
            continue                                  # an explicit NaN for an empty slice: nothing is scored on this path
        if at is not None and at.func == "self._compute_from_obs_fcst":
            ctx.ob("C05.7", site, False, "a slice is scored through compute_from_obs_fcst (pairs with a missing member removed, NaN when none is left)",
                   loc=prog.loc(m, o.node), msg="compute_single calls _compute_from_obs_fcst directly: the pair filter of compute_from_obs_fcst is bypassed, and the "
                   "one-element NaN placeholder that get_scores returns for a slice without valid pairs is scored as if it were a case")
            continue
        ctx.need(at is not None and at.func == "self.compute_from_obs_fcst" and len(at.args) >= 2, "%s: unexpected return %s" % (site, o.value))
        a0, a1 = at.args[0], at.args[1]
        if which is None:
            ok = a0.as_atom("getitem") is not None and a0.as_atom("getitem").args[1].const_value() == 0 and \
                a1.as_atom("getitem") is not None and a1.as_atom("getitem").args[1].const_value() == 1
            ctx.ob("C05.7", site, ok, "other axes: obs, fcst passed unchanged", loc=prog.loc(m, o.node), msg="unexpected operands %s" % o.value)
            continue
        g0, g1 = a0.as_atom("getitem"), a1.as_atom("getitem")
        ok = g0 is not None and g1 is not None and isinstance(g0.args[1], Rat) and g0.args[1].equals(g1.args[1])
        if ok:
            base_obs, base_fcst, idx = g0.args[0], g1.args[0], g0.args[1]
            w = [a for a in idx.atoms() if a.func == "within"]
            subject = base_obs if which == "Obs" else base_fcst
            ok = len(w) == 1 and w[0].args[0].key() == "$interval" and w[0].args[1].equals(subject)
        ctx.ob("C05.7", site, ok, "-x %s restricts both series to cases with %s in the interval" % (which.lower(), which.lower()),
               loc=prog.loc(m, o.node), msg="-x %s: the subset index is %s" % (which.lower(), str(o.value)[:300]))

    # FromField.compute_single (obs / fcst statistics and other fields)
    site = "verif.metric.FromField.compute_single"
    f = prog.own_method(site)
    outs = [o for o in symeval.Evaluator(m, call_hook=within_hook).run(f) if o.kind == "return"]
    ctx.need(len(outs) >= 5, "%s: expected >= 5 paths" % site)
    n_axis = 0
    for o in outs:
        at = o.value.as_atom()
        ctx.need(at is not None and at.func == "agg", "%s: return is not self.aggregator(values): %s" % (site, o.value))
        vals = at.args[0]
        which = "Obs" if _axis_polarity(o, "Obs") else ("Fcst" if _axis_polarity(o, "Fcst") else None)
        calls = [a for a in vals.atoms() if a.func == "call:data.get_scores"]
        ctx.need(len(calls) == 1 and isinstance(calls[0].args[0], tuple), "%s: get_scores request not recognised" % site)
        fields = [x.key() for x in calls[0].args[0]]
        ctx.ob("C05.7", site, fields[0] == "$self._field", "the aggregated values are those of the metric's own field", loc=prog.loc(m, o.node),
               msg="field list starts with %s" % fields[:1])
        w = [a for a in vals.atoms() if a.func == "within"]
        if which is None:
            ctx.ob("C05.7", site, not w, "no subsetting on other axes", loc=prog.loc(m, o.node), msg="unexpected subsetting %s" % vals)
            continue
        n_axis += 1
        ok = len(w) == 1 and w[0].args[0].key() == "$interval"
        if ok:
            g = w[0].args[1].as_atom("getitem")
            ok = g is not None and g.args[0].as_atom() is calls[0] and g.args[1].const_value() is not None
            if ok:
                k = int(g.args[1].const_value())
                want = "call:verif.field.%s()" % which
                same_field = any((not pol) and cnd.as_atom() is not None and cnd.as_atom().func in ("cmp_ne", "cmp_eq")
                                 and "self._field" in cnd.key() and want in cnd.key() for cnd, pol in o.conds)
                ok = k < len(fields) and (fields[k] == want or (k == 0 and same_field))
        ctx.ob("C05.7", site, ok, "-x %s: values restricted to cases whose %s lies in the interval" % (which.lower(), which.lower()),
               loc=prog.loc(m, o.node),
               msg="with -x %s the %s statistic is %s: not restricted to the bin (conditions %s)"
                   % (which.lower(), "field", str(o.value)[:200], [(c_.key()[:60], p) for c_, p in o.conds]))
    ctx.need(n_axis >= 4, "%s: fewer than 4 obs/fcst-axis paths" % site)

    # Within / Conditional / XConditional / Count
    for cname, expect in (("Within", "mean(within(interval, abs(obs - fcst)))*100"),):
        c = prog.cls("verif.metric." + cname, required=False)
        if c is None or "compute_from_obs_fcst" not in c.methods:
            continue
        outs = [o for o in symeval.Evaluator(m, call_hook=within_hook).run(c.methods["compute_from_obs_fcst"]) if o.kind == "return"]
        ref = symeval.eval_expr_string(expect)
        for o in outs:
            ctx.ob("C05.1", c.qual + ".compute_from_obs_fcst", isinstance(o.value, Rat) and o.value.equals(ref), "value == %s" % expect,
                   loc=prog.loc(m, o.node), msg="%s computes %s" % (cname, o.value), expected=expect, found=str(o.value))
    for cname, series in (("Conditional", "fcst"), ("XConditional", "obs")):
        c = prog.cls("verif.metric." + cname, required=False)
        if c is None or "compute_from_obs_fcst" not in c.methods:
            continue
        outs = [o for o in symeval.Evaluator(m, call_hook=within_hook).run(c.methods["compute_from_obs_fcst"]) if o.kind == "return"]
        I = form.apply("getitem", [form.apply("where", [form.apply("within", [S("interval"), S("obs")])]), Rat.const(0)])
        ref = form.apply("self._func", [form.apply("getitem", [S(series), I])])
        vals = [o for o in outs if not o.is_nan()]
        ctx.need(vals, "%s never returns a value" % cname)
        for o in vals:
            ctx.ob("C05.7", c.qual + ".compute_from_obs_fcst", o.value.equals(ref), "func(%s[where(interval.within(obs))])" % series,
                   loc=prog.loc(m, o.node), msg="%s computes %s" % (cname, o.value), expected=str(ref), found=str(o.value))
        ctx.ob("C05.7", c.qual + ".compute_from_obs_fcst", any(o.is_nan() for o in outs), "empty bin gives NaN",
               loc=prog.loc(m, c.node), msg="%s has no NaN return for an empty bin" % cname)


def _split_conditional_values(rets, depth=0):
    """A returned value that contains a conditional inside its arithmetic - 1 / (2 - (nan if d == 0 else 1 - n / d)), typically a
    helper's guarded result used further - is the same as two guarded returns: the conditional is lifted out (NaN absorbs arithmetic)."""
    out = []
    for o in rets:
        v = o.value
        cond_atom = None
        if isinstance(v, Rat) and depth < 3 and v.as_atom("ifexp") is None:
            for a in v.atoms(deep=False):
                if a.func == "ifexp" and len(a.args) == 3 and all(isinstance(x, Rat) for x in a.args):
                    cond_atom = a
                    break
        if cond_atom is None:
            if isinstance(v, Rat) and v.as_atom("ifexp") is not None and depth < 3:
                a = v.as_atom("ifexp")
                if len(a.args) == 3 and all(isinstance(x, Rat) for x in a.args):
                    parts = []
                    for pol, br in ((True, a.args[1]), (False, a.args[2])):
                        o2 = symeval.Outcome(list(o.conds) + [(a.args[0], pol)], br, o.kind, o.node)
                        o2.divs, o2.logs, o2.env = list(o.divs), list(o.logs), o.env
                        parts.append(o2)
                    out.extend(_split_conditional_values(parts, depth + 1))
                    continue
            out.append(o)
            continue
        parts = []
        for pol, br in ((True, cond_atom.args[1]), (False, cond_atom.args[2])):
            try:
                nv = Rat.sym("nan") if br.key() == "$nan" else form.map_atoms(v, lambda a_: br if a_ is cond_atom else None)
            except form.Undefined:
                nv = None
            if nv is None:
                parts = None
                break
            o2 = symeval.Outcome(list(o.conds) + [(cond_atom.args[0], pol)], nv, o.kind, o.node)
            o2.divs, o2.logs, o2.env = list(o.divs), list(o.logs), o.env
            parts.append(o2)
        if parts is None:
            out.append(o)
        else:
            out.extend(_split_conditional_values(parts, depth + 1))
    return out


def run(ctx):
    ctx.rule("C05.1", "formula of each deterministic metric equals its reference definition (normal form identity)")
    ctx.rule("C05.2", "fcst := obs yields the declared perfect_score of every oriented metric")
    ctx.rule("C05.3", "np.argsort is not used arithmetically as a rank")
    ctx.rule("C05.4", "supports_aggregator flag agrees with the use of self.aggregator")
    ctx.rule("C05.5", "NaN guards are undefined points of the definition")
    ctx.rule("C05.6", "pair-wise removal of missing values precedes every formula; nobody bypasses it")
    ctx.rule("C05.7", "conditional axes (-x obs/fcst) and field statistics restrict the slice to the bin")
    check_formulas(ctx)
    check_pair_filter(ctx)
    check_conditional_axes(ctx)
    # controls
    a = symeval.eval_expr_string("agg((obs - fcst)**2)**0.5")
    b = symeval.eval_expr_string("sqrt(agg((fcst - obs)**2))")
    c = symeval.eval_expr_string("agg(abs(obs - fcst))")
    ctx.control("C05.1", a.equals(b) and not a.equals(c), "rmse written two ways is one normal form, mae is another")
    ctx.control("C05.2", form.subst(a, {"fcst": Rat.sym("obs")}).is_zero(), "perfect-forecast substitution reduces rmse to 0")


CLAIM = {
    "level": "Static FORM analysis: 21 of the 22 pair-based formulas (and Within) are shown identical to their reference definitions as "
             "normal forms over obs, fcst, n with opaque reduction atoms - for all vectors, not samples; perfect-forecast substitution, "
             "NaN-guard justification, aggregator metadata, the pair filter and the -x obs/fcst restriction are decided structurally. "
             "LEPS's loop is undecided except for the argsort-as-rank pattern (a recorded finding).",
    "note": "Trusted: CPython ast, vsa FORM engine, /verif/tables/deterministic.json (one source per row), numpy/scipy reductions. Not "
            "decided: 'no forecast beats perfect' (inequality over all vectors), ties in rank correlations, numerical behaviour.",
    "technique": "static analysis: def-use folding to algebraic normal form with opaque atoms, identity by cross-multiplication, "
                 "symbolic substitution fcst:=obs, guard-set comparison, wiring patterns; C05.7 compute_single scores a slice through compute_from_obs_fcst (a direct call of _compute_from_obs_fcst is a violation)",
}
