"""Program model: modules, classes (with MRO), functions, import aliases, name resolution.

Everything is built from source text with ``ast``; an optional ``overlay`` ({relpath: source})
replaces files in memory (used by the sensitivity audit, never written to disk).
"""
import ast
import io
import os
import tokenize

REPO_ROOT = os.environ.get("VSA_REPO", "/repo")

PACKAGE_DIRS = [("verif", "verif"), ("scripts", "scripts")]


class AnalysisError(Exception):
    """The analysis itself cannot proceed (vanished anchor, unrecognised shape, ...).

    Reported as ANALYSIS-ERROR, exit status 2 - never as a violation and never as a pass.
    """


def read_source(path):
    with open(path, "rb") as f:
        raw = f.read()
    enc, _ = tokenize.detect_encoding(io.BytesIO(raw).readline)
    return raw.decode(enc)


def dotted(node):
    """'a.b.c' for Name/Attribute chains, else None."""
    parts = []
    while isinstance(node, ast.Attribute):
        parts.append(node.attr)
        node = node.value
    if isinstance(node, ast.Name):
        parts.append(node.id)
        return ".".join(reversed(parts))
    return None


def const(node, default=None):
    """Python value of a literal expression (numbers, strings, None, bools, -x, lists/tuples)."""
    try:
        return ast.literal_eval(node)
    except Exception:
        return default


def is_const(node):
    sentinel = object()
    return const(node, sentinel) is not sentinel


def norm(node):
    """Canonical text of an AST node: independent of formatting, comments and parentheses."""
    if node is None:
        return "None"
    if isinstance(node, list):
        return "; ".join(norm(n) for n in node)
    try:
        return ast.unparse(node)
    except Exception:
        return ast.dump(node)


class ClassInfo(object):
    def __init__(self, module, node):
        self.module = module
        self.node = node
        self.name = node.name
        self.qual = module.name + "." + node.name
        self.methods = {}
        self.attrs = {}
        self.decorators = {}
        for st in node.body:
            if isinstance(st, (ast.FunctionDef, ast.AsyncFunctionDef)):
                self.methods[st.name] = st
                self.decorators[st.name] = [norm(d) for d in st.decorator_list]
            elif isinstance(st, ast.Assign):
                for t in st.targets:
                    if isinstance(t, ast.Name):
                        self.attrs[t.id] = st.value
            elif isinstance(st, ast.AnnAssign) and isinstance(st.target, ast.Name) and st.value is not None:
                self.attrs[st.target.id] = st.value
        self.base_names = [dotted(b) for b in node.bases]

    def __repr__(self):
        return "<class %s>" % self.qual


class Module(object):
    def __init__(self, name, relpath, source):
        self.name = name
        self.relpath = relpath
        self.source = source
        self.tree = ast.parse(source, filename=relpath)
        self.aliases = {}     # local name -> dotted target
        self.functions = {}
        self.classes = {}
        self.assigns = {}
        for st in self.tree.body:
            self._top(st)
        # imports inside try/except and functions are collected too (aliases only)
        for node in ast.walk(self.tree):
            if isinstance(node, ast.Import):
                for a in node.names:
                    if a.asname:
                        self.aliases.setdefault(a.asname, a.name)
                    else:
                        root = a.name.split(".")[0]
                        self.aliases.setdefault(root, root)
            elif isinstance(node, ast.ImportFrom):
                base = node.module or ""
                if node.level:
                    pkg = self.name.rsplit(".", node.level)[0] if "." in self.name else ""
                    base = (pkg + "." + base).strip(".") if base else pkg
                for a in node.names:
                    self.aliases.setdefault(a.asname or a.name, (base + "." + a.name).strip("."))

    def _top(self, st):
        if isinstance(st, (ast.FunctionDef, ast.AsyncFunctionDef)):
            self.functions[st.name] = st
        elif isinstance(st, ast.ClassDef):
            self.classes[st.name] = ClassInfo(self, st)
        elif isinstance(st, ast.Assign):
            for t in st.targets:
                if isinstance(t, ast.Name):
                    self.assigns[t.id] = st.value

    def resolve(self, name):
        """Resolve a dotted name written in this module to a global dotted name."""
        if name is None:
            return None
        head, _, rest = name.partition(".")
        if head in self.functions or head in self.classes or head in self.assigns:
            if head not in self.aliases:
                return self.name + "." + name
        if head in self.aliases:
            tgt = self.aliases[head]
            return tgt + ("." + rest if rest else "")
        return name


class Program(object):
    def __init__(self, root=None, overlay=None):
        self.root = root or REPO_ROOT
        self.overlay = overlay or {}
        self.modules = {}
        self.parse_errors = {}
        for pkg, sub in PACKAGE_DIRS:
            d = os.path.join(self.root, sub)
            if not os.path.isdir(d):
                continue
            for fn in sorted(os.listdir(d)):
                if not fn.endswith(".py"):
                    continue
                rel = os.path.join(sub, fn)
                name = pkg + "." + fn[:-3]
                if fn == "__init__.py":
                    name = pkg
                try:
                    src = self.overlay.get(rel)
                    if src is None:
                        src = read_source(os.path.join(self.root, rel))
                    self.modules[name] = Module(name, rel, src)
                except SyntaxError as e:
                    self.parse_errors[rel] = str(e)
        self._mro_cache = {}
        from . import symeval           # the evaluator sees through unknown helpers of the program most recently built
        symeval.set_program(self)

    # ---- lookups -------------------------------------------------------------------------
    def module(self, name):
        if name not in self.modules:
            raise AnalysisError("module %s missing or unparsable (%s)" % (name, self.parse_errors))
        return self.modules[name]

    def cls(self, qual, required=True):
        modname, _, cname = qual.rpartition(".")
        m = self.modules.get(modname)
        if m is None or cname not in m.classes:
            if required:
                raise AnalysisError("anchor class %s not found" % qual)
            return None
        return m.classes[cname]

    def func(self, qual, required=True):
        """Function 'pkg.mod.f' or method 'pkg.mod.C.m' (looked up through the MRO)."""
        parts = qual.split(".")
        for k in (2, 1):  # pkg.mod or pkg
            modname = ".".join(parts[:k])
            m = self.modules.get(modname)
            if m is None:
                continue
            rest = parts[k:]
            if len(rest) == 1 and rest[0] in m.functions:
                return m.functions[rest[0]]
            if len(rest) == 2 and rest[0] in m.classes:
                hit = self.lookup_method(m.classes[rest[0]], rest[1])
                if hit is not None:
                    return hit[1]
        if required:
            raise AnalysisError("anchor function %s not found" % qual)
        return None

    def own_method(self, qual, required=True):
        modname, cname, mname = qual.rsplit(".", 2)
        c = self.cls(modname + "." + cname, required)
        if c is None or mname not in c.methods:
            if required:
                raise AnalysisError("anchor method %s not found" % qual)
            return None
        return c.methods[mname]

    def bases(self, c):
        out = []
        for b in c.base_names:
            if b is None:
                continue
            q = c.module.resolve(b)
            bc = self.cls(q, required=False)
            if bc is not None:
                out.append(bc)
        return out

    def mro(self, c):
        if c.qual in self._mro_cache:
            return self._mro_cache[c.qual]
        seqs = [self.mro(b)[:] for b in self.bases(c)] + [self.bases(c)[:]]
        res = [c]
        while True:
            seqs = [s for s in seqs if s]
            if not seqs:
                break
            for s in seqs:
                cand = s[0]
                if not any(cand in t[1:] for t in seqs):
                    break
            else:
                raise AnalysisError("inconsistent MRO for %s" % c.qual)
            res.append(cand)
            for s in seqs:
                if s and s[0] is cand:
                    del s[0]
        self._mro_cache[c.qual] = res
        return res

    def lookup_method(self, c, name):
        for k in self.mro(c):
            if name in k.methods:
                return k, k.methods[name]
        return None

    def lookup_attr(self, c, name):
        """Class-level attribute through the MRO -> (defining class, value node) or None."""
        for k in self.mro(c):
            if name in k.attrs:
                return k, k.attrs[name]
        return None

    def attr_const(self, c, name, default=None):
        hit = self.lookup_attr(c, name)
        if hit is None:
            return default
        return const(hit[1], default)

    def classes_in(self, modname):
        return list(self.module(modname).classes.values())

    def is_subclass(self, c, base_qual):
        return any(k.qual == base_qual for k in self.mro(c))

    def subclasses(self, base_qual, modname=None, strict=True):
        out = []
        mods = [self.module(modname)] if modname else self.modules.values()
        for m in mods:
            for c in m.classes.values():
                if self.is_subclass(c, base_qual) and not (strict and c.qual == base_qual):
                    out.append(c)
        return out

    def all_functions(self, modnames=None):
        """Yield (qualname, module, class-or-None, FunctionDef) for every function and method."""
        for mn, m in sorted(self.modules.items()):
            if modnames and mn not in modnames:
                continue
            for fn, f in m.functions.items():
                yield mn + "." + fn, m, None, f
            for c in m.classes.values():
                for fn, f in c.methods.items():
                    yield c.qual + "." + fn, m, c, f

    def loc(self, module, node):
        m = module if isinstance(module, Module) else self.module(module)
        return "%s:%d" % (m.relpath, getattr(node, "lineno", 0))


def calls_in(node):
    for n in ast.walk(node):
        if isinstance(n, ast.Call):
            yield n


def call_name(module, call):
    """Resolved dotted name of a call's callee, or None."""
    return module.resolve(dotted(call.func))


def parent_map(root):
    pm = {}
    for p in ast.walk(root):
        for c in ast.iter_child_nodes(p):
            pm[c] = p
    return pm


def enclosing_stmt(node, pm):
    while node in pm and not isinstance(node, ast.stmt):
        node = pm[node]
    return node


def walk_no_nested(node):
    """ast.walk that does not descend into nested function/class definitions."""
    todo = list(ast.iter_child_nodes(node))
    while todo:
        n = todo.pop()
        yield n
        if isinstance(n, (ast.FunctionDef, ast.AsyncFunctionDef, ast.ClassDef, ast.Lambda)):
            continue
        todo.extend(ast.iter_child_nodes(n))
