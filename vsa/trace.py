"""Event traces of a function: stores, assignments and calls with path conditions and loop context,
obtained by symbolic folding (if-merging, loops unrolled twice with distinct index symbols)."""
from . import symeval
from .core import AnalysisError


def trace(prog, qual, env=None, hook=None, loop_mode="unroll2", merge=True, max_paths=512, own=False):
    f = prog.own_method(qual) if own else prog.func(qual)
    parts = qual.split(".")
    m = prog.module(".".join(parts[:2]))
    ev = symeval.Evaluator(m, call_hook=hook, max_paths=max_paths)
    ev.loop_mode = loop_mode
    ev.merge_ifs = merge
    ev.record = True
    ev.no_thread_prefixes = ("self.",)
    try:
        ev.run(f, env=env)
    except symeval.Undecided as e:
        raise AnalysisError("%s is outside the analysable fragment: %s" % (qual, e))
    return ev


def stores(ev, root=None):
    return [e for e in ev.events if e["kind"] == "store" and (root is None or e["root"] == root)]


def calls(ev, name=None):
    return [e for e in ev.events if e["kind"] == "call" and (name is None or e["name"] == name)]


def assigns(ev, name=None):
    return [e for e in ev.events if e["kind"] == "assign" and (name is None or e["name"] == name)]


def inline_hook(prog, names, depth=2):
    """Call hook that inlines the named module-level functions (single-return, straight-line) into the caller's value."""
    def hook(ev, node, rname, args, kwargs, path):
        if rname in names and depth > 0:
            f = prog.func(rname, required=False)
            if f is None:
                return None
            m = prog.module(".".join(rname.split(".")[:2]))
            params = [a.arg for a in f.args.args]
            env = {}
            for p_, a in zip(params, args):
                env[p_] = a
            for k, v in kwargs.items():
                env[k] = v
            defaults = dict(zip(params[len(params) - len(f.args.defaults):], f.args.defaults))
            sub = symeval.Evaluator(m, call_hook=inline_hook(prog, names, depth - 1))
            for p_, d in defaults.items():
                if p_ not in env:
                    env[p_] = sub.ev(d, symeval.Path({}, []))
            try:
                outs = [o for o in sub.run(f, env=env, skip_self=False) if o.kind == "return"]
            except symeval.Undecided:
                return None
            if len(outs) == 1:
                return outs[0].value
        return None
    return hook
