"""Event traces of a function: stores, assignments and calls with path conditions and loop context,
obtained by symbolic folding (if-merging, loops unrolled twice with distinct index symbols)."""
import ast

from . import form, symeval
from .core import AnalysisError
from .form import Rat


_KNOWN = None


def known_methods():
    global _KNOWN
    if _KNOWN is None:
        import json
        import os
        from .harness import VERIF_DIR
        with open(os.path.join(VERIF_DIR, "tables", "known_methods.json")) as fh:
            _KNOWN = json.load(fh)["classes"]
    return _KNOWN


def helper_hook(prog, clsqual, user_hook=None, depth=2):
    """Call hook that sees through helper methods introduced after the rules were written: self.<m>(...) where <m> is a method of
    the class (or a base) that tables/known_methods.json does not list is evaluated in place (events recorded under the caller's path
    conditions, in-place operations on parameters included) and replaced by its return value.  Known methods stay opaque."""
    cls = prog.cls(clsqual, required=False)

    def hook(ev, node, rname, args, kwargs, path):
        if user_hook is not None:
            r = user_hook(ev, node, rname, args, kwargs, path)
            if r is not None:
                return r
        fn = node.func
        if cls is None or depth <= 0 or not (isinstance(fn, ast.Attribute) and isinstance(fn.value, ast.Name) and fn.value.id == "self"):
            return None
        hit = prog.lookup_method(cls, fn.attr)
        if hit is None:
            return None
        owner, fdef = hit
        if fn.attr in known_methods().get(owner.qual, [fn.attr]):
            return None
        params = [a.arg for a in fdef.args.args if a.arg != "self"]
        env = {k: v for k, v in path.env.items() if k.startswith("self.")}
        for p_, a in zip(params, args):
            env[p_] = a
        env.update(kwargs)
        sub = symeval.Evaluator(owner.module, call_hook=helper_hook(prog, clsqual, user_hook, depth - 1), max_paths=ev.max_paths)
        sub.loop_mode, sub.merge_ifs, sub.record = ev.loop_mode, True, ev.record
        sub.events, sub.loop_stack, sub.iter_tag, sub.no_thread_prefixes = ev.events, ev.loop_stack, ev.iter_tag, ev.no_thread_prefixes
        for p_, d in zip(params[len(params) - len(fdef.args.defaults):], fdef.args.defaults):
            if p_ not in env:
                env[p_] = sub.ev(d, symeval.Path({}, []))
        try:
            sub.outcomes = []
            live = sub.exec_block(fdef.body, [symeval.Path(env, list(path.conds))])
        except symeval.Undecided:
            return None
        outs = [o for o in sub.outcomes if o.kind == "return"]
        if not outs:
            return Rat.sym("None")
        base = len(path.conds)
        val = outs[-1].value
        for o in reversed(outs[:-1]):
            cond = None
            for c_, pol in o.conds[base:]:
                lit = c_ if pol else form.apply("not", [c_])
                cond = lit if cond is None else form.apply("and", [cond, lit])
            if cond is not None and isinstance(o.value, Rat) and isinstance(val, Rat):
                val = form.apply("ifexp", [cond, o.value, val])
        return val
    return hook


def trace(prog, qual, env=None, hook=None, loop_mode="unroll2", merge=True, max_paths=512, own=False, inline_helpers=True):
    f = prog.own_method(qual) if own else prog.func(qual)
    parts = qual.split(".")
    m = prog.module(".".join(parts[:2]))
    # (helpers unknown to tables/known_methods.json are inlined by the evaluator itself: symeval.Evaluator._inline_unknown)
    ev = symeval.Evaluator(m, call_hook=hook, max_paths=max_paths)
    ev.loop_mode = loop_mode
    ev.merge_ifs = merge
    ev.record = True
    ev.no_thread_prefixes = ("self.",)
    try:
        ev.run(f, env=env)
    except symeval.Undecided as e:
        raise AnalysisError("%s is outside the analysable fragment: %s" % (qual, e))
    return ev


def stores(ev, root=None):
    return [e for e in ev.events if e["kind"] == "store" and (root is None or e["root"] == root)]


def calls(ev, name=None):
    return [e for e in ev.events if e["kind"] == "call" and (name is None or e["name"] == name)]


def assigns(ev, name=None):
    return [e for e in ev.events if e["kind"] == "assign" and (name is None or e["name"] == name)]


def inline_hook(prog, names, depth=2):
    """Call hook that inlines the named module-level functions (single-return, straight-line) into the caller's value."""
    def hook(ev, node, rname, args, kwargs, path):
        if rname in names and depth > 0:
            f = prog.func(rname, required=False)
            if f is None:
                return None
            m = prog.module(".".join(rname.split(".")[:2]))
            params = [a.arg for a in f.args.args]
            env = {}
            for p_, a in zip(params, args):
                env[p_] = a
            for k, v in kwargs.items():
                env[k] = v
            defaults = dict(zip(params[len(params) - len(f.args.defaults):], f.args.defaults))
            sub = symeval.Evaluator(m, call_hook=inline_hook(prog, names, depth - 1))
            for p_, d in defaults.items():
                if p_ not in env:
                    env[p_] = sub.ev(d, symeval.Path({}, []))
            try:
                outs = [o for o in sub.run(f, env=env, skip_self=False) if o.kind == "return"]
            except symeval.Undecided:
                return None
            if len(outs) == 1:
                return outs[0].value
        return None
    return hook
