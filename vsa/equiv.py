"""Function-level equivalence to a verified reference, by comparison of symbolic summaries.

The rules of vsa.rules were confirmed, obligation by obligation, on one tree (kept as /verif/reference).  A later refactoring of an
anchor function -- renamed locals, extracted or inlined helpers, loops turned into comprehensions, guard clauses instead of nested
ifs, hoisted invariants -- changes the *shape* the rules look at but not what the function computes.  For every function whose
source differs from the reference this module folds BOTH versions with the same symbolic evaluator (helpers unknown to the reference
are inlined, loops are unrolled twice with symbolic indices) into a summary:

  * the returned value as a set of guarded leaves {value -> condition under which it is returned},
  * the error exits with their conditions,
  * the final value of every attribute of self that is assigned,
  * the effects on objects that outlive the call: subscript stores and augmented assignments whose target is not a freshly built
    array, and calls made for their effect (warnings, drawing calls, file writes), each with its path condition.

Conditions are compared as propositional formulas by truth table (vsa.boolq), values by their FORM normal form.  Only when the two
summaries coincide is the function treated as its reference version by the rules (vsa.core.Program(substitute=...)); in every other
case -- different, or outside the analysable fragment -- the rules look at the current code as it is.  The comparison abstracts
exactly what the evaluator abstracts (exact rational arithmetic, two generic loop iterations, library calls as uninterpreted
deterministic functions); in-place operations, copies (np.array) and aliasing-relevant constructors are kept distinct.
"""
import ast
import re

from . import boolq, form, symeval
from .core import AnalysisError, dotted, norm
from .form import Rat

FRESH = {"zeros", "ones", "nparray", "call:numpy.full", "call:numpy.zeros", "call:numpy.ones", "call:numpy.empty", "pylist", "pydict", "new:dict", "map",
         "call:list", "call:dict", "call:set", "call:numpy.array", "call:copy.deepcopy", "call:numpy.copy", "m:copy", "call:numpy.nan_to_num", "cumsum",
         "sort", "unique", "where", "m:flatten", "call:numpy.concatenate", "call:numpy.append", "call:numpy.linspace", "call:numpy.arange", "call:range"}


# methods of this code base and constructors that return arrays / objects, never None (a None result only follows an error exit)
NEVER_NONE = {"self._apply_axis", "self._get_score", "self.preaggregate", "nparray", "zeros", "ones", "setitem", "where", "sort", "unique",
              "pylist", "map", "abs", "isnan", "isinf", "and", "or", "not", "cmp_lt", "cmp_le", "cmp_eq", "cmp_ne", "len"}
_ARRAYS = {"self._apply_axis", "self._get_score", "self.preaggregate", "nparray", "zeros", "ones", "setitem", "where", "sort", "unique", "map"}


def _never_none(at, depth=0):
    """Is the value of this atom never None?  An element of an ARRAY is not; an element of a tuple / list / dictionary handed in by
    someone else may well be (``x, y, _, labels, descs = self._get_x_y(...)`` with descs None), so a subscript counts only when what
    is subscripted is itself an array expression."""
    if at.func in NEVER_NONE or at.func.startswith("call:numpy."):
        return True
    if at.func == "getitem" and depth < 6 and at.args and isinstance(at.args[0], Rat):
        b = at.args[0].as_atom()
        return b is not None and (b.func in _ARRAYS or b.func.startswith("call:numpy.") or (b.func == "getitem" and _never_none(b, depth + 1)))
    return False


LOOP_NAMING = "space"       # "space": a loop symbol is named by what the loop runs over; "order": by the loop's position


class NotComparable(Exception):
    pass


def _is_fresh(r, depth=0):
    """The value is an object created inside the function (writing into it cannot be seen from outside, except through the return
    value, which is compared separately)."""
    if not isinstance(r, Rat) or depth > 20:
        return False
    at = r.as_atom()
    if at is None:
        return True                      # arithmetic creates a new array
    if at.func in FRESH:
        return True
    if at.func == "setitem":
        return _is_fresh(at.args[0], depth + 1)
    if at.func == "ifexp":
        return _is_fresh(at.args[1], depth + 1) and _is_fresh(at.args[2], depth + 1)
    return False


_LOOPSYM = re.compile(r"^\$([A-Za-z_][A-Za-z_0-9]*)(#\d+)?$")


def canon(r, loopvars, memo=None):
    """Canonical spelling of idioms that denote the same thing:
       S[i] with i the variable of `for i in range(len(S))`   ->  elem(S) of `for x in S`
       key in d.keys()                                         ->  key in d"""
    if isinstance(r, list):
        return form.apply("pylist", [tuple(canon(x, loopvars, memo) for x in r)]) if all(isinstance(x, (Rat, list)) for x in r) else Rat.sym("opaque_list")
    if not isinstance(r, Rat):
        return r

    rename = loopvars.get("__rename__", {})
    dicts = loopvars.get("__dicts__", {})

    def fn(at):
        if at.func.startswith("$") and not at.args:
            m0 = _LOOPSYM.match(at.func)
            if m0 and m0.group(1) in rename:
                return Rat.sym(rename[m0.group(1)] + (m0.group(2) or ""))
            return None
        if at.func == "new:dict" and at.args and isinstance(at.args[0], Rat):
            nm = at.args[0].key()
            if nm in dicts:
                return form.apply("new:dict", [Rat.const(dicts[nm])])
            return None
        if at.func == "ifexp" and len(at.args) == 3 and isinstance(at.args[0], Rat) and isinstance(at.args[1], Rat) and isinstance(at.args[2], Rat):
            ca = at.args[0].as_atom()
            if ca is not None and ca.func == "not" and isinstance(ca.args[0], Rat):
                return form.apply("ifexp", [ca.args[0], at.args[2], at.args[1]])
            if ca is not None and ca.func == "cmp_ne":
                return form.apply("ifexp", [form.apply("cmp_eq", list(ca.args)), at.args[2], at.args[1]])
        if at.func == "getitem" and len(at.args) == 2 and isinstance(at.args[0], Rat) and isinstance(at.args[1], Rat):
            m = _LOOPSYM.match(at.args[1].key())
            if m and m.group(1) in loopvars and not m.group(1).startswith("__"):
                bound = loopvars[m.group(1)]
                if bound is None or bound == at.args[0].key():
                    return form.apply("elem" + (m.group(2) or ""), [at.args[0]])
        if at.func in ("in", "notin") and len(at.args) == 2 and isinstance(at.args[1], Rat):
            k = at.args[1].as_atom()
            if k is not None and k.func == "m:keys" and len(k.args) == 1:
                return form.apply(at.func, [at.args[0], k.args[0]])
        if at.func in ("cmp_eq", "cmp_ne") and len(at.args) == 2 and isinstance(at.args[0], Rat) and isinstance(at.args[1], Rat) and at.args[1].is_zero():
            # `X is None` / `X is not None` with X a conditional expression or the result of something that never returns None
            d = at.args[0]
            sh = d.atoms(deep=False)
            nones = [a2 for a2 in sh if a2.func == "$None"]
            if len(nones) == 1 and len(sh) == 2:
                other = [a2 for a2 in sh if a2.func != "$None"][0]
                x = Rat.of_atom(other)
                none = Rat.sym("None")
                if (d.equals(none - x) or d.equals(x - none)):
                    if other.func == "ifexp" and len(other.args) == 3 and all(isinstance(z, Rat) for z in other.args):
                        return form.apply("ifexp", [other.args[0], form.apply(at.func, [none - other.args[1], Rat.const(0)]),
                                                    form.apply(at.func, [none - other.args[2], Rat.const(0)])])
                    if _never_none(other):
                        return Rat.const(0 if at.func == "cmp_eq" else 1)
            elif len(nones) == 1 and len(sh) > 2:
                return Rat.const(0 if at.func == "cmp_eq" else 1)      # arithmetic is never None
        if at.func == "map" and len(at.args) == 2 and isinstance(at.args[0], Rat) and isinstance(at.args[1], Rat):
            # a comprehension over a comprehension is the comprehension of the composed element: [f(x) for x in [g(y) for y in Y]]
            # is [f(g(y)) for y in Y] (no conditions on either; the intermediate list used through its element only)
            inner = at.args[1].as_atom("map")
            if inner is not None and len(inner.args) == 2 and isinstance(inner.args[0], Rat) and isinstance(inner.args[1], Rat):
                sk = at.args[1].key()
                ibody = inner.args[0]

                def sub(a2):
                    if a2.func == "elem" and len(a2.args) == 1 and isinstance(a2.args[0], Rat) and a2.args[0].key() == sk:
                        return ibody
                    return None
                nb = form.map_atoms(at.args[0], sub)
                if sk not in nb.key():
                    return form.apply("map", [nb, inner.args[1]])
            # a comprehension whose element does not depend on the loop variable: only the length of the sequence matters
            body, seq = at.args
            el = form.apply("elem", [seq])
            uses = any(a2.func.startswith("elem") and a2.args and isinstance(a2.args[0], Rat) and a2.args[0].key() == seq.key() for a2 in body.atoms(deep=True))
            rng = seq.as_atom("call:range")
            loopsym = False
            if rng is not None:
                loopsym = any(a2.func.startswith("$") and _LOOPSYM.match(a2.func) and False for a2 in body.atoms(deep=True))
            if not uses and not loopsym:
                n = None
                if rng is not None and rng.args and isinstance(rng.args[-1], Rat) and (len(rng.args) == 1 or (len(rng.args) == 2 and isinstance(rng.args[0], Rat) and rng.args[0].is_zero())):
                    n = rng.args[-1]
                elif rng is None:
                    n = form.apply("len", [seq])
                if n is not None and not any(a2.func in ("$i", "$_", "$k", "$j") for a2 in body.atoms(deep=True)):
                    return form.apply("repeat", [body, n])
        if at.func.startswith("expr:") and " in " in at.func and ".keys()" in at.func:
            return form.apply(at.func.replace(".keys()", ""), list(at.args))
        return None
    try:
        return form.map_atoms(r, fn, memo)
    except form.Undefined:
        return r


def simplify_conditionals(r, known=None, depth=0):
    """Path-sensitive simplification: inside the then-branch of ifexp(c, a, b) the condition c is true, inside the else-branch it is
    false, so a nested ifexp on the same condition collapses (e.g. a variable that keeps its value from the previous loop iteration
    when no branch of an if/elif chain assigns it)."""
    if not isinstance(r, Rat) or depth > 12:
        return r
    known = known or {}

    def fn(at):
        if at.func == "ifexp" and len(at.args) == 3 and isinstance(at.args[0], Rat):
            c = at.args[0]
            k = c.key()
            if k in known:
                br = at.args[1] if known[k] else at.args[2]
                return simplify_conditionals(br, known, depth + 1) if isinstance(br, Rat) else None
            neg = form.apply("not", [c]).key()
            if neg in known:
                br = at.args[2] if known[neg] else at.args[1]
                return simplify_conditionals(br, known, depth + 1) if isinstance(br, Rat) else None
            if not (isinstance(at.args[1], Rat) and isinstance(at.args[2], Rat)):
                return None
            k1 = dict(known); k1[k] = True
            k2 = dict(known); k2[k] = False
            # conjunctions / disjunctions decide their parts
            ca = c.as_atom()
            if ca is not None and ca.func == "and":
                for x in ca.args:
                    if isinstance(x, Rat):
                        k1[x.key()] = True
            if ca is not None and ca.func == "or":
                for x in ca.args:
                    if isinstance(x, Rat):
                        k2[x.key()] = False
            a = simplify_conditionals(at.args[1], k1, depth + 1)
            b = simplify_conditionals(at.args[2], k2, depth + 1)
            if a.key() == at.args[1].key() and b.key() == at.args[2].key():
                return None
            return form.apply("ifexp", [c, a, b])
        return None
    try:
        return form.map_atoms(r, fn)
    except form.Undefined:
        return r


def _leaves(v, pre):
    """Guarded leaves of a value: top-level conditional expressions are split into (condition, leaf)."""
    if isinstance(v, Rat):
        at = v.as_atom("ifexp")
        if at is not None and isinstance(at.args[0], Rat) and isinstance(at.args[1], Rat) and isinstance(at.args[2], Rat):
            c = boolq.prop(at.args[0])
            return _leaves(at.args[1], ("and", [pre, c])) + _leaves(at.args[2], ("and", [pre, ("not", c)]))
    return [(pre, v)]


def _iteration_space(it):
    """What a loop runs over, independently of whether it is written with an index: range(len(S)), range(0, len(S)) and
    enumerate(S) run over S; range(0, n) is range(n)."""
    at = it.as_atom()
    if at is None:
        return it
    if at.func == "call:range" and at.args and all(isinstance(a, Rat) for a in at.args):
        args = list(at.args)
        if len(args) == 2 and args[0].is_zero():
            args = [args[1]]
        if len(args) == 1:
            ln = args[0].as_atom("len")
            if ln is not None and isinstance(ln.args[0], Rat):
                return ln.args[0]
            return form.apply("call:range", args)
        return it
    if at.func == "call:enumerate" and at.args and isinstance(at.args[0], Rat):
        return at.args[0]
    return it


class Summary(object):
    def __init__(self):
        self.raw = []           # (category, label, parts (Rat / tuple / str), formula) before any splitting: for the case analysis
        self.returns = {}       # value key -> [formula]
        self.errors = []        # formulas
        self.attrs = {}         # attribute -> {value key -> [formula]}
        self.effects = {}       # effect key -> [formula]
        self.values = {}        # key -> Rat (for semantic re-matching)

    def add(self, table, value, formula):
        k = value.key() if isinstance(value, Rat) else repr(value)
        self.values[k] = value
        table.setdefault(k, []).append(formula)


class _Budget(object):
    """Wall-clock budget for one summary (main thread only; a function that cannot be folded in time is 'not comparable')."""

    def __init__(self, seconds):
        self.seconds = seconds
        self.old = None

    def __enter__(self):
        import signal
        import threading
        if threading.current_thread() is threading.main_thread() and hasattr(signal, "setitimer"):
            def handler(signum, frame):
                raise NotComparable("time budget of %ds exhausted" % self.seconds)
            self.old = signal.signal(signal.SIGALRM, handler)
            signal.setitimer(signal.ITIMER_REAL, self.seconds)
        return self

    def __exit__(self, *a):
        import signal
        if self.old is not None:
            signal.setitimer(signal.ITIMER_REAL, 0)
            signal.signal(signal.SIGALRM, self.old)
        return False


def summarize(prog, qual, own=True, budget=25):
    with _Budget(budget):
        return _summarize(prog, qual, own)


def _summarize(prog, qual, own=True):
    f = prog.own_method(qual) if (own and qual.count(".") >= 3) else prog.func(qual)
    parts = qual.split(".")
    m = prog.module(".".join(parts[:2]))
    ev = symeval.Evaluator(m, max_paths=512)
    ev.loop_mode, ev.merge_ifs, ev.record = "unroll2", True, True
    ev.no_thread_prefixes = ("self.",)      # stores into attributes are effects (events), not threaded into ever larger values
    try:
        outs = ev.run(f)
    except symeval.Undecided as e:
        raise NotComparable("outside the analysable fragment: %s" % e)
    except (RecursionError, form.Undefined) as e:
        raise NotComparable(str(e))
    loopvars = {}
    for lp in ev.loops:
        st, it = lp["node"], lp["iter"]
        if isinstance(st, ast.For) and isinstance(st.target, ast.Name) and isinstance(it, Rat):
            at = it.as_atom("call:range")
            bound = None
            if at is not None and at.args and isinstance(at.args[-1], Rat):
                ln = at.args[-1].as_atom("len")
                if ln is not None and isinstance(ln.args[0], Rat) and (len(at.args) == 1 or (len(at.args) == 2 and isinstance(at.args[0], Rat) and at.args[0].is_zero())):
                    bound = ln.args[0].key()
            if bound is not None:
                loopvars[st.target.id] = bound
    # canonical names for loop index symbols (by order of the loops) and for dictionaries allocated in the function (by order of
    # allocation): the names a programmer gave to locals must not matter
    ren = {}
    import hashlib
    _for_ordinal = -1
    for lp in ev.loops:
        st = lp["node"]
        if isinstance(st, ast.For):
            _for_ordinal += 1
            names = [t.id for t in ast.walk(st.target) if isinstance(t, ast.Name)]
            it = lp["iter"]
            ik = _iteration_space(it).key() if isinstance(it, Rat) else repr(it)     # range(0, n) and range(n) are one loop
            # a loop is identified by what it iterates over and by its nesting depth (not by the name of its variable, nor by the order
            # in which branches of an if are written); sequential loops over the same thing may share the symbol (alpha-renaming)
            if LOOP_NAMING == "order":
                # second attempt (refsub): loops named by their order of appearance and depth.  Either naming is a renaming of bound
                # symbols applied to both sides alike, so a proof under either one is a proof.
                tag = "L#%dd%d" % (_for_ordinal, lp.get("depth", 0))
            else:
                tag = "L" + hashlib.md5(ik.encode()).hexdigest()[:8] + "d%d" % lp.get("depth", 0)
            for j, nm in enumerate(names):
                ren.setdefault(nm, "%s_%d" % (tag, j))
    loopvars["__rename__"] = ren
    dnames = []
    for e in ev.events:
        if e["kind"] == "assign" and isinstance(e.get("value"), Rat):
            a0 = e["value"].as_atom("new:dict")
            if a0 is not None and a0.args and isinstance(a0.args[0], Rat) and a0.args[0].key() not in dnames:
                dnames.append(a0.args[0].key())
    loopvars["__dicts__"] = {nm: k for k, nm in enumerate(dnames)}
    S = Summary()

    def known_of(conds):
        known = {}
        for c, pol in conds:
            if isinstance(c, Rat):
                c = canon(c, loopvars, shared_memo)
                known[c.key()] = pol
                ca = c.as_atom()
                if ca is not None and ((ca.func == "and" and pol) or (ca.func == "or" and not pol)):
                    for x in ca.args:
                        if isinstance(x, Rat):
                            known[x.key()] = pol
        return known

    shared_memo = {}

    # read-back of a dictionary entry written earlier on the same path: D[k] = v ... D[k]  is v  (no store to D, no call that could
    # reach D in between).  Filled while the events are replayed in order, below.
    rb = {"entries": {}, "conds": None}

    def read_back(w):
        if not rb["entries"] or not isinstance(w, Rat):
            return w
        wk = w.key()
        if not any(("getitem(" + dk + ",") in wk for (dk, _ik) in rb["entries"]):
            return w
        cur = rb["conds"]

        def fn(at):
            if at.func == "getitem" and len(at.args) == 2 and isinstance(at.args[0], Rat):
                ix = at.args[1]
                ik = ix.key() if isinstance(ix, Rat) else ("(" + ",".join(x.key() if isinstance(x, Rat) else repr(x) for x in ix) + ")" if isinstance(ix, tuple) else repr(ix))
                if isinstance(ix, tuple) and len(ix) == 1 and isinstance(ix[0], Rat):
                    ik = ix[0].key()
                hit = rb["entries"].get((at.args[0].key(), ik))
                if hit is not None and cur is not None and hit[1] <= cur:
                    return hit[0]
            return None
        try:
            return form.map_atoms(w, fn)
        except form.Undefined:
            return w

    def cn(v, conds=()):
        w = canon(v, loopvars, shared_memo)
        w = read_back(w)
        # (simplify_conditionals is available but not applied: hoisted versus nested conditions need a full case split to be
        #  normalised consistently on both sides, which is too expensive on the large functions; such pairs are left "not proven")
        return w

    def cform(conds):
        return boolq.conj([(cn(c) if isinstance(c, Rat) else c, pol) for c, pol in conds])
    def ckey(x, conds=()):
        """Canonical key of a value, an index tuple or a python list of values."""
        if isinstance(x, Rat):
            return cn(x, conds).key()
        if isinstance(x, (tuple, list)):
            return "(" + ",".join(ckey(y, conds) for y in x) + ")"
        return repr(x)
    def craw(x):
        """Canonical VALUE (not key) of a value / index tuple / list, for the case analysis."""
        if isinstance(x, Rat):
            return cn(x)
        if isinstance(x, (tuple, list)):
            return tuple(craw(y) for y in x)
        return x
    initial = set()
    for o in outs:
        pre = cform(o.conds)
        if o.kind in ("error", "raise"):
            S.errors.append(pre)
            S.raw.append(("error", "", (), pre))
            continue
        if o.kind in ("return", "fallthrough"):
            v = cn(o.value, o.conds) if o.kind == "return" else Rat.sym("None")
            S.raw.append(("return", "", (v,), pre))
            for c, leaf in _leaves(v, pre):
                S.add(S.returns, leaf, c)
        for k, v in (o.env or {}).items():
            if k.startswith("self.") and not (isinstance(v, Rat) and v.key() == "$" + k):
                cv = cn(v, o.conds)
                S.raw.append(("attr", k, (cv,), pre))
                for c, leaf in _leaves(cv, pre):
                    S.add(S.attrs.setdefault(k, {}), leaf, c)
    # the signature (parameter names, defaults, decorators) and nested definitions are compared literally
    sig = ast.dump(f.args) + "|" + ",".join(ast.dump(d) for d in f.decorator_list)
    S.effects.setdefault(("signature", sig), []).append(("const", True))
    S.raw.append(("effect", "signature", (sig,), ("const", True)))
    for n_ in ast.walk(f):
        if n_ is not f and isinstance(n_, (ast.FunctionDef, ast.ClassDef, ast.AsyncFunctionDef)):
            dk = ast.dump(n_)
            S.effects.setdefault(("nested", dk), []).append(("const", True))
            S.raw.append(("effect", "nested", (dk,), ("const", True)))
        elif isinstance(n_, (ast.AsyncWith, ast.Delete, ast.Global, ast.Nonlocal, ast.Await, ast.Yield, ast.YieldFrom, ast.Match)):
            raise NotComparable("statement kind %s is outside the compared fragment" % type(n_).__name__)
    # the iteration space of every loop is part of what the function does (the loop bodies are compared through their two generic
    # iterations, which do not say how often or over what the loop runs)
    for lp in ev.loops:
        it = lp["iter"]
        if isinstance(it, list) or (isinstance(it, Rat) and it.as_atom("pylist") is not None):
            continue          # a python list whose elements are known: how it was built (and so its length) is visible in the values
        if not isinstance(it, Rat):
            continue
        space = cn(_iteration_space(it))
        pre = cform(lp.get("conds") or [])
        kind = "while" if isinstance(lp["node"], ast.While) else "for"
        key = ("loop", kind, lp.get("depth", 0), space.key())
        S.effects.setdefault(key, []).append(pre)
        S.raw.append(("effect", "loop:%s:%d" % (kind, lp.get("depth", 0)), (space,), pre))
    order_seq = {}
    for e in ev.events:
        rb["conds"] = None
        pre = cform(e["conds"])
        rb["conds"] = frozenset((c.key(), pol) for c, pol in e["conds"] if isinstance(c, Rat))
        if e["kind"] == "call" and rb["entries"] and not e.get("inlined"):
            nm = str(e.get("name") or "")
            mentioned = " ".join(a.key() for a in list(e.get("args") or []) + list((e.get("kwargs") or {}).values()) + [e.get("recv")] if isinstance(a, Rat))
            if nm.startswith("self.") or any(dk in mentioned for (dk, _ik) in rb["entries"]):
                rb["entries"].clear()          # the callee may reach the dictionary
        if e["kind"] in ("assert", "raise", "with"):
            v = e.get("value")
            S.effects.setdefault((e["kind"], ckey(v, e["conds"])), []).append(pre)
            S.raw.append(("effect", e["kind"], (craw(v),), pre))
            continue
        if e["kind"] == "assign" and "." in str(e.get("name") or "") and not str(e["name"]).startswith("self.") and isinstance(e.get("obj"), Rat) \
                and not _is_fresh(e["obj"]):
            # attribute of an object that was not created here (a parameter, an element of a container): visible to the caller
            key = ("setattr", ckey(e["obj"], e["conds"]), str(e["name"]).rsplit(".", 1)[1], ckey(e["value"], e["conds"]))
            S.effects.setdefault(key, []).append(pre)
            S.raw.append(("effect", "setattr:" + str(e["name"]).rsplit(".", 1)[1], (craw(e["obj"]), craw(e["value"])), pre))
            continue
        if e["kind"] == "store":
            old = e.get("old")
            on_self = str(e.get("root") or "").startswith("self.")
            # (stores into attributes of self are never threaded into the attribute's value by the evaluator, so they are always effects,
            #  also when the object was created in this function)
            if not on_self and (isinstance(old, list) or _is_fresh(old)):
                continue
            idx = tuple(ckey(i, e["conds"]) for i in e["indices"])
            key = ("store", ckey(old, e["conds"]), idx, ckey(e["value"], e["conds"]))
            S.effects.setdefault(key, []).append(pre)
            S.raw.append(("effect", "store", (craw(old), craw(tuple(e["indices"])), craw(e["value"])), pre))
            if isinstance(old, Rat) and old.as_atom("new:dict") is not None and len(e["indices"]) == 1 and isinstance(e["value"], Rat):
                dk = cn(old).key()
                for k_ in [k_ for k_ in rb["entries"] if k_[0] == dk]:
                    del rb["entries"][k_]          # another key of the same dictionary may be the same key at run time
                rb["entries"][(dk, idx[0])] = (cn(e["value"]), rb["conds"])
        elif e["kind"] == "inplace":
            before = e.get("before")
            on_self = str(e.get("name") or "").startswith("self.")
            if not on_self and (isinstance(before, list) or _is_fresh(before) or (isinstance(before, Rat) and before.const_value() is not None)):
                continue
            op = e.get("operand")
            key = ("inplace", type(e["node"].op).__name__, ckey(before, e["conds"]), ckey(op, e["conds"]))
            S.effects.setdefault(key, []).append(pre)
            S.raw.append(("effect", "inplace:" + type(e["node"].op).__name__, (craw(before), craw(op)), pre))
        elif e["kind"] == "call" and e.get("stmt"):
            name = e["name"] or ""
            node = e["node"]
            if e.get("inlined"):
                continue                        # evaluated in place: its stores, calls and attribute values are in the summary themselves
            if isinstance(node.func, ast.Attribute) and node.func.attr in ("append", "add", "extend", "insert", "update", "sort") and isinstance(node.func.value, ast.Name):
                recv = node.func.value.id
                if recv != "self":
                    continue                    # building a local container: visible in the values
            if name in ev.noreturn:
                continue
            root, chain = node.func, []
            while isinstance(root, ast.Attribute):
                chain.append(root.attr)
                root = root.value
            if chain and isinstance(root, ast.Name) and root.id not in m.aliases and root.id != "self":
                rv = None
                for e2 in reversed(ev.events[:ev.events.index(e)]):
                    if e2["kind"] == "assign" and e2.get("name") == root.id:
                        rv = e2.get("value")
                        break
                if isinstance(rv, Rat):
                    name = "m:%s@%s" % (".".join(reversed(chain)), cn(rv, e["conds"]).key())
                elif isinstance(e.get("recv"), Rat):
                    name = "m:%s@%s" % (".".join(reversed(chain)), cn(e["recv"], e["conds"]).key())
            args = tuple(ckey(a, e["conds"]) for a in e["args"])
            kws = tuple(sorted((k, ckey(v, e["conds"])) for k, v in e["kwargs"].items()))
            # calls made for their effect on ONE object happen in an order that is part of what the function does (ax.set_xticks
            # before ax.set_xlim is not ax.set_xlim before ax.set_xticks): the sequence of methods per receiver is compared too
            if name.startswith("m:") and "@" in name:
                order_seq.setdefault(name.split("@", 1)[1], []).append(name.split("@", 1)[0][2:])
            elif "." in name and not name.startswith("self."):
                order_seq.setdefault(name.rsplit(".", 1)[0], []).append(name.rsplit(".", 1)[1])
            S.effects.setdefault(("call", name, args, kws), []).append(pre)
            S.raw.append(("effect", "call:" + name, (craw(tuple(e["args"])), craw(tuple(v for k, v in sorted(e["kwargs"].items()))), tuple(sorted(e["kwargs"]))), pre))
    for rk, seq in sorted(order_seq.items()):
        if len(set(seq)) >= 2:
            S.effects.setdefault(("order", rk, repr(seq)), []).append(("const", True))
            S.raw.append(("effect", "order:" + rk, (repr(seq),), ("const", True)))
    return S


def _match_tables(t1, t2, vals1, vals2, what):
    k1, k2 = set(t1), set(t2)
    if k1 != k2:
        # semantic re-matching of the leftovers
        left1, left2 = sorted(k1 - k2), sorted(k2 - k1)
        pairs = {}
        for a in left1:
            va = vals1.get(a)
            for b in left2:
                vb = vals2.get(b)
                if b not in pairs.values() and isinstance(va, Rat) and isinstance(vb, Rat):
                    try:
                        if va.equals(vb):
                            pairs[a] = b
                            break
                    except Exception:
                        pass
        if len(pairs) != len(left1) or len(left1) != len(left2):
            a = (left1 or left2)[0]
            return "%s differ: %s" % (what, str(a)[:200])
        t2 = dict(t2)
        for a, b in pairs.items():
            t2[a] = t2.pop(b)
    for k in t1:
        if sorted(repr(x) for x in t1[k]) == sorted(repr(x) for x in t2[k]):
            continue                        # literally the same conditions
        f1, f2 = boolq.disj(t1[k]), boolq.disj(t2[k])
        try:
            w = boolq.differ(f1, f2, limit=18)
        except boolq.TooBig as e:
            return "%s: conditions too large to compare (%s)" % (what, e)
        if w is not None:
            return "%s: different condition for %s (%s)" % (what, str(k)[:120], boolq.show(w)[:200])
    return None


def compare(S1, S2):
    """None if the summaries coincide, else a reason."""
    r = _match_tables(S1.returns, S2.returns, S1.values, S2.values, "returned values")
    if r:
        return r
    if sorted(repr(x) for x in S1.errors) != sorted(repr(x) for x in S2.errors):
        try:
            w = boolq.differ(boolq.disj(S1.errors), boolq.disj(S2.errors), limit=18)
        except boolq.TooBig as e:
            return "error exits: too large (%s)" % e
        if w is not None:
            return "error exits under different conditions (%s)" % boolq.show(w)[:200]
    if set(S1.attrs) != set(S2.attrs):
        return "different attributes assigned: %s" % sorted(set(S1.attrs) ^ set(S2.attrs))
    for a in S1.attrs:
        r = _match_tables(S1.attrs[a], S2.attrs[a], S1.values, S2.values, "attribute %s" % a)
        if r:
            return r
    e1 = {repr(k): v for k, v in S1.effects.items()}
    e2 = {repr(k): v for k, v in S2.effects.items()}
    return _match_tables(e1, e2, {}, {}, "effects")


def prove(prog_ref, prog_cur, qual):
    """The full comparison as the reference substitution uses it: direct, then by cases; loop symbols named by iteration space, and -
    when the remaining difference mentions loop symbols - once more named by order.  -> None when proven equal, else the reason.
    Raises NotComparable / AnalysisError / symeval.Undecided when a side is outside the fragment."""
    global LOOP_NAMING
    from . import symeval
    r = "?"
    for naming in ("space", "order"):
        LOOP_NAMING = naming
        try:
            symeval.set_program(prog_ref)
            s1 = summarize(prog_ref, qual)
            symeval.set_program(prog_cur)
            s2 = summarize(prog_cur, qual)
            r = compare(s1, s2)
            if r is not None and compare_by_cases(s1, s2) is None:
                r = None
        finally:
            LOOP_NAMING = "space"
        if r is None or "$L" not in str(r):
            break
    return r


def equivalent(prog_ref, prog_cur, qual):
    """(True, None) | (False, reason) | (None, reason when not comparable)"""
    try:
        s1 = summarize(prog_ref, qual)
        s2 = summarize(prog_cur, qual)
    except NotComparable as e:
        return None, str(e)
    except AnalysisError as e:
        return None, str(e)
    r = compare(s1, s2)
    return (r is None), r


_PROP_CACHE = {}


def _prop_of(c):
    k = c.key()
    f = _PROP_CACHE.get(k)
    if f is None:
        f = boolq.prop(c)
        if len(_PROP_CACHE) > 20000:
            _PROP_CACHE.clear()
        _PROP_CACHE[k] = f
    return f


def _cond_atoms(x, acc):
    """Count the atomic propositions of the conditions of conditional expressions inside a value."""
    if isinstance(x, Rat):
        for at in x.atoms(deep=True):
            if at.func == "ifexp" and at.args and isinstance(at.args[0], Rat):
                if len(at.args[0].key()) < 6000:
                    for a in boolq.atoms_of(_prop_of(at.args[0])):
                        acc[a] = acc.get(a, 0) + 1
    elif isinstance(x, tuple):
        for y in x:
            _cond_atoms(y, acc)


def _resolve(x, penv, memo):
    """Collapse the conditional expressions whose condition is decided by the assignment penv {atomic proposition: bool}."""
    if isinstance(x, Rat):
        def fn(at):
            if at.func == "ifexp" and len(at.args) == 3 and isinstance(at.args[0], Rat):
                f = boolq.partial(_prop_of(at.args[0]), penv)
                if f[0] == "const":
                    br = at.args[1] if f[1] else at.args[2]
                    return br if isinstance(br, Rat) else None
            return None
        try:
            return form.map_atoms(x, fn, memo)
        except form.Undefined:
            return x
    if isinstance(x, tuple):
        return tuple(_resolve(y, penv, memo) for y in x)
    return x


def _rawkey(x):
    if isinstance(x, Rat):
        return x.key()
    if isinstance(x, tuple):
        return "(" + ",".join(_rawkey(y) for y in x) + ")"
    return repr(x)


def compare_by_cases(S1, S2, max_atoms=8, budget=60):
    """Fallback when the direct comparison fails: conditions can be hoisted (two returns) on one side and nested (a conditional
    expression inside a value) on the other, or written as different but equivalent compound conditions.  The atomic propositions
    that occur in the conditions of conditional expressions are fixed to every feasible combination of truth values (at most
    2**max_atoms cases); in each case the decided conditional expressions collapse on both sides, the path conditions are simplified
    under the same assignment, and the collapsed summaries are compared as usual.  None if equal in every case, else a reason."""
    import itertools
    import time
    t0 = time.time()
    counts = {}
    for S in (S1, S2):
        for cat, label, parts, pre in S.raw:
            _cond_atoms(parts, counts)
    names = sorted(counts, key=lambda k: (-counts[k], len(k)))[:max_atoms]
    if not names:
        return "no conditional expressions to split on"
    ncase = 0
    for vals in itertools.product((False, True), repeat=len(names)):
        penv = dict(zip(names, vals))
        if not boolq._feasible(penv):
            continue
        if time.time() - t0 > budget:
            return "case analysis exceeded its time budget after %d cases" % ncase
        ncase += 1
        tabs = []
        for S in (S1, S2):
            memo = {}
            tab = {}
            for cat, label, parts, pre in S.raw:
                f = boolq.partial(pre, penv)
                if f[0] == "const" and not f[1]:
                    continue
                rp = _resolve(parts, penv, memo)
                tab.setdefault(repr((cat, label, _rawkey(rp))), []).append(f)
            tabs.append(tab)
        r = _match_tables(tabs[0], tabs[1], {}, {}, "case %s" % (vals,))
        if r:
            return r
    return None
