"""Read-after-write simplification of folded array values and abstraction of sub-terms into symbols.

The evaluator keeps ``y[t] += v`` as ``setitem(y, t, getitem(y, t) + v)``.  For the value rules of the diagrams the element that
finally sits at the generic index is what matters: ``getitem(setitem(A, i, v), i) = v``, ``getitem(zeros(..), i) = 0`` and
``getitem(nan * zeros(..), i) = nan``.  Nothing is decided about *other* indices: a read at an index that is not syntactically the
written one is left as it is."""
from . import form
from .form import Rat


def _ikey(i):
    if isinstance(i, Rat):
        return i.key()
    if isinstance(i, (tuple, list)):
        return "(" + ",".join(_ikey(x) for x in i) + ")"
    return repr(i)


def elem_at(base, idx):
    """The value stored at ``idx`` of the folded array ``base`` when it can be read off, else None."""
    if not isinstance(base, Rat):
        return None
    at = base.as_atom("setitem")
    if at is not None and len(at.args) == 3:
        b, i, v = at.args
        if _ikey(i) == _ikey(idx):
            return v if isinstance(v, Rat) else None
        return None
    at = base.as_atom("ifexp")
    if at is not None and len(at.args) == 3:
        va, vb = elem_at(at.args[1], idx), elem_at(at.args[2], idx)
        if va is not None and vb is not None:
            return form.apply("ifexp", [at.args[0], va, vb])
        return None
    if base.as_atom("zeros") is not None:
        return Rat.const(0)
    if base.as_atom("ones") is not None:
        return Rat.const(1)
    k = base.key()
    if k.startswith("$nan*zeros(") or k.startswith("$nan*ones(") or k.startswith("$np.nan*zeros("):
        return Rat.sym("nan")
    return None


def read_back(r):
    def fn(a):
        if a.func != "getitem" or len(a.args) != 2:
            return None
        return elem_at(a.args[0], a.args[1])
    if isinstance(r, Rat):
        return form.map_atoms(r, fn)
    return r


def final_elem(arr, idx):
    """Element ``idx`` of a folded array after every store, read-backs resolved; None when the array is not a store chain at idx."""
    v = elem_at(arr, idx)
    if v is None:
        return None
    return read_back(v)


def abstract(r, table):
    """Replace every atom a for which some (name, pred) of ``table`` holds by the symbol ``name``; returns (value, {name: [atoms]})."""
    seen = {}

    def fn(a):
        for name, pred in table:
            try:
                hit = pred(a)
            except Exception:
                hit = False
            if hit:
                seen.setdefault(name, {})[a.id] = a
                return Rat.sym(name)
        return None
    out = form.map_atoms(r, fn)
    return out, {k: list(v.values()) for k, v in seen.items()}


def store_index(arr):
    """Index of the outermost store of a folded array (setitem chain), or None."""
    at = arr.as_atom("setitem") if isinstance(arr, Rat) else None
    return at.args[1] if at is not None and len(at.args) == 3 else None
