"""Propositional view of FORM boolean values and decision of their equivalence by truth table.

A boolean Rat (and / or / not / comparisons / membership in a literal collection / conditional expressions) is turned into a formula
over *atomic propositions* (the remaining opaque boolean atoms, keyed by their canonical FORM key).  Two predicates written in
different ways -- nested ifs or guard clauses, `x[0] in ("q", "p")` or a chain of `==`, a comprehension filter or an `if` around an
`append` -- have the same formula up to propositional equivalence, which is decided by enumerating the assignments of the atoms.
Assignments that give two different constants to the same subject (x == 'q' and x == 'p') are infeasible and skipped.
"""
import itertools

from . import form
from .form import Rat


class TooBig(Exception):
    pass


def _const_of(r):
    if not isinstance(r, Rat):
        return None
    at = r.as_atom()
    if at is not None and at.func.startswith("str:") and not at.args:
        return at.func
    c = r.const_value()
    return None if c is None else "num:%s" % c


def _eq_parts(at):
    """cmp_eq(x - c, 0) with c a constant -> (subject key, constant key), else None."""
    if at.func not in ("cmp_eq", "cmp_ne") or not isinstance(at.args[0], Rat) or not at.args[1].is_zero():
        return None
    d = at.args[0]
    atoms = d.atoms(deep=False)
    strs = [a for a in atoms if a.func.startswith("str:") and not a.args]
    if len(strs) == 1:
        s = Rat.of_atom(strs[0])
        for sign in (1, -1):
            x = (d - s) if sign == 1 else (d + s)
            x1, sg = form._canon_sign(x)
            if not any(a is strs[0] for a in x1.atoms(deep=False)):
                return x1.key(), strs[0].func
        return None
    return None


def prop(r):
    """Formula: ('const', bool) | ('atom', key) | ('not', f) | ('and', [f...]) | ('or', [f...])"""
    if isinstance(r, bool):
        return ("const", r)
    if not isinstance(r, Rat):
        return ("atom", "opaque:%r" % (r,))
    c = r.const_value()
    if c is not None:
        return ("const", c != 0)
    at = r.as_atom()
    if at is None:
        return ("atom", r.key())
    f = at.func
    if f in ("and", "or"):
        return (f, [prop(a) for a in at.args])
    if f == "not":
        return ("not", prop(at.args[0]))
    if f == "ifexp" and len(at.args) == 3:
        c_, a_, b_ = prop(at.args[0]), prop(at.args[1]), prop(at.args[2])
        return ("or", [("and", [c_, a_]), ("and", [("not", c_), b_])])
    if f in ("in", "notin") and len(at.args) == 2:
        elems = None
        if isinstance(at.args[1], tuple):
            elems = at.args[1]
        elif isinstance(at.args[1], Rat):
            coll = at.args[1].as_atom()
            if coll is not None and coll.func in ("pylist", "pytuple", "pyset") and coll.args and isinstance(coll.args[0], tuple):
                elems = coll.args[0]
        if elems is not None and isinstance(at.args[0], Rat) and at.args[0].key() == "$None" and all(isinstance(e, Rat) for e in elems):
            # None in [a, b, c]: one of them is None
            alts = [prop(form.apply("cmp_eq", [Rat.sym("None") - e, Rat.const(0)])) for e in elems]
            res = ("or", alts) if alts else ("const", False)
            return res if f == "in" else ("not", res)
        if elems is not None and all(_const_of(e) is not None for e in elems) and isinstance(at.args[0], Rat):
            alts = [prop(form.apply("cmp_eq", [at.args[0], e])) for e in elems]
            res = ("or", alts) if alts else ("const", False)
            return res if f == "in" else ("not", res)
        inner = ("atom", Rat.of_atom(form.atom("in", at.args)).key())
        return inner if f == "in" else ("not", inner)
    if f == "cmp_le" and len(at.args) == 2 and isinstance(at.args[0], Rat) and isinstance(at.args[1], Rat):
        # a <= b  is  not (b < a): one atomic proposition for both spellings
        return ("not", prop(form.apply("cmp_lt", [at.args[1], at.args[0]])))
    if f == "cmp_ne":
        return ("not", prop(Rat.of_atom(form.atom("cmp_eq", at.args))))
    if f == "cmp_eq":
        ep = _eq_parts(at)
        if ep is not None:
            return ("atom", "eq:%s==%s" % ep)
        # B == 0 for a boolean B is its negation
        d = at.args[0]
        da = d.as_atom() if isinstance(d, Rat) else None
        if da is not None and at.args[1].is_zero() and (da.func in ("and", "or", "not", "in", "notin", "isnan", "isinf") or da.func.startswith("cmp_")):
            return ("not", prop(d))
        return ("atom", r.key())
    return ("atom", r.key())


def conj(conds):
    """Conjunction of path conditions [(Rat, polarity)]."""
    out = []
    for c, pol in conds:
        p = prop(c)
        out.append(p if pol else ("not", p))
    return ("and", out) if out else ("const", True)


def disj(fs):
    fs = list(fs)
    return ("or", fs) if fs else ("const", False)


def atoms_of(f, acc=None):
    acc = acc if acc is not None else []
    if f[0] == "atom":
        if f[1] not in acc:
            acc.append(f[1])
    elif f[0] == "not":
        atoms_of(f[1], acc)
    elif f[0] in ("and", "or"):
        for x in f[1]:
            atoms_of(x, acc)
    return acc


def evaluate(f, env):
    k = f[0]
    if k == "const":
        return f[1]
    if k == "atom":
        return env[f[1]]
    if k == "not":
        return not evaluate(f[1], env)
    if k == "and":
        return all(evaluate(x, env) for x in f[1])
    return any(evaluate(x, env) for x in f[1])


def _feasible(env):
    seen = {}
    for k, v in env.items():
        if v and k.startswith("eq:"):
            subj, const = k[3:].rsplit("==", 1)
            if seen.setdefault(subj, const) != const:
                return False
    return True


def differ(f, g, limit=16):
    """None if f and g are equivalent on every feasible assignment, else a witness assignment {atom: bool}."""
    names = atoms_of(f)
    atoms_of(g, names)
    if len(names) > limit:
        if len(names) <= 4 * limit:
            return differ_expand(f, g)
        raise TooBig("%d atomic propositions" % len(names))
    for vals in itertools.product((False, True), repeat=len(names)):
        env = dict(zip(names, vals))
        if not _feasible(env):
            continue
        if evaluate(f, env) != evaluate(g, env):
            return env
    return None


def _norm_key(f):
    """Structural key of a formula with the operands of and/or sorted and duplicates removed (for the early exit of the expansion)."""
    k = f[0]
    if k in ("const", "atom"):
        return repr(f)
    if k == "not":
        return "!(" + _norm_key(f[1]) + ")"
    return k + "(" + ",".join(sorted(set(_norm_key(x) for x in f[1]))) + ")"


def differ_expand(f, g, budget=200000):
    """Equivalence of two formulas over MANY atomic propositions by Shannon expansion: fix one proposition, simplify both sides,
    stop as soon as they are constants or literally the same formula.  Formulas that differ only locally need few steps whatever
    the number of propositions.  -> None (equivalent on every feasible assignment) or a witness; TooBig when the budget is spent."""
    steps = [0]

    def rec(f_, g_, env):
        steps[0] += 1
        if steps[0] > budget:
            raise TooBig("expansion budget of %d steps spent" % budget)
        if f_[0] == "const" and g_[0] == "const":
            return None if f_[1] == g_[1] else dict(env)
        if _norm_key(f_) == _norm_key(g_):
            return None
        names = atoms_of(f_)
        atoms_of(g_, names)
        a = names[0]
        for val in (True, False):
            e2 = {a: val}
            if val and a.startswith("eq:"):
                subj = a[3:].rsplit("==", 1)[0]
                for other in names[1:]:
                    if other.startswith("eq:") and other[3:].rsplit("==", 1)[0] == subj:
                        e2[other] = False          # one subject equals at most one constant
            env2 = dict(env)
            env2.update(e2)
            w = rec(partial(f_, e2), partial(g_, e2), env2)
            if w is not None:
                return w
        return None
    return rec(f, g, {})


def equivalent(f, g, limit=16):
    return differ(f, g, limit) is None


def implies(f, g, limit=16):
    return differ(("or", [("not", f), g]), ("const", True), limit) is None


def show(env):
    return ", ".join("%s=%s" % (k[:60], "T" if v else "F") for k, v in sorted(env.items()))


def partial(f, env):
    """Simplify a formula under a partial assignment {atom key: bool}."""
    k = f[0]
    if k == "const":
        return f
    if k == "atom":
        return ("const", env[f[1]]) if f[1] in env else f
    if k == "not":
        g = partial(f[1], env)
        return ("const", not g[1]) if g[0] == "const" else ("not", g)
    parts = [partial(x, env) for x in f[1]]
    if k == "and":
        if any(p[0] == "const" and not p[1] for p in parts):
            return ("const", False)
        parts = [p for p in parts if p[0] != "const"]
        return ("and", parts) if parts else ("const", True)
    if any(p[0] == "const" and p[1] for p in parts):
        return ("const", True)
    parts = [p for p in parts if p[0] != "const"]
    return ("or", parts) if parts else ("const", False)
