"""Extraction of the table (variable name, dimensions, dtype, value written) of a script that writes a verif NetCDF file,
by symbolic folding of its main() with an event log."""
from . import q, symeval, trace
from .core import AnalysisError
from .form import Rat


def _strval(r):
    return symeval._strval(r)


def writer_table(prog, qual, env=None, hook=None):
    """Returns (table, evaluator). table: name -> {"dims": tuple, "dtype": str, "value": Rat|None, "node": ast, "conds": [...]}"""
    user_hook = hook

    def hook(ev_, node, rname, args, kwargs, path):
        if user_hook is not None:
            r = user_hook(ev_, node, rname, args, kwargs, path)
            if r is not None:
                return r
        if rname == "verif.input.get_input":
            return Rat.sym("INPUT")
        import ast as _ast
        if isinstance(node.func, _ast.Attribute) and node.func.attr == "parse_args":
            return Rat.sym("args")
        return None
    ev = trace.trace(prog, qual, loop_mode="body_once", env=env, hook=hook, max_paths=2048)
    table = {}
    handles = {}        # python variable name -> netcdf variable name
    for e in ev.events:
        if e["kind"] == "call" and e["name"].endswith(".createVariable") and len(e["args"]) >= 2:
            name = _strval(e["args"][0])
            nm = name if name is not None else "<" + (e["args"][0].key() if isinstance(e["args"][0], Rat) else "?") + ">"
            dims = e["args"][2] if len(e["args"]) > 2 else ()
            if isinstance(dims, Rat):
                dims = (dims,)
            dims = tuple(_strval(d) if isinstance(d, Rat) else str(d) for d in (dims if isinstance(dims, (list, tuple)) else [dims]))
            table.setdefault(nm, {"dims": dims, "dtype": _strval(e["args"][1]), "value": None, "node": e["node"], "conds": e["conds"], "namekey": e["args"][0]})
    for e in ev.events:
        if e["kind"] == "assign" and isinstance(e["value"], Rat):
            at = e["value"].as_atom()
            if at is not None and at.func.endswith("createVariable") and at.args:
                a0 = at.args[1] if at.func.startswith("m:") and len(at.args) > 1 else at.args[0]
                name = _strval(a0) if isinstance(a0, Rat) else None
                handles[e["name"]] = name if name is not None else "<" + (a0.key() if isinstance(a0, Rat) else "?") + ">"
    for e in ev.events:
        if e["kind"] != "store":
            continue
        root = e["root"]
        idx = e["indices"]
        target = None
        if root in handles and len(idx) == 1:
            target = handles[root]
        elif root.endswith(".variables") and len(idx) == 2 and isinstance(idx[0], Rat):
            target = _strval(idx[0]) or "<" + idx[0].key() + ">"
        elif len(idx) == 2 and isinstance(idx[0], Rat) and (_strval(idx[0]) is not None or idx[0].key().startswith("m:name")):
            target = _strval(idx[0]) or "<" + idx[0].key() + ">"
        if target is not None and target in table:
            table[target]["value"] = e["value"]
            table[target]["store_node"] = e["node"]
            table[target]["store_conds"] = e["conds"]
    return table, ev


# NetCDF type codes that hold every unix time in seconds (about 1.4e9) / every station id exactly.  A 4-byte float has a 24-bit
# mantissa: times come out in steps of 128 s, ids above 16.7 million collide.
EXACT_INT_TYPES = {"f8", "d", "double", "float64", "i4", "i8", "u4", "u8", "i", "l", "int", "int32", "int64", "uint32", "uint64"}


def check_exact_coordinates(ctx, rule, site, prog, module, table, variables=("time",)):
    """The coordinate variables whose values are compared for equality between files (C02/C10: values are matched by coordinates) are
    created with a type that represents them exactly."""
    for var in variables:
        row = table.get(var)
        if row is None:
            continue
        dt = row.get("dtype")
        ctx.ob(rule, site, dt in EXACT_INT_TYPES, "'%s' is created with a type that holds unix seconds exactly (%s)" % (var, dt),
               loc=prog.loc(module, row["node"]),
               msg="'%s' is created with NetCDF type %r: a 4-byte float (or a short integer) cannot represent unix times in seconds exactly, "
                   "initialisation times are rounded (to multiples of 128 s for 'f4') and no longer match the same times read from another file" % (var, dt),
               expected=sorted(EXACT_INT_TYPES)[:6], found=dt)
