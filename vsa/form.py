"""FORM: multivariate rational functions over Q with opaque, semantically interned atoms.

A value is a ``Rat`` = num/den, both polynomials {monomial: Fraction}; a monomial is a sorted tuple
of (atom id, Fraction exponent).  Atoms are symbols or function applications f(args) whose
arguments are again Rats; they are interned by *semantic* equality of their arguments, so that
``log(a/(a+c))`` written in two different ways is one atom.  Equality of Rats is decided by
cross-multiplication (a complete procedure for rational-function identity when atoms are treated
as independent indeterminates; the rewrites below remove the dependencies that occur in this code
base: sqrt/pow, abs with even powers, std/var, log of products/quotients, exp/log).
"""
from fractions import Fraction

_ATOMS = []          # id -> Atom
_BY_KEY = {}         # structural key -> id
_BY_FUNC = {}        # (func, number of args) -> [Atom]  (candidates of the semantic search)


class Atom(object):
    __slots__ = ("id", "func", "args", "key")

    def __init__(self, id, func, args, key):
        self.id = id
        self.func = func
        self.args = args
        self.key = key

    def __repr__(self):
        return self.key


def _argkey(a):
    if isinstance(a, Rat):
        return a.key()
    if isinstance(a, tuple):
        return "(" + ",".join(_argkey(x) for x in a) + ")"
    return repr(a)


def _args_equal(a, b):
    if len(a) != len(b):
        return False
    for x, y in zip(a, b):
        if isinstance(x, Rat) and isinstance(y, Rat):
            if not x.equals(y):
                return False
        elif isinstance(x, tuple) and isinstance(y, tuple):
            if not _args_equal(x, y):
                return False
        elif isinstance(x, Rat) or isinstance(y, Rat):
            return False
        elif x != y:
            return False
    return True


def atom(func, args=()):
    args = tuple(args)
    key = func if not args and func.startswith("$") else "%s(%s)" % (func, ",".join(_argkey(a) for a in args))
    if key in _BY_KEY:
        return _ATOMS[_BY_KEY[key]]
    bucket = _BY_FUNC.setdefault((func, len(args)), [])
    if args:
        for a in bucket:
            if _args_equal(a.args, args):
                _BY_KEY[key] = a.id
                return a
    a = Atom(len(_ATOMS), func, args, key)
    _ATOMS.append(a)
    bucket.append(a)
    _BY_KEY[key] = a.id
    return a


def _pnorm(p):
    return {m: c for m, c in p.items() if c != 0}


def _mmul(m1, m2):
    d = dict(m1)
    for a, e in m2:
        d[a] = d.get(a, 0) + e
    return tuple(sorted((a, e) for a, e in d.items() if e != 0))


def _padd(p, q, sign=1):
    r = dict(p)
    for m, c in q.items():
        r[m] = r.get(m, 0) + sign * c
    return _pnorm(r)


def _pmul(p, q):
    r = {}
    for m1, c1 in p.items():
        for m2, c2 in q.items():
            m = _mmul(m1, m2)
            r[m] = r.get(m, 0) + c1 * c2
    return _pnorm(r)


def _pconst(c):
    c = Fraction(c)
    return {(): c} if c != 0 else {}


def _is_const_poly(p):
    return all(m == () for m in p)


def _mono_sortkey(m):
    return tuple((_ATOMS[a].key, e) for a, e in m)


def _pkey(p):
    if not p:
        return "0"
    out = []
    for m in sorted(p, key=_mono_sortkey):
        c = p[m]
        fac = []
        for a, e in m:
            k = _ATOMS[a].key
            fac.append(k if e == 1 else "%s^%s" % (k, e))
        body = "*".join(fac)
        if not body:
            out.append(str(c))
        elif c == 1:
            out.append(body)
        elif c == -1:
            out.append("-" + body)
        else:
            out.append("%s*%s" % (c, body))
    return " + ".join(out).replace("+ -", "- ")


def _vars(*polys):
    s = set()
    for p in polys:
        for m in p:
            for a, e in m:
                s.add(a)
    return sorted(s)


def _expvec(m, vs):
    d = dict(m)
    return tuple(d.get(v, Fraction(0)) for v in vs)


def _lead(p, vs):
    """Leading monomial under graded lex order."""
    best = None
    for m in p:
        ev = _expvec(m, vs)
        k = (sum(ev), ev)
        if best is None or k > best[0]:
            best = (k, m)
    return best[1]


def poly_divmod(p, q):
    """Exact multivariate division: returns (quotient, remainder) with p = quotient*q + remainder."""
    if not q:
        raise ZeroDivisionError
    vs = _vars(p, q)
    lq = _lead(q, vs)
    lqv = _expvec(lq, vs)
    quo, rem = {}, {}
    p = dict(p)
    steps = 0
    while p:
        steps += 1
        if steps > 5000:
            return {}, dict(p)
        lp = _lead(p, vs)
        lpv = _expvec(lp, vs)
        if all(x >= y for x, y in zip(lpv, lqv)):
            diff = tuple((v, x - y) for v, x, y in zip(vs, lpv, lqv) if x - y != 0)
            coef = p[lp] / q[lq]
            quo[diff] = quo.get(diff, 0) + coef
            p = _padd(p, _pmul({diff: coef}, q), -1)
        else:
            rem[lp] = rem.get(lp, 0) + p[lp]
            del p[lp]
    return _pnorm(quo), _pnorm(rem)


def poly_divides(q, p):
    """True if polynomial q divides polynomial p exactly."""
    if not q:
        return False
    if not p:
        return True
    try:
        _, rem = poly_divmod(p, q)
    except ZeroDivisionError:
        return False
    return not rem


class Undefined(Exception):
    pass


class Rat(object):
    __slots__ = ("num", "den", "_key")

    def __init__(self, num, den=None):
        self.num = _pnorm(num)
        self.den = _pnorm(den) if den is not None else {(): Fraction(1)}
        if not self.den:
            raise Undefined("division by zero")
        self._key = None
        self._reduce()

    # -- construction --------------------------------------------------------------------
    @staticmethod
    def const(c):
        return Rat(_pconst(c))

    @staticmethod
    def of_atom(a, exp=1):
        return Rat({((a.id, Fraction(exp)),): Fraction(1)})

    @staticmethod
    def sym(name):
        return Rat.of_atom(atom("$" + name))

    def _reduce(self):
        if not self.num:
            self.den = {(): Fraction(1)}
            return
        if _is_const_poly(self.den):
            c = self.den[()]
            if c != 1:
                self.num = {m: v / c for m, v in self.num.items()}
                self.den = {(): Fraction(1)}
            return
        # cancel a common monomial/scalar content and exact polynomial factors
        if len(self.den) == 1:
            (m, c), = self.den.items()
            # divide every numerator term by the monomial when possible
            dm = dict(m)
            ok = True
            for nm in self.num:
                d = dict(nm)
                if any(d.get(a, 0) < e for a, e in dm.items()):
                    ok = False
                    break
            if ok:
                newnum = {}
                for nm, v in self.num.items():
                    d = dict(nm)
                    for a, e in dm.items():
                        d[a] = d[a] - e
                    newnum[tuple(sorted((a, e) for a, e in d.items() if e != 0))] = v / c
                self.num = _pnorm(newnum)
                self.den = {(): Fraction(1)}
                return
        if len(self.num) <= 40 and len(self.den) <= 40:
            quo, rem = poly_divmod(self.num, self.den)
            if not rem:
                self.num, self.den = quo, {(): Fraction(1)}
                return
            quo, rem = poly_divmod(self.den, self.num)
            if not rem and quo:
                self.num, self.den = {(): Fraction(1)}, quo
        # normalise the sign/scale of the denominator
        vs = _vars(self.den)
        lc = self.den[_lead(self.den, vs)]
        if lc != 1:
            self.num = {m: v / lc for m, v in self.num.items()}
            self.den = {m: v / lc for m, v in self.den.items()}

    # -- queries -------------------------------------------------------------------------
    def is_zero(self):
        return not self.num

    def is_const(self):
        return _is_const_poly(self.num) and _is_const_poly(self.den)

    def const_value(self):
        if not self.is_const():
            return None
        return (self.num.get((), Fraction(0))) / self.den[()]

    def single_atom(self):
        """(atom, exponent, coefficient) if this is coefficient*atom^exponent, else None."""
        if len(self.num) == 1 and _is_const_poly(self.den):
            (m, c), = self.num.items()
            if len(m) == 1:
                return _ATOMS[m[0][0]], m[0][1], c / self.den[()]
        return None

    def as_atom(self, func=None):
        sa = self.single_atom()
        if sa and sa[1] == 1 and sa[2] == 1 and (func is None or sa[0].func == func):
            return sa[0]
        return None

    def key(self):
        if self._key is None:
            n = _pkey(self.num)
            if _is_const_poly(self.den) and self.den.get(()) == 1:
                self._key = n
            else:
                self._key = "(%s)/(%s)" % (n, _pkey(self.den))
        return self._key

    def __repr__(self):
        return self.key()

    def equals(self, other):
        if self.key() == other.key():
            return True
        return _pmul(self.num, other.den) == _pmul(other.num, self.den)

    def atoms(self, deep=True, _seen=None):
        """All atoms occurring in this value (recursively through arguments when deep)."""
        seen = _seen if _seen is not None else {}
        for p in (self.num, self.den):
            for m in p:
                for a, e in m:
                    if a not in seen:
                        at = _ATOMS[a]
                        seen[a] = at
                        if deep:
                            for x in at.args:
                                _walk_arg(x, seen)
        return list(seen.values())

    def symbols(self):
        return sorted(a.func[1:] for a in self.atoms() if a.func.startswith("$"))

    # -- arithmetic ----------------------------------------------------------------------
    def __add__(self, o):
        if self.den == o.den:
            return _simplify(Rat(_padd(self.num, o.num), self.den))
        return _simplify(Rat(_padd(_pmul(self.num, o.den), _pmul(o.num, self.den)), _pmul(self.den, o.den)))

    def __neg__(self):
        return Rat({m: -c for m, c in self.num.items()}, self.den)

    def __sub__(self, o):
        return self + (-o)

    def __mul__(self, o):
        return _simplify(Rat(_pmul(self.num, o.num), _pmul(self.den, o.den)))

    def inv(self):
        if not self.num:
            raise Undefined("division by zero")
        return Rat(self.den, self.num)

    def __truediv__(self, o):
        return self * o.inv()

    def pow(self, e):
        """self ** e for a Fraction exponent e."""
        e = Fraction(e)
        if e == 0:
            return Rat.const(1)
        if e == 1:
            return self
        if e.denominator == 1:
            k = int(e)
            base = self if k > 0 else self.inv()
            out = Rat.const(1)
            for _ in range(abs(k)):
                out = out * base
            return out
        c = self.const_value()
        if c is not None:
            if c == 0:
                return Rat.const(0)
            if c == 1:
                return Rat.const(1)
            r = _rational_root(c, e)
            if r is not None:
                return r
            return Rat.of_atom(atom("base", (self,)), e)
        if len(self.num) == 1 and len(self.den) == 1:
            # monomial quotient: distribute the exponent
            out = Rat.const(1)
            for p, sgn in ((self.num, 1), (self.den, -1)):
                (m, c), = p.items()
                cc = _rational_root(c, e)
                if cc is None:
                    cc = Rat.of_atom(atom("base", (Rat.const(c),)), e)
                out = out * (cc if sgn == 1 else cc.inv())
                for a, x in m:
                    f = Rat({((a, x * e),): Fraction(1)})
                    out = out * (f if sgn == 1 else f.inv())
            return out
        return Rat.of_atom(atom("base", (self,)), e)


def _rational_root(c, e):
    """c ** e for rational c when the result is rational, else None."""
    if c < 0 and e.denominator % 2 == 0:
        return None
    sign = -1 if c < 0 else 1
    c = abs(c)

    def iroot(n, k):
        r = int(round(n ** (1.0 / k)))
        for t in (r - 1, r, r + 1):
            if t >= 0 and t ** k == n:
                return t
        return None
    a = iroot(c.numerator, e.denominator)
    b = iroot(c.denominator, e.denominator)
    if a is None or b is None:
        return None
    base = Fraction(sign * a, b)
    n = e.numerator
    return Rat.const(base ** n if n >= 0 else (1 / base) ** (-n))


def _walk_arg(x, seen):
    if isinstance(x, Rat):
        x.atoms(True, seen)
    elif isinstance(x, tuple):
        for y in x:
            _walk_arg(y, seen)


def _needs_simplify(p):
    for m in p:
        for a, e in m:
            f = _ATOMS[a].func
            if f == "base" and e.denominator == 1:
                return True
            if f == "abs" and e.denominator == 1 and int(e) % 2 == 0:
                return True
    return False


def _simplify(r):
    """Expand base(P)^k for integer k and abs(X)^(2k)."""
    if not (_needs_simplify(r.num) or _needs_simplify(r.den)):
        return r

    def rebuild(p):
        total = Rat.const(0)
        for m, c in p.items():
            term = Rat.const(c)
            for a, e in m:
                at = _ATOMS[a]
                if at.func == "base" and e.denominator == 1:
                    term = term * at.args[0].pow(e)
                elif at.func == "abs" and e.denominator == 1 and int(e) % 2 == 0:
                    term = term * at.args[0].pow(e)
                else:
                    term = term * Rat({((a, e),): Fraction(1)})
            total = total + term
        return total
    return rebuild(r.num) / rebuild(r.den)


ZERO = None
ONE = None


def zero():
    return Rat.const(0)


def one():
    return Rat.const(1)


# ------------------------------------------------------------------------------------------
# function application with the rewrites of DESIGN section 3.F
# ------------------------------------------------------------------------------------------
REDUCTIONS_ZERO = {"mean", "nanmean", "sum", "nansum", "agg", "median", "nanmedian", "max", "min",
                   "func", "cumsum"}
REDUCTIONS_CONST = {"mean", "nanmean", "median", "nanmedian", "max", "min"}


def _canon_sign(r):
    """(sign-normalised r, sign) so that r and -r share one representative."""
    if r.is_zero():
        return r, 1
    ms = sorted(r.num, key=_mono_sortkey)
    if r.num[ms[0]] < 0:
        return -r, -1
    return r, 1


# Symbols declared non-negative by a rule (e.g. the cells a, b, c, d of a contingency table).  log(x*y) = log(x) + log(y) holds
# on the whole domain of the left-hand side only when the factors cannot be negative; for other arguments the logarithm of a
# quotient is NOT split (log(f/o) is defined for f, o < 0, log(f) - log(o) is not).
NONNEG = set()


def _all_nonneg(r):
    for a in r.atoms(deep=False):
        if a.key not in NONNEG:
            return False
    return True


def _log_whole(func, x):
    """log of a rational function whose factors may be negative: only sound rewrites (positive constant content,
    log(1/x) = -log(x), log(exp(x)) = x)."""
    ms = sorted(x.num, key=_mono_sortkey)
    md = sorted(x.den, key=_mono_sortkey)
    c = x.num[ms[0]] / x.den[md[0]]
    out = Rat.const(0)
    if c < 0:
        c = -c
    if c != 1:
        out = out + Rat.of_atom(atom(func, (Rat.const(c),)))
        x = x / Rat.const(c)
    if x.is_const():
        cv = x.const_value()
        if cv == 1:
            return out
        return out + Rat.of_atom(atom(func, (x,)))
    sa = x.single_atom()
    if sa is not None and sa[0].func == "exp" and func == "log" and sa[2] == 1:
        return out + sa[0].args[0] * Rat.const(sa[1])
    inv = Rat.const(1) / x
    if inv.key() < x.key():
        return out - Rat.of_atom(atom(func, (inv,)))
    return out + Rat.of_atom(atom(func, (x,)))


def _log_poly(func, p):
    """log of a polynomial: split monomials, extract content."""
    if len(p) == 1:
        (m, c), = p.items()
        out = Rat.const(0)
        if c != 1:
            out = out + Rat.of_atom(atom(func, (Rat.const(c),)))
        for a, e in m:
            at = _ATOMS[a]
            if at.func == "exp" and func == "log":
                out = out + at.args[0] * Rat.const(e)
            else:
                out = out + Rat.of_atom(atom(func, (Rat({((a, Fraction(1)),): Fraction(1)}),))) * Rat.const(e)
        return out
    # common monomial content: a*b + b*c = b*(a + c)
    common = None
    for m in p:
        d = dict(m)
        if common is None:
            common = d
        else:
            common = {a: min(e, d[a]) for a, e in common.items() if a in d}
    out = Rat.const(0)
    if common:
        cm = tuple(sorted(common.items()))
        out = out + _log_poly(func, {cm: Fraction(1)})
        newp = {}
        for m, v in p.items():
            d = dict(m)
            for a, e in common.items():
                d[a] = d[a] - e
            newp[tuple(sorted((a, e) for a, e in d.items() if e != 0))] = v
        p = newp
    ms = sorted(p, key=_mono_sortkey)
    c = p[ms[0]]
    q = {m: v / c for m, v in p.items()}
    out = out + Rat.of_atom(atom(func, (Rat(q),)))
    if c != 1:
        out = out + Rat.of_atom(atom(func, (Rat.const(c),)))
    return out


VALUE_FUNCS = {"and", "or", "not", "cmp_lt", "cmp_le", "cmp_eq", "cmp_ne", "isnan", "isinf", "nparray", "zeros", "ones",
               "where", "pylist", "unique", "sort", "map", "call:numpy.intersect1d", "setitem", "m:split", "new:dict"}


def _definitely_value(r):
    """A value that cannot be None (numbers, boolean arrays, freshly built arrays)."""
    if r.is_const():
        return True
    at = r.as_atom()
    if at is not None and at.func == "ifexp":
        return all(isinstance(x, Rat) and _definitely_value(x) for x in at.args[1:3])
    if at is not None and at.func == "getitem" and at.args and isinstance(at.args[0], Rat):
        b = at.args[0].as_atom()
        # an element of the list of arrays returned by Data.get_scores is an array
        if b is not None and (b.func.endswith(".get_scores") or b.func in ("self.get_scores",)):
            return True
    return at is not None and at.func in VALUE_FUNCS


def apply(func, args, kwargs=None):
    """Apply a named function to Rat arguments, returning a Rat (with rewrites)."""
    args = [tuple(a) if isinstance(a, list) else a for a in args]
    kwargs = {k: (tuple(v) if isinstance(v, list) else v) for k, v in (kwargs or {}).items()}
    kw = tuple(sorted((kwargs or {}).items()))
    extra = tuple(("kw:" + k, v) for k, v in kw)
    x = args[0] if args and isinstance(args[0], Rat) else None
    if func == "sqrt" and x is not None:
        return x.pow(Fraction(1, 2))
    if func == "abs" and x is not None:
        c = x.const_value()
        if c is not None:
            return Rat.const(abs(c))
        sa = x.single_atom()
        if sa and sa[0].func == "abs" and sa[1] == 1 and sa[2] > 0:
            return x
        if sa and sa[1].denominator == 1 and int(sa[1]) % 2 == 0 and sa[2] > 0:
            return x
        y, _ = _canon_sign(x)
        return Rat.of_atom(atom("abs", (y,)))
    if func in ("log", "log2", "log10") and x is not None and not extra:
        c = x.const_value()
        if c is not None and c == 1:
            return Rat.const(0)
        if c is not None and c <= 0:
            raise Undefined("log of non-positive constant")
        if not _all_nonneg(x):
            return _log_whole(func, x)
        return _log_poly(func, x.num) - _log_poly(func, x.den)
    if func == "exp" and x is not None:
        if x.is_zero():
            return Rat.const(1)
        a = x.as_atom("log")
        if a is not None:
            return a.args[0]
    if func in ("std", "nanstd") and x is not None and not extra:
        v = apply("var" if func == "std" else "nanvar", [x])
        return v.pow(Fraction(1, 2))
    if func in ("var", "nanvar") and x is not None and x.is_const():
        return Rat.const(0)
    if func in REDUCTIONS_ZERO and x is not None and x.is_zero():
        return Rat.const(0)
    if func in REDUCTIONS_CONST and x is not None and x.is_const() and not extra:
        return x
    if func in ("float", "int_", "asarray", "array", "identity") and x is not None:
        return x
    if func in ("corr", "cov") and len(args) == 2:
        a, b = args
        if func == "corr" and a.equals(b):
            return Rat.const(1)
        if a.key() > b.key():
            a, b = b, a
        return Rat.of_atom(atom(func, (a, b) + extra))
    if func in ("spearmanr0", "kendalltau0") and len(args) == 2 and args[0].equals(args[1]):
        return Rat.const(1)
    if func.startswith("cmp_") and len(args) == 2:
        a, b = args
        sa, sb = a.as_atom(), b.as_atom()
        if sa is not None and sb is not None and sa.func.startswith("str:") and sb.func.startswith("str:") \
                and func in ("cmp_eq", "cmp_ne"):
            same = sa.func == sb.func
            return Rat.const(1 if same == (func == "cmp_eq") else 0)
        if func in ("cmp_eq", "cmp_ne") and sa is not None and sb is not None and sa.func != sb.func \
                and sa.func.startswith("call:verif.") and sb.func.startswith("call:verif.") \
                and sa.func.rsplit(".", 1)[0] == sb.func.rsplit(".", 1)[0] and sa.func.rsplit(".", 1)[0] in ("call:verif.axis", "call:verif.field", "call:verif.aggregator"):
            # instances of two different Axis / Field / Aggregator classes are never equal (their __eq__ compares the class first)
            return Rat.const(0 if func == "cmp_eq" else 1)
        if func in ("cmp_eq", "cmp_ne"):
            ka, kb = a.key(), b.key()
            if (ka == "$None" and _definitely_value(b)) or (kb == "$None" and _definitely_value(a)):
                return Rat.const(0 if func == "cmp_eq" else 1)
            if b.is_zero():
                # 'abc' - 'xyz' == 0 (the canonical form of a comparison of two different string literals) is false
                ats = a.atoms(deep=False)
                if len(ats) == 2 and all(t.func.startswith("str:") and not t.args for t in ats) and ats[0].func != ats[1].func:
                    try:
                        if (a - Rat.of_atom(ats[0]) + Rat.of_atom(ats[1])).is_zero() or (a + Rat.of_atom(ats[0]) - Rat.of_atom(ats[1])).is_zero():
                            return Rat.const(0 if func == "cmp_eq" else 1)
                    except Undefined:
                        pass
        if func in ("cmp_eq", "cmp_ne") and not (b.is_zero() and _canon_sign(a)[1] == 1):
            try:
                diff, _ = _canon_sign(a - b)
                a, b = diff, Rat.const(0)
                args = [a, b]
            except Undefined:
                pass
        if a.equals(b):
            return Rat.const(1 if func in ("cmp_le", "cmp_ge", "cmp_eq") else 0)
        ca, cb = a.const_value(), b.const_value()
        if ca is not None and cb is not None:
            res = {"cmp_lt": ca < cb, "cmp_le": ca <= cb, "cmp_gt": ca > cb, "cmp_ge": ca >= cb,
                   "cmp_eq": ca == cb, "cmp_ne": ca != cb}[func]
            return Rat.const(1 if res else 0)
        # canonical direction: gt/ge are written as lt/le with swapped operands
        if func == "cmp_gt":
            func, a, b = "cmp_lt", b, a
        elif func == "cmp_ge":
            func, a, b = "cmp_le", b, a
        return Rat.of_atom(atom(func, (a, b)))
    if func in ("and", "or"):
        flat = []
        for a in args:
            at = a.as_atom(func) if isinstance(a, Rat) else None
            if at is not None:
                flat.extend(at.args)
            else:
                flat.append(a)
        c = [x.const_value() for x in flat]
        if func == "and":
            if any(v == 0 for v in c if v is not None):
                return Rat.const(0)
            flat = [x for x, v in zip(flat, c) if v is None]
            if not flat:
                return Rat.const(1)
        else:
            if any(v is not None and v != 0 for v in c):
                return Rat.const(1)
            flat = [x for x, v in zip(flat, c) if v is None]
            if not flat:
                return Rat.const(0)
        uniq = {}
        for x in flat:
            uniq.setdefault(x.key(), x)
        flat = [uniq[k] for k in sorted(uniq)]
        if len(flat) == 1:
            return flat[0]
        return Rat.of_atom(atom(func, tuple(flat)))
    if func == "callobj" and x is not None and not extra and all(isinstance(a, (Rat, tuple)) for a in args):
        # calling a conditional callable is the conditional of the calls: (f if c else g)(x) = f(x) if c else g(x)
        xc = x.as_atom("ifexp")
        if xc is not None and len(xc.args) == 3 and all(isinstance(z, Rat) for z in xc.args):
            return apply("ifexp", [xc.args[0], apply("callobj", [xc.args[1]] + list(args[1:])), apply("callobj", [xc.args[2]] + list(args[1:]))])
    if func == "callobj" and x is not None and len(args) == 3 and not extra:
        op = {"$operator.le": "cmp_le", "$operator.lt": "cmp_lt", "$operator.ge": "cmp_ge", "$operator.gt": "cmp_gt",
              "$operator.eq": "cmp_eq", "$operator.ne": "cmp_ne",
              "$np.less_equal": "cmp_le", "$np.less": "cmp_lt", "$np.greater_equal": "cmp_ge", "$np.greater": "cmp_gt",
              "$np.equal": "cmp_eq", "$np.not_equal": "cmp_ne",
              "$numpy.less_equal": "cmp_le", "$numpy.less": "cmp_lt", "$numpy.greater_equal": "cmp_ge", "$numpy.greater": "cmp_gt",
              "$numpy.equal": "cmp_eq", "$numpy.not_equal": "cmp_ne"}.get(x.key())
        if op is not None and isinstance(args[1], Rat) and isinstance(args[2], Rat):
            return apply(op, [args[1], args[2]])
    if func.startswith("elem") and (func == "elem" or func[4:5] == "#") and len(args) == 1 and x is not None and not extra:
        # the element of [body(e) for e in S] at the current position is body(element of S at that position)
        mp = x.as_atom("map")
        if mp is not None and len(mp.args) == 2 and isinstance(mp.args[0], Rat) and isinstance(mp.args[1], Rat):
            sk = mp.args[1].key()
            repl = apply(func, [mp.args[1]])

            def sub_(a2):
                if a2.func == "elem" and len(a2.args) == 1 and isinstance(a2.args[0], Rat) and a2.args[0].key() == sk:
                    return repl
                return None
            try:
                return map_atoms(mp.args[0], sub_)
            except Undefined:
                pass
    if func == "getitem" and len(args) == 2 and x is not None and not extra and isinstance(args[1], Rat):
        # data.get_scores([f0, f1, f2], ...)[-1] is element 2: a request for a literal field list returns one array per field
        gs0 = x.as_atom("call:data.get_scores")
        kv0 = args[1].const_value()
        if gs0 is not None and gs0.args and isinstance(gs0.args[0], tuple) and kv0 is not None and kv0 < 0 and kv0 == int(kv0) and -int(kv0) <= len(gs0.args[0]):
            return apply("getitem", [x, Rat.const(len(gs0.args[0]) + int(kv0))])
    if func == "m:get" and len(args) in (2, 3) and x is not None and not extra and isinstance(args[1], Rat):
        # {k1: v1, k2: v2}.get(key[, default]) with a key that is literally one of the keys, or an instance of another class than every key
        pdg = x.as_atom("pydict")
        if pdg is not None and pdg.args and isinstance(pdg.args[0], tuple):
            flat_ = pdg.args[0]
            keys_g, vals_g = flat_[0::2], flat_[1::2]
            kk = args[1].key()
            for k_g, v_g in zip(keys_g, vals_g):
                if isinstance(k_g, Rat) and k_g.key() == kk and isinstance(v_g, Rat):
                    return v_g

            def _inst(r_):
                a_ = r_.as_atom() if isinstance(r_, Rat) else None
                return a_.func if a_ is not None and a_.func.startswith("call:verif.") and not a_.args else None
            if _inst(args[1]) is not None and all(_inst(k_g) is not None and _inst(k_g) != _inst(args[1]) for k_g in keys_g):
                return args[2] if len(args) == 3 and isinstance(args[2], Rat) else Rat.sym("None")
    if func == "getitem" and len(args) == 2 and x is not None and not extra and isinstance(args[1], Rat):
        # (a, b, c)[k] with a literal k: the entry of a literal tuple / list
        pl0 = x.as_atom("pylist")
        kv = args[1].const_value()
        if pl0 is not None and len(pl0.args) == 1 and isinstance(pl0.args[0], tuple) and kv is not None and kv == int(kv) and 0 <= int(kv) < len(pl0.args[0]) \
                and isinstance(pl0.args[0][int(kv)], Rat):
            return pl0.args[0][int(kv)]
        # {literal keys: values}[literal key]: the entry
        pd = x.as_atom("pydict")
        if pd is not None and pd.args and isinstance(pd.args[0], tuple):
            def _lit(r):
                if not isinstance(r, Rat):
                    return None
                if r.const_value() is not None:
                    return r.key()
                ra = r.as_atom()
                return ra.func if ra is not None and ra.func.startswith("str:") and not ra.args else None
            flat = pd.args[0]
            keys_, vals_ = flat[0::2], flat[1::2]
            kk = _lit(args[1])
            if kk is not None and all(_lit(k_) is not None for k_ in keys_):
                for k_, v_ in zip(keys_, vals_):
                    if _lit(k_) == kk and isinstance(v_, Rat):
                        return v_
    if func == "getitem" and len(args) == 2 and x is not None and not extra:
        # (A if c else B)[k] with A, B python tuples / lists of known length and k a constant: the element is selected per branch
        xa0 = x.as_atom("ifexp")
        ix = args[1]
        if isinstance(ix, tuple) and len(ix) == 1:
            ix = ix[0]
        kc = ix.const_value() if isinstance(ix, Rat) else None
        if xa0 is not None and len(xa0.args) == 3 and kc is not None and kc == int(kc):
            def elems(v):
                if isinstance(v, tuple) and (not v or not isinstance(v[0], str)) and all(isinstance(e, Rat) for e in v):
                    return list(v)
                if isinstance(v, Rat):
                    pl = v.as_atom("pylist")
                    if pl is not None and pl.args and isinstance(pl.args[0], tuple) and all(isinstance(e, Rat) for e in pl.args[0]):
                        return list(pl.args[0])
                return None
            ea, eb = elems(xa0.args[1]), elems(xa0.args[2])
            k = int(kc)
            if ea is not None and eb is not None and -len(ea) <= k < len(ea) and -len(eb) <= k < len(eb):
                return apply("ifexp", [xa0.args[0], ea[k], eb[k]])
    if func == "ifexp" and len(args) == 3 and x is not None and not extra:
        c = x.const_value()
        if c is not None:
            return args[1] if c != 0 else args[2]
        if isinstance(args[1], Rat) and isinstance(args[2], Rat) and args[1].key() == args[2].key():
            return args[1]
        xa = x.as_atom()
        if xa is not None and (xa.func in ("not", "and", "or", "in", "notin", "isnan", "isinf", "call:isinstance") or xa.func.startswith("cmp_")) \
                and isinstance(args[1], Rat) and isinstance(args[2], Rat):
            c1, c2 = args[1].const_value(), args[2].const_value()
            if c1 == 1 and c2 == 0:
                return x                     # a flag set to True / False under a boolean condition is that condition
            if c1 == 0 and c2 == 1:
                return apply("not", [x])
    if func == "not" and x is not None:
        c = x.const_value()
        if c is not None:
            return Rat.const(0 if c != 0 else 1)
        at = x.as_atom()
        if at is not None and at.func == "not":
            return at.args[0]
        if at is not None and at.func == "cmp_eq":
            return Rat.of_atom(atom("cmp_ne", at.args))
        if at is not None and at.func == "cmp_ne":
            return Rat.of_atom(atom("cmp_eq", at.args))
    return Rat.of_atom(atom(func, tuple(args) + extra))


def subst(r, mapping):
    """Substitute symbols by Rats (recursively inside atom arguments), re-applying rewrites."""
    def sub_arg(x):
        if isinstance(x, Rat):
            return subst(x, mapping)
        if isinstance(x, tuple):
            return tuple(sub_arg(y) for y in x)
        return x

    def sub_atom(at):
        if at.func.startswith("$"):
            return mapping.get(at.func[1:], Rat.of_atom(at))
        args = [sub_arg(x) for x in at.args]
        if at.func == "base":
            return args[0] if False else Rat.of_atom(atom("base", (args[0],)))
        pos = [a for a in args if not (isinstance(a, tuple) and a and isinstance(a[0], str) and a[0].startswith("kw:"))]
        kws = {a[0][3:]: a[1] for a in args if isinstance(a, tuple) and a and isinstance(a[0], str) and a[0].startswith("kw:")}
        return apply(at.func, pos, kws)

    def sub_poly(p):
        total = Rat.const(0)
        for m, c in p.items():
            term = Rat.const(c)
            for a, e in m:
                at = _ATOMS[a]
                if at.func == "base":
                    term = term * subst(at.args[0], mapping).pow(e)
                else:
                    term = term * sub_atom(at).pow(e)
            total = total + term
        return total
    n = sub_poly(r.num)
    d = sub_poly(r.den)
    if d.is_zero():
        raise Undefined("denominator vanishes under substitution")
    return n / d


def map_atoms(r, fn, _memo=None):
    """Rebuild r with every atom a (top-down) replaced by fn(a) when that is not None; arguments of kept atoms are mapped
    recursively and the rewrites of apply() are re-applied.  Sub-terms in which nothing is replaced are returned as they are
    (atoms are interned, so results are memoised per atom)."""
    memo = _memo if _memo is not None else {}

    def m_arg(x):
        if isinstance(x, Rat):
            return m_rat(x)
        if isinstance(x, tuple):
            ys = [m_arg(y) for y in x]
            ch = any(c for _, c in ys)
            return (tuple(y for y, _ in ys), True) if ch else (x, False)
        return x, False

    def m_atom(at):
        hit = memo.get(at.id)
        if hit is not None:
            return hit
        rep = fn(at)
        if rep is not None:
            own = Rat.of_atom(at)
            res = (m_rat(rep)[0], True) if rep.key() != own.key() else (rep, False)
        elif at.func.startswith("$") or not at.args:
            res = (Rat.of_atom(at), False)
        elif at.func == "ifexp" and len(at.args) == 3 and isinstance(at.args[0], Rat):
            # lazily: a decided condition selects its branch, the other one (possibly undefined there) is not rebuilt
            c, cc = m_rat(at.args[0])
            cv = c.const_value()
            if cv is not None:
                res = (m_arg(at.args[1] if cv != 0 else at.args[2])[0], True)
            else:
                a_, ca = m_arg(at.args[1])
                b_, cb = m_arg(at.args[2])
                res = (apply("ifexp", [c, a_, b_]), True) if (cc or ca or cb) else (Rat.of_atom(at), False)
        else:
            args = [m_arg(x) for x in at.args]
            if not any(c for _, c in args):
                res = (Rat.of_atom(at), False)
            else:
                vals = [a for a, _ in args]
                if at.func == "base":
                    res = (Rat.of_atom(atom("base", (vals[0],))), True)
                else:
                    pos = [a for a in vals if not (isinstance(a, tuple) and a and isinstance(a[0], str) and a[0].startswith("kw:"))]
                    kws = {a[0][3:]: a[1] for a in vals if isinstance(a, tuple) and a and isinstance(a[0], str) and a[0].startswith("kw:")}
                    res = (apply(at.func, pos, kws), True)
        memo[at.id] = res
        return res

    def m_poly(p):
        changed = False
        total = Rat.const(0)
        for mono, c in p.items():
            term = Rat.const(c)
            for a, e in mono:
                v, ch = m_atom(_ATOMS[a])
                changed = changed or ch
                term = term * v.pow(e)
            total = total + term
        return total, changed

    def m_rat(x):
        n, cn_ = m_poly(x.num)
        d, cd = m_poly(x.den)
        if not (cn_ or cd):
            return x, False
        if d.is_zero():
            raise Undefined("denominator vanishes under substitution")
        return n / d, True
    return m_rat(r)[0]
