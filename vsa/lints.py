"""Small program-wide syntactic lints shared by several properties."""
import ast

from .core import norm

_MUTABLE_MAKERS = {"list", "dict", "set", "bytearray", "zeros", "ones", "full", "empty", "array", "zeros_like", "ones_like", "full_like",
                   "empty_like", "arange", "linspace", "copy", "deepcopy", "OrderedDict", "defaultdict", "asarray", "tile", "repeat"}


def _mutable_alloc(v):
    """Does this expression build a new mutable object (array, list, dict, set) each time it is evaluated?"""
    if isinstance(v, (ast.List, ast.Dict, ast.Set, ast.ListComp, ast.DictComp, ast.SetComp)):
        return True
    if isinstance(v, ast.BinOp):
        return _mutable_alloc(v.left) or _mutable_alloc(v.right)
    if isinstance(v, ast.Call):
        f = v.func
        name = f.id if isinstance(f, ast.Name) else (f.attr if isinstance(f, ast.Attribute) else None)
        return name in _MUTABLE_MAKERS
    return False


def shared_allocations(tree):
    """Constructs that evaluate a mutable allocation ONCE and file the same object under every key / position:
    dict.fromkeys(keys, <alloc>), {}.fromkeys(...), [<alloc>] * n, n * [<alloc>].  Returns [(node, text)]."""
    out = []
    for n in ast.walk(tree):
        if isinstance(n, ast.Call) and isinstance(n.func, ast.Attribute) and n.func.attr == "fromkeys" and len(n.args) >= 2 and _mutable_alloc(n.args[1]):
            out.append((n, "%s: one object, evaluated once, is the value of every key" % norm(n)[:100]))
        if isinstance(n, ast.BinOp) and isinstance(n.op, ast.Mult):
            for lst in (n.left, n.right):
                if isinstance(lst, ast.List) and any(_mutable_alloc(e) for e in lst.elts):
                    out.append((n, "%s: the list repeats one and the same object" % norm(n)[:100]))
    return out


def control():
    """positive / negative control of shared_allocations"""
    pos = ast.parse("a = dict.fromkeys(ks, np.full(s, np.nan))\nb = [np.zeros(3)] * n\nc = [[]] * 4\n")
    neg = ast.parse("z = [slice(None)] * 3\na = dict.fromkeys(ks, None)\nb = [0] * n\nc = {k: np.zeros(3) for k in ks}\nd = [None] * 3\ne = dict.fromkeys(ks, 0.0)\n")
    return len(shared_allocations(pos)) == 3 and not shared_allocations(neg)
