"""vsa - repository-specific static analysis for WFRT/verif (see /verif/DESIGN.md).

Standard library only.  Nothing under /repo is ever imported or executed: sources are
read as text, parsed with ``ast`` and analysed.
"""
