"""Selection functions: "return the elements of a sequence that satisfy a predicate", however written (a loop with if/continue
around an append, or a comprehension with a filter).  Gives the collected element, the sequence and the predicate as a
propositional formula (vsa.boolq) so that rules compare meaning, not spelling."""
from . import boolq, trace
from .core import AnalysisError
from .form import Rat


def selection(prog, qual, env=None):
    """-> (element Rat, sequence Rat or None, formula, node)"""
    ev = trace.trace(prog, qual, env=env, loop_mode="body_once", merge=False)
    rets = [o for o in ev.outcomes if o.kind == "return"]
    if not rets:
        raise AnalysisError("%s: no return" % qual)
    # comprehension
    for o in rets:
        at = o.value.as_atom() if isinstance(o.value, Rat) else None
        if at is not None and at.func in ("map",) and len(at.args) >= 2:
            cond = at.args[2] if len(at.args) > 2 else None
            f = boolq.prop(cond) if isinstance(cond, Rat) else ("const", True)
            pre = boolq.conj(o.conds)
            return at.args[0], at.args[1], ("and", [pre, f]), o.node
    apps = [e for e in trace.calls(ev) if e["name"].endswith(".append") and e["args"]]
    if not apps:
        raise AnalysisError("%s: neither a comprehension nor an append loop" % qual)
    elem = apps[0]["args"][0]
    if not all(isinstance(e["args"][0], Rat) and e["args"][0].equals(elem) for e in apps):
        raise AnalysisError("%s: different elements are collected" % qual)
    f = boolq.disj(boolq.conj(e["conds"]) for e in apps)
    seq = ev.loops[0]["iter"] if ev.loops else None
    return elem, seq, f, apps[0]["node"]
