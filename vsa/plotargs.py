"""Extraction of the arguments of drawing calls (mpl.plot/bar/scatter/...) of an Output class as FORM
values, by symbolic folding of ``_plot_core`` with one generic iteration per loop."""
import ast

from . import form, symeval
from .core import dotted
from .form import Rat

DRAW = {"matplotlib.pyplot.plot": "plot", "matplotlib.pyplot.bar": "bar", "matplotlib.pyplot.scatter": "scatter",
        "matplotlib.pyplot.text": "text", "matplotlib.pyplot.fill": "fill", "verif.util.fill": "ufill"}
DRAW_METHODS = {"plot", "bar", "scatter"}


def draw_calls(prog, cls, method="_plot_core", extra_hook=None, env=None, max_paths=256, merge=False):
    """Returns (calls, evaluator). calls: list of dicts {kind, args, kwargs, conds, node, env}."""
    hit = prog.lookup_method(cls, method)
    if hit is None:
        return [], None
    owner, f = hit
    m = owner.module
    calls = []

    def hook(ev, node, rname, args, kwargs, path):
        if extra_hook is not None:
            r = extra_hook(ev, node, rname, args, kwargs, path)
            if r is not None:
                return r
        kind = DRAW.get(rname)
        if kind is None and isinstance(node.func, ast.Attribute) and node.func.attr in DRAW_METHODS:
            d = dotted(node.func)
            if d is not None and d.split(".")[0] in ("axi", "map", "ax"):
                kind = node.func.attr
        if kind is None and rname is not None and rname.startswith("self._plot_obs"):
            kind = "plot_obs"
        if kind is not None:
            calls.append({"kind": kind, "args": args, "kwargs": kwargs, "conds": list(path.conds), "node": node,
                          "env": dict(path.env)})
        return None
    ev = symeval.Evaluator(m, call_hook=hook, max_paths=max_paths)
    ev.loop_mode = "body_once"
    ev.merge_ifs = merge
    ev.run(f, env=env)
    return calls, ev


def contains_atom(r, pred):
    if isinstance(r, (list, tuple)):
        return any(contains_atom(x, pred) for x in r)
    if not isinstance(r, Rat):
        return False
    return any(pred(a) for a in r.atoms(deep=True))
