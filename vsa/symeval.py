"""Path-sensitive symbolic evaluation of straight-line Python function bodies into FORM values.

Nothing is executed: statements are folded by def-use substitution into ``form.Rat`` values.
``if`` statements fork the path; each ``return`` yields an Outcome (path conditions, value).
Loops are outside the expressible fragment and raise ``Undecided``.
"""
import ast
import copy
import re
from fractions import Fraction

from . import form
from .form import Rat, Undefined
from .core import dotted, norm


class Undecided(Exception):
    pass


_CMP_FUNCS = {"operator.le": "cmp_le", "operator.lt": "cmp_lt", "operator.ge": "cmp_ge", "operator.gt": "cmp_gt", "operator.eq": "cmp_eq", "operator.ne": "cmp_ne",
              "numpy.less_equal": "cmp_le", "numpy.less": "cmp_lt", "numpy.greater_equal": "cmp_ge", "numpy.greater": "cmp_gt", "numpy.equal": "cmp_eq",
              "numpy.not_equal": "cmp_ne"}

FUNCS = {
    "numpy.mean": "mean", "numpy.nanmean": "nanmean", "numpy.sum": "sum", "numpy.nansum": "nansum",
    "numpy.ma.sum": "masum", "numpy.std": "std", "numpy.var": "var", "numpy.sqrt": "sqrt",
    "numpy.exp": "exp", "numpy.log": "log", "numpy.log2": "log2", "numpy.log10": "log10",
    "numpy.abs": "abs", "numpy.absolute": "abs", "abs": "abs", "numpy.sort": "sort",
    "numpy.median": "median", "numpy.percentile": "percentile", "numpy.quantile": "quantile",
    "numpy.min": "min", "numpy.max": "max", "numpy.amin": "min", "numpy.amax": "max",
    "numpy.cumsum": "cumsum", "numpy.nan_to_num": "nan_to_num", "len": "len", "float": "float",
    "numpy.isnan": "isnan", "numpy.isinf": "isinf", "numpy.where": "where", "sum": "pysum",
    "numpy.corrcoef": "corrcoef", "numpy.argsort": "argsort", "numpy.zeros": "zeros",
    "numpy.ones": "ones", "numpy.array": "nparray", "numpy.histogram": "histogram",
    "numpy.linspace": "linspace", "numpy.diff": "diff", "numpy.nanmin": "nanmin",
    "numpy.nanmax": "nanmax", "numpy.nancumsum": "nancumsum", "numpy.unique": "unique",
    "numpy.ma.filled": "mafilled", "int": "int", "min": "pymin", "max": "pymax",
    "numpy.arccos": "arccos", "numpy.cos": "cos", "numpy.sin": "sin",
    "verif.util.nanmean": "unanmean",
    "scipy.stats.spearmanr": "spearmanr", "scipy.stats.kendalltau": "kendalltau",
}

METHODS = {"mean": "mean", "sum": "sum", "std": "std", "var": "var", "min": "min", "max": "max",
           "flatten": "flatten", "astype": "astype", "argsort": "argsort", "cumsum": "cumsum"}

CMP = {ast.Lt: "cmp_lt", ast.LtE: "cmp_le", ast.Gt: "cmp_gt", ast.GtE: "cmp_ge", ast.Eq: "cmp_eq",
       ast.NotEq: "cmp_ne", ast.Is: "cmp_eq", ast.IsNot: "cmp_ne", ast.In: "in", ast.NotIn: "notin"}


STR_METHODS = {"startswith", "endswith", "lower", "upper", "strip", "rstrip", "lstrip", "replace", "title", "capitalize", "isdigit", "isalpha", "count", "find", "removeprefix", "removesuffix"}


def _strval(r):
    if isinstance(r, Rat):
        a = r.as_atom()
        if a is not None and a.func.startswith("str:") and not a.args:
            try:
                v = eval(a.func[4:])
            except Exception:
                return None
            return v if isinstance(v, str) else None
    return None


_ITER_SYM = re.compile(r"^\$[A-Za-z_][A-Za-z_0-9]*#(\d+)$")


def _iter_pos(idx):
    """Position (0-based) denoted by the index symbol of the k-th unrolled iteration of a loop ($i#1 -> 0, $i#2 -> 1)."""
    if isinstance(idx, Rat):
        m_ = _ITER_SYM.match(idx.key())
        if m_:
            return int(m_.group(1)) - 1
    return None


class Outcome(object):
    def __init__(self, conds, value, kind="return", node=None):
        self.conds = conds      # list of (Rat cond, bool polarity)
        self.value = value
        self.kind = kind        # return | error | raise | fallthrough
        self.node = node
        self.divs = []
        self.logs = []
        self.env = {}

    def is_nan(self):
        return isinstance(self.value, Rat) and self.value.key() == "$nan"


class Path(object):
    def __init__(self, env, conds, divs=None, logs=None):
        self.env = env
        self.conds = conds
        self.divs = divs if divs is not None else []   # denominators evaluated on this path
        self.logs = logs if logs is not None else []   # log arguments evaluated on this path
        self.ctrl = None                               # 'break' / 'continue' pending

    def fork(self):
        p = Path(dict(self.env), list(self.conds), list(self.divs), list(self.logs))
        p.ctrl = self.ctrl
        return p


PROGRAM = None          # set by the harness: the program model used to see through helpers
_KNOWN = None
INLINE_DEPTH = 3


def set_program(prog):
    global PROGRAM
    PROGRAM = prog


def _known():
    global _KNOWN
    if _KNOWN is None:
        import json
        import os
        here = os.path.dirname(os.path.dirname(os.path.abspath(__file__)))
        with open(os.path.join(here, "tables", "known_methods.json")) as fh:
            _KNOWN = json.load(fh)
    return _KNOWN


def _has_yield(fdef):
    return any(isinstance(n, (ast.Yield, ast.YieldFrom)) for n in ast.walk(fdef))


class Evaluator(object):
    def __init__(self, module, selfname="self", call_hook=None, noreturn=("verif.util.error", "sys.exit"),
                 len_syms=None, max_paths=128):
        self.module = module
        self.cls = None           # class of the function being evaluated (set by run)
        self.inline_depth = INLINE_DEPTH
        self.local_defs = {}      # nested function definitions seen so far (name -> FunctionDef)
        self.selfname = selfname
        self.call_hook = call_hook
        self.noreturn = set(noreturn)
        self.len_syms = len_syms or {}
        self.max_paths = max_paths
        self.outcomes = []
        self.loop_mode = None     # "body_once" | "unroll2": bind the loop variable symbolically, run the body 1x / 2x
        self.loops = []
        self.merge_ifs = False    # if-conversion: join the two branches of an if into ifexp() values (no path explosion)
        self.events = []          # assignment / store / call events with path conditions and loop stack
        self.record = False
        self.loop_stack = []
        self.iter_tag = []
        self.no_thread_prefixes = ()   # stores into these roots are recorded as events only (heap objects)

    # -- expressions ---------------------------------------------------------------------
    def ev(self, node, path):
        m = getattr(self, "ev_" + type(node).__name__, None)
        if m is None:
            return self._opaque(node, path)
        return m(node, path)

    def ev_Constant(self, node, path):
        v = node.value
        if isinstance(v, bool):
            return Rat.const(1 if v else 0)
        if isinstance(v, (int, float)):
            if v != v:
                return Rat.sym("nan")
            if v in (float("inf"), float("-inf")):
                return Rat.sym("inf") if v > 0 else -Rat.sym("inf")
            return Rat.const(Fraction(repr(v)) if isinstance(v, float) else Fraction(v))
        if v is None:
            return Rat.sym("None")
        return form.apply("str:" + repr(v), [])

    def ev_Name(self, node, path):
        if node.id in path.env:
            return path.env[node.id]
        if node.id == "Ellipsis":
            return form.apply("str:Ellipsis", [])          # the same value as the literal `...`
        mc = self._module_constant(node.id, path)
        if mc is not None:
            return mc
        return Rat.sym(node.id)

    def _is_module_table(self, node):
        return isinstance(node, ast.Name) and self.__dict__.get("_modconst", {}).get(node.id) is not None

    def _module_constant(self, name, path):
        """NAME = <literal> at module level, assigned exactly once and never rebound in a function with `global`: a table such as
        CLIM_OPTIONS = {"-c": "subtract", "-C": "divide"} is read by value."""
        assigns = getattr(self.module, "assigns", None)
        tree = getattr(self.module, "tree", None)
        if tree is None or not name.isupper() and not name.startswith("_"):
            return None
        cache = self.__dict__.setdefault("_modconst", {})
        if name in cache:
            return cache[name]
        cache[name] = None
        defs = [st for st in tree.body if isinstance(st, ast.Assign) and any(isinstance(t, ast.Name) and t.id == name for t in st.targets)]
        if len(defs) != 1 or any(isinstance(n, ast.Global) and name in n.names for n in ast.walk(tree)):
            return None
        aliases = getattr(self.module, "aliases", {})

        def table_literal(n):
            # literals, and dotted names of imported modules (operator.lt, np.less_equal) as entries of a dispatch table
            if isinstance(n, ast.Constant):
                return True
            if isinstance(n, (ast.Tuple, ast.List, ast.Set)):
                return all(table_literal(e) for e in n.elts)
            if isinstance(n, ast.Dict):
                return all(k is not None and table_literal(k) for k in n.keys) and all(table_literal(v_) for v_ in n.values)
            if isinstance(n, ast.UnaryOp) and isinstance(n.op, (ast.USub, ast.UAdd)):
                return isinstance(n.operand, ast.Constant)
            if isinstance(n, ast.Attribute):
                d_ = dotted(n)
                return d_ is not None and d_.split(".")[0] in aliases
            return False
        if not table_literal(defs[0].value):
            return None
        if any(isinstance(n, (ast.Assign, ast.AugAssign)) and n is not defs[0] and any(isinstance(t, ast.Subscript) and isinstance(t.value, ast.Name) and t.value.id == name
               for t in (n.targets if isinstance(n, ast.Assign) else [n.target])) for n in ast.walk(tree)):
            return None          # the table is modified somewhere
        v = self.ev(defs[0].value, Path({}, []))
        if isinstance(v, list) and all(isinstance(x, Rat) for x in v):
            v = form.apply("pylist", [tuple(v)])
        cache[name] = v if isinstance(v, Rat) else None
        return cache[name]

    def ev_Attribute(self, node, path):
        d = dotted(node)
        if d is not None:
            if d in path.env:
                return path.env[d]
            r = self.module.resolve(d)
            if r in ("numpy.nan", "numpy.NaN", "numpy.NAN"):
                return Rat.sym("nan")
            if r in ("numpy.inf", "numpy.Inf"):
                return Rat.sym("inf")
            if r == "numpy.pi":
                return Rat.sym("pi")
            head = d.split(".")[0]
            if head == self.selfname and d.count(".") == 1 and node.attr.startswith("_") and self.cls is not None and PROGRAM is not None:
                # a private class-level integer constant that nothing in the program ever assigns to an instance (`_max_dims = 5`)
                cv = _class_int_constant(PROGRAM, self.cls, node.attr)
                if cv is not None:
                    return Rat.const(cv)
            if head not in path.env or (isinstance(path.env[head], Rat) and path.env[head].key() == "$" + head):
                return Rat.sym(d)
        base = self.ev(node.value, path)
        return form.apply("attr:" + node.attr, [base]) if isinstance(base, Rat) else Rat.sym(norm(node))

    def ev_UnaryOp(self, node, path):
        v = self.ev(node.operand, path)
        if isinstance(node.op, ast.USub):
            return -v
        if isinstance(node.op, ast.UAdd):
            return v
        return form.apply("not", [v])

    def ev_BinOp(self, node, path):
        a = self.ev(node.left, path)
        b = self.ev(node.right, path)
        if not isinstance(a, Rat) or not isinstance(b, Rat):
            if isinstance(node.op, ast.Add) and isinstance(a, (list, tuple)) and isinstance(b, (list, tuple)):
                return list(a) + list(b)
            if isinstance(node.op, ast.Mult):
                # (x,) * 3 with a known small count
                seq, cnt = (a, b) if isinstance(a, (list, tuple)) else (b, a)
                n_ = cnt.const_value() if isinstance(cnt, Rat) else None
                if isinstance(seq, (list, tuple)) and n_ is not None and n_ == int(n_) and 0 <= int(n_) <= 8:
                    return list(seq) * int(n_)
            return self._opaque(node, path)
        op = node.op
        try:
            if isinstance(op, ast.Add):
                return a + b
            if isinstance(op, ast.Sub):
                return a - b
            if isinstance(op, ast.Mult):
                return a * b
            if isinstance(op, ast.Div):
                path.divs.append((b, node))
                if b.is_zero():
                    raise Undefined("literal division by zero")
                return a / b
            if isinstance(op, ast.Pow):
                e = b.const_value()
                if e is not None:
                    if e < 0:
                        path.divs.append((a, node))
                    return a.pow(e)
                return form.apply("pow", [a, b])
        except Undefined:
            return form.apply("undefined:" + norm(node), [])
        name = {ast.FloorDiv: "floordiv", ast.Mod: "mod", ast.BitAnd: "and", ast.BitOr: "or",
                ast.BitXor: "xor", ast.MatMult: "matmul", ast.LShift: "lshift", ast.RShift: "rshift"}[type(op)]
        return form.apply(name, [a, b])

    def ev_BoolOp(self, node, path):
        vals = [self.ev(v, path) for v in node.values]
        return form.apply("and" if isinstance(node.op, ast.And) else "or", vals)

    def ev_Compare(self, node, path):
        left = self.ev(node.left, path)
        parts = []
        for op, comp in zip(node.ops, node.comparators):
            right = self.ev(comp, path)
            if isinstance(op, (ast.In, ast.NotIn)) and isinstance(right, Rat) and isinstance(left, Rat):
                ra_ = right.as_atom()
                if ra_ is not None and ra_.func == "pydict" and ra_.args and isinstance(ra_.args[0], tuple):
                    right = list(ra_.args[0][0::2])
                elif ra_ is not None and ra_.func == "pylist" and ra_.args and isinstance(ra_.args[0], tuple) and self._is_module_table(comp):
                    right = list(ra_.args[0])
            if isinstance(op, (ast.In, ast.NotIn)) and isinstance(right, list) and isinstance(left, Rat):
                la = left.as_atom()
                if la is not None and la.func.startswith("str:") and all(
                        isinstance(r, Rat) and r.as_atom() is not None and r.as_atom().func.startswith("str:")
                        for r in right):
                    hit = any(r.as_atom().func == la.func for r in right)
                    parts.append(Rat.const(1 if hit == isinstance(op, ast.In) else 0))
                    left = right
                    continue
                # x in [a, b] is x == a or x == b: folds when every comparison folds (instances of the program's Axis / Field classes)
                if right and all(isinstance(r, Rat) for r in right):
                    eqs = [form.apply("cmp_eq", [left, r]).const_value() for r in right]
                    if any(e is not None and e != 0 for e in eqs) or all(e is not None for e in eqs):
                        hit = any(e is not None and e != 0 for e in eqs)
                        parts.append(Rat.const(1 if hit == isinstance(op, ast.In) else 0))
                        left = right
                        continue
                parts.append(form.apply("in" if isinstance(op, ast.In) else "notin",
                                        [left, tuple(r for r in right if isinstance(r, Rat))]))
                left = right
                continue
            if not isinstance(left, Rat) or not isinstance(right, Rat):
                parts.append(self._opaque(node, path))
            else:
                parts.append(form.apply(CMP[type(op)], [left, right]))
            left = right
        if len(parts) == 1:
            return parts[0]
        return form.apply("and", parts)

    def ev_IfExp(self, node, path):
        c = self.ev(node.test, path)
        cv = c.const_value() if isinstance(c, Rat) else None
        if cv is not None:
            return self.ev(node.body if cv != 0 else node.orelse, path)
        return form.apply("ifexp", [c, self.ev(node.body, path), self.ev(node.orelse, path)])

    def ev_Tuple(self, node, path):
        return [self.ev(e, path) for e in node.elts]

    ev_List = ev_Tuple

    def _index(self, sl, path):
        if isinstance(sl, ast.Tuple):
            return tuple(self._index(e, path) for e in sl.elts)
        if isinstance(sl, ast.Slice):
            return ("slice",) + tuple(self.ev(x, path) if x is not None else "None"
                                      for x in (sl.lower, sl.upper, sl.step))
        v = self.ev(sl, path)
        if isinstance(v, list):
            return tuple(_norm_index_value(x) for x in v)
        return _norm_index_value(v)

    def ev_Subscript(self, node, path):
        base = self.ev(node.value, path)
        idx = self._index(node.slice, path)
        if isinstance(base, list):
            if isinstance(idx, Rat) and idx.const_value() is not None:
                try:
                    return base[int(idx.const_value())]
                except IndexError:
                    pass
            pos = _iter_pos(idx)
            if pos is not None and pos < len(base):
                # the k-th unrolled iteration of an index loop addresses the element that the k-th iteration of the filling loop made
                return base[pos]
            if isinstance(idx, Rat) and all(isinstance(b, Rat) for b in base):
                return form.apply("getitem", [tuple(base), idx])
            return self._opaque(node, path)
        at = base.as_atom() if isinstance(base, Rat) else None
        if at is not None and at.func == "pydict" and isinstance(idx, Rat) and at.args and isinstance(at.args[0], tuple):
            flat = at.args[0]
            keys, vals = flat[0::2], flat[1::2]
            def _ck(r):
                return r.key() if isinstance(r, Rat) and (r.const_value() is not None or _strval(r) is not None) else None
            if _ck(idx) is not None and all(_ck(k) is not None for k in keys):
                for k, v_ in zip(keys, vals):
                    if _ck(k) == _ck(idx):
                        return v_
        if at is not None and at.func.startswith("str:") and not at.args and isinstance(idx, Rat) and idx.const_value() is not None:
            sv = _strval(base)
            try:
                return form.apply("str:" + repr(sv[int(idx.const_value())]), [])          # 'abc'[0] is 'a'
            except (IndexError, TypeError, ValueError):
                pass
        if at is not None and at.func == "corrcoef" and isinstance(idx, tuple) and len(idx) == 2:
            iv = [i.const_value() if isinstance(i, Rat) else None for i in idx]
            if sorted(iv) == [0, 1]:
                return form.apply("corr", list(at.args[:2]))
        if at is not None and at.func in ("spearmanr", "kendalltau") and isinstance(idx, Rat) \
                and idx.const_value() == 0:
            return form.apply(at.func + "0", list(at.args[:2]))
        return form.apply("getitem", [base, idx if isinstance(idx, (Rat, tuple)) else (idx,)])

    def ev_Call(self, node, path):
        fn = dotted(node.func)
        fn0 = fn
        if isinstance(node.func, ast.Name) and isinstance(path.env.get(node.func.id), Rat):
            # a local name (typically a parameter of an inlined helper) bound to a bound method of self: `core = self._plot_core;
            # core(data)` is the call self._plot_core(data) - the event carries the callee, not the local spelling
            fa = path.env[node.func.id].as_atom()
            if fa is not None and not fa.args and fa.func.startswith("$" + self.selfname + ".") and fa.func.count(".") == 1 \
                    and fa.func != "$" + node.func.id:
                fn = fa.func[1:]
            elif fa is not None and not fa.args and fa.func.startswith("$") and "." in fa.func and fa.func != "$" + node.func.id:
                # a local bound to a class or function of an imported module (a dispatch table of classes): cls = verif.field.Obs; cls()
                head = fa.func[1:].split(".")[0]
                if head in getattr(self.module, "aliases", {}) and head not in path.env:
                    fn = fa.func[1:]
        rname = self.module.resolve(fn) if fn else None
        args = []
        for a in node.args:
            if isinstance(a, ast.Starred):
                sv = self.ev(a.value, path)
                args.append(form.apply("starred", [sv if isinstance(sv, Rat) else (form.apply("pylist", [tuple(sv)]) if isinstance(sv, list) and all(isinstance(x, Rat) for x in sv) else self._opaque(a.value, path))]))
            else:
                args.append(self.ev(a, path))
        kwargs = {}
        nstar = 0
        for k in node.keywords:
            if k.arg:
                kwargs[k.arg] = self.ev(k.value, path)
            else:
                kv = self.ev(k.value, path)          # **mapping: part of what the callee receives
                kwargs["**%d" % nstar] = kv if isinstance(kv, Rat) else self._opaque(k.value, path)
                nstar += 1
        recv = None
        if isinstance(node.func, ast.Attribute) and isinstance(node.func.value, ast.Name) and node.func.value.id in path.env \
                and node.func.value.id not in self.module.aliases:
            rv = path.env[node.func.value.id]
            recv = rv if isinstance(rv, Rat) else (form.apply("pylist", [tuple(rv)]) if isinstance(rv, list) and all(isinstance(x, Rat) for x in rv) else None)
        if rname == "getattr" and len(args) == 2 and not kwargs and isinstance(args[0], Rat) and isinstance(args[1], Rat):
            nm = args[1].as_atom()
            if nm is not None and nm.func.startswith("str:") and not nm.args:
                try:
                    attr_name = ast.literal_eval(nm.func[4:])
                except Exception:
                    attr_name = None
                if isinstance(attr_name, str) and attr_name.isidentifier():
                    # getattr(x, 'name') with a literal name is x.name
                    return self.ev(ast.copy_location(ast.Attribute(value=node.args[0], attr=attr_name, ctx=ast.Load()), node), path)
        self._event("call", path, node, name=rname or fn or norm(node.func), args=args, kwargs=kwargs, recv=recv)
        call_event = self.events[-1] if self.record and self.events else None
        if self.call_hook is not None:
            r = self.call_hook(self, node, rname, args, kwargs, path)
            if r is not None:
                return r
        self._inlined_fully = False
        r = self._inline_unknown(node, fn, rname, args, kwargs, path)
        if r is not None:
            if self._inlined_fully and call_event is not None and call_event.get("node") is node:
                call_event["inlined"] = True          # everything the callee did is in the events / values that follow
            return r
        if fn and fn.startswith(self.selfname + ".") and fn.count(".") == 1:
            meth = fn.split(".")[1]
            if meth == "aggregator":
                return form.apply("agg", args, kwargs)
            return form.apply("self." + meth, args, kwargs)
        if rname == "len" and len(args) == 1 and isinstance(args[0], list):
            return Rat.const(len(args[0]))
        if rname in ("list", "set") and not args and not kwargs:
            return []
        if rname == "list" and len(args) == 1 and not kwargs and self.loop_mode == "unroll2" and isinstance(args[0], Rat):
            # list(X) of a sequence that is only known symbolically (a parameter): the same two generic elements an appending loop
            # `for x in X: L.append(x)` produces when it is unrolled twice
            a0 = args[0].as_atom()
            if a0 is not None and ((a0.func.startswith("$") and not a0.args and "." not in a0.func) or a0.func == "ifexp"):
                return [form.apply("elem#1", [args[0]]), form.apply("elem#2", [args[0]])]
        if isinstance(node.func, ast.Attribute) and node.func.attr in ("append", "add") and len(args) == 1:
            tgt = dotted(node.func.value)
            if tgt is not None and isinstance(path.env.get(tgt), list) and isinstance(args[0], Rat):
                path.env[tgt] = list(path.env[tgt]) + [args[0]]
                self._event("assign", path, node, name=tgt, value=path.env[tgt])
                return Rat.sym("None")
        if rname in _CMP_FUNCS and len(args) == 2 and not kwargs and all(isinstance(a, Rat) for a in args):
            return form.apply(_CMP_FUNCS[rname], args)
        if rname in FUNCS:
            f = FUNCS[rname]
            if f == "len" and len(args) == 1 and isinstance(args[0], Rat):
                k = args[0].key()
                if k in self.len_syms:
                    return Rat.sym(self.len_syms[k])
            if f in ("log", "log2", "log10") and args and isinstance(args[0], Rat):
                path.logs.append((args[0], node))
            try:
                return form.apply(f, args, kwargs)
            except Undefined:
                return form.apply("undefined:" + norm(node), [])
        if isinstance(node.func, ast.Attribute) and node.func.attr in STR_METHODS:
            base = self.ev(node.func.value, path)
            sv = _strval(base)
            av = [_strval(a) for a in args]
            if sv is not None and all(a is not None for a in av) and not kwargs:
                res = getattr(sv, node.func.attr)(*av)
                if isinstance(res, bool):
                    return Rat.const(1 if res else 0)
                if isinstance(res, str):
                    return form.apply("str:" + repr(res), [])
        head = fn.split(".")[0] if fn else None
        head_is_value = head is not None and head in path.env and not (
            isinstance(path.env[head], Rat) and path.env[head].key() == "$" + head)
        if isinstance(node.func, ast.Attribute) and fn is None or \
                (isinstance(node.func, ast.Attribute) and fn and head_is_value):
            # method call on a computed value
            base = self.ev(node.func.value, path)
            if isinstance(base, Rat):
                m = METHODS.get(node.func.attr, "m:" + node.func.attr)
                try:
                    return form.apply(m, [base] + args, kwargs)
                except Undefined:
                    return form.apply("undefined:" + norm(node), [])
        if isinstance(node.func, ast.Attribute) and fn and isinstance(node.func.value, ast.Name) \
                and node.func.attr in METHODS and node.func.value.id not in self.module.aliases:
            base = self.ev(node.func.value, path)
            return form.apply(METHODS[node.func.attr], [base] + args, kwargs)
        flat = []
        for a in args:
            flat.append(tuple(a) if isinstance(a, list) else a)
        if fn == fn0 and isinstance(node.func, ast.Name) and isinstance(path.env.get(node.func.id), Rat) and path.env[node.func.id].key() != "$" + node.func.id:
            fv0 = path.env[node.func.id]
            seen_through = self._call_method_value(fv0, node, args, kwargs, path)
            if seen_through is not None:
                return seen_through
            return form.apply("callobj", [fv0] + flat, kwargs)
        if rname is None:
            # the callee is not a plain dotted name (a subscripted / computed callable, a method of a local object): an
            # uninterpreted application of the callee's VALUE, so that the names of local variables do not matter
            root = node.func
            chain = []
            while isinstance(root, ast.Attribute):
                chain.append(root.attr)
                root = root.value
            if isinstance(root, ast.Name) and root.id in path.env and root.id not in self.module.aliases and chain:
                rv = path.env[root.id]
                if isinstance(rv, Rat) and rv.key() != "$" + root.id:
                    return form.apply("m:" + ".".join(reversed(chain)), [rv] + flat, kwargs)
            if fn is None:
                fv = self.ev(node.func, path)
                if isinstance(fv, Rat):
                    return form.apply("callobj", [fv] + flat, kwargs)
        return form.apply("call:" + (rname or norm(node.func)), flat, kwargs)

    def _call_method_value(self, fv, node, args, kwargs, path, depth=0):
        """compute = self._a if c else self._b ; compute(x): the callee is a (conditional) bound method of self that
        tables/known_methods.json does not list - evaluated in place per alternative.  None when it is anything else."""
        if not isinstance(fv, Rat) or depth > 3:
            return None
        at = fv.as_atom()
        if at is None:
            return None
        if at.func == "ifexp" and len(at.args) == 3 and all(isinstance(x, Rat) for x in at.args):
            a = self._call_method_value(at.args[1], node, args, kwargs, path, depth + 1)
            b = self._call_method_value(at.args[2], node, args, kwargs, path, depth + 1) if a is not None else None
            if isinstance(a, Rat) and isinstance(b, Rat):
                return form.apply("ifexp", [at.args[0], a, b])
            return None
        if at.func.startswith("$" + self.selfname + ".") and not at.args and at.func.count(".") == 1:
            fn2 = at.func[1:]
            r = self._inline_unknown(node, fn2, None, args, kwargs, path)
            return r if isinstance(r, Rat) else None
        return None

    def _is_small_known_list(self, st, path):
        """A `for` over a literal table - [(Obs(), "obs"), (Fcst(), "fcst")], [a, b, c] - is run element by element whatever the loop mode."""
        if st.orelse or not isinstance(st.iter, (ast.List, ast.Tuple, ast.Name)):
            return False
        rec = self.record
        self.record = False
        try:
            it = self.ev(st.iter, path)
        except Undecided:
            return False
        finally:
            self.record = rec
        if not isinstance(it, list) or not it or len(it) > 8:
            return False
        if isinstance(st.target, ast.Tuple):
            return all(isinstance(x, list) and len(x) == len(st.target.elts) and all(isinstance(y, Rat) for y in x) for x in it) \
                and all(isinstance(e_, ast.Name) for e_ in st.target.elts)
        return isinstance(st.target, ast.Name) and len(it) <= 6 and all(isinstance(x, Rat) for x in it)

    def _inline_generator_loop(self, st, path):
        """for X in gen(args): BODY   where gen is a generator function of the program that tables/known_methods.json does not list
        (a helper introduced by a refactoring) is the generator's body with every `yield v` replaced by `X = v; BODY` - provided the
        generator has no `return`, BODY has no break / continue / return of its own loop level, and there is no recursion.  The
        generator's locals are renamed so that they cannot capture the caller's.  Returns the statement list, or None."""
        prog = PROGRAM
        fn = dotted(st.iter.func)
        if prog is None or fn is None or self.inline_depth <= 0 or not hasattr(self.module, "functions"):
            return None
        known = _known()
        fdef, bound_self = None, False
        parts = fn.split(".")
        mn = getattr(self.module, "name", None)
        if len(parts) == 1 and parts[0] in self.module.functions and parts[0] not in known["functions"].get(mn, [parts[0]]):
            fdef = self.module.functions[parts[0]]
        elif len(parts) == 2 and parts[0] == self.selfname and self.cls is not None:
            hit = prog.lookup_method(self.cls, parts[1])
            if hit is not None and parts[1] not in known["classes"].get(hit[0].qual, [parts[1]]):
                fdef, bound_self = hit[1], True
        if fdef is None or not _has_yield(fdef) or fdef.args.vararg or fdef.args.kwarg or fdef.args.kwonlyargs:
            return None
        if any(isinstance(n, (ast.Return, ast.YieldFrom, ast.Global, ast.Nonlocal, ast.FunctionDef, ast.Lambda)) for n in ast.walk(fdef) if n is not fdef):
            return None
        if any(isinstance(n, ast.Yield) and n.value is None for n in ast.walk(fdef)):
            return None

        def escapes(stmts, depth=0):
            for x in stmts:
                if isinstance(x, ast.Return):
                    return True
                if isinstance(x, (ast.Break, ast.Continue)) and depth == 0:
                    return True
                for fld in ("body", "orelse", "finalbody"):
                    sub = getattr(x, fld, None)
                    if isinstance(sub, list) and sub and isinstance(sub[0], ast.stmt):
                        if escapes(sub, depth + (1 if isinstance(x, (ast.For, ast.While)) else 0)):
                            return True
                for h in getattr(x, "handlers", []) or []:
                    if escapes(h.body, depth):
                        return True
            return False
        if escapes(st.body):
            return None
        params = [a.arg for a in fdef.args.args]
        decos = [dotted(d) for d in fdef.decorator_list]
        if bound_self and params and "staticmethod" not in decos:
            params = params[1:]
        elif params and params[0] in ("self", "cls") and "staticmethod" not in decos:
            return None
        if len(st.iter.args) > len(params) or any(isinstance(a, ast.Starred) for a in st.iter.args) or any(k.arg is None for k in st.iter.keywords):
            return None
        self._gen_ordinal = getattr(self, "_gen_ordinal", 0) + 1
        prefix = "_g%d_" % self._gen_ordinal
        local_names = set(params) | set(n.id for n in ast.walk(fdef) if isinstance(n, ast.Name) and isinstance(n.ctx, ast.Store))
        if bound_self:
            local_names.discard(self.selfname)

        class Ren(ast.NodeTransformer):
            def visit_Name(self_, n):
                if n.id in local_names:
                    return ast.copy_location(ast.Name(id=prefix + n.id, ctx=n.ctx), n)
                return n
        import copy as _copy
        body = [Ren().visit(_copy.deepcopy(x)) for x in fdef.body
                if not (isinstance(x, ast.Expr) and isinstance(x.value, ast.Constant) and isinstance(x.value.value, str))]
        pre = []
        given = {}
        for p_, a in zip(params, st.iter.args):
            given[p_] = a
        for k in st.iter.keywords:
            if k.arg not in params or k.arg in given:
                return None
            given[k.arg] = k.value
        defaults = dict(zip(params[len(params) - len(fdef.args.defaults):], fdef.args.defaults))
        for p_ in params:
            v = given.get(p_, defaults.get(p_))
            if v is None:
                return None
            pre.append(ast.copy_location(ast.Assign(targets=[ast.Name(id=prefix + p_, ctx=ast.Store())], value=v, lineno=st.lineno, col_offset=0), st))

        ok = [True]

        def subst_yield(stmts):
            out = []
            for x in stmts:
                if isinstance(x, ast.Expr) and isinstance(x.value, ast.Yield):
                    out.append(ast.copy_location(ast.Assign(targets=[_copy.deepcopy(st.target)], value=x.value.value, lineno=x.lineno, col_offset=0), x))
                    out.extend(st.body)
                    continue
                if any(isinstance(n, ast.Yield) for n in ast.walk(x)):
                    if not isinstance(x, (ast.For, ast.While, ast.If, ast.With, ast.Try)):
                        ok[0] = False          # `v = yield ...`, yield inside an expression
                        continue
                    x = _copy.copy(x)
                    for fld in ("body", "orelse", "finalbody"):
                        sub = getattr(x, fld, None)
                        if isinstance(sub, list) and sub and isinstance(sub[0], ast.stmt):
                            setattr(x, fld, subst_yield(sub))
                out.append(x)
            return out
        new_body = subst_yield(body)
        if not ok[0]:
            return None
        for x in pre + new_body:
            ast.fix_missing_locations(x)
        return pre + new_body

    def _inline_unknown(self, node, fn, rname, args, kwargs, path):
        """A call to a helper of verif/scripts that tables/known_methods.json does not list (introduced after the rules were
        written) is evaluated in place: its events are recorded under the caller's path conditions and the call is replaced by its
        (if-merged) return value.  Known methods and functions stay opaque; generators and recursion are not inlined."""
        prog = PROGRAM
        if prog is None or self.inline_depth <= 0 or fn is None or not hasattr(self.module, "functions"):
            return None
        known = _known()
        owner = fdef = None
        bound = False
        parts = fn.split(".")
        closure = None
        if len(parts) == 1 and parts[0] in self.local_defs and parts[0] not in path.env:
            cand = self.local_defs[parts[0]]
            if not any(isinstance(n_, (ast.Nonlocal, ast.Global)) for n_ in ast.walk(cand)) and not cand.args.vararg and not cand.args.kwarg:
                fdef, callee_module = cand, self.module
                closure = dict(path.env)          # a closure reads the enclosing variables as they are at the time of the call
                owner = self.cls
        callee_self_is_fresh = False
        if fdef is not None:
            pass
        elif parts[0] == self.selfname and len(parts) == 2 and self.cls is not None:
            hit = prog.lookup_method(self.cls, parts[1])
            if hit is not None and parts[1] not in known["classes"].get(hit[0].qual, [parts[1]]):
                owner, fdef, bound = hit[0], hit[1], True
            elif hit is None and parts[1].startswith("_"):
                # self._helper(...) with `_helper = SomeClass()` a PRIVATE class-level instance of a class of the program: its __call__
                # (public ones such as Metric.aggregator are replaced per instance and keep their own meaning in the rules)
                av = prog.lookup_attr(self.cls, parts[1])
                if av is not None and isinstance(av[1], ast.Call) and not av[1].args and not av[1].keywords:
                    cq = av[0].module.resolve(dotted(av[1].func) or "") if dotted(av[1].func) else None
                    c2 = prog.cls(cq, required=False) if cq else None
                    if c2 is None and dotted(av[1].func) in av[0].module.classes:
                        c2 = av[0].module.classes[dotted(av[1].func)]
                    h2 = prog.lookup_method(c2, "__call__") if c2 is not None else None
                    if h2 is not None and prog.lookup_method(c2, "__init__") is None:
                        owner, fdef, bound, callee_self_is_fresh = h2[0], h2[1], True, True
        if fdef is None and len(parts) >= 2:
            cq = self.module.resolve(".".join(parts[:-1]))
            c = prog.cls(cq, required=False) if cq else None
            if c is None and len(parts) == 2 and parts[0] in self.module.classes:
                c = self.module.classes[parts[0]]
            if c is not None:
                hit = prog.lookup_method(c, parts[-1])
                if hit is not None and parts[-1] not in known["classes"].get(hit[0].qual, [parts[-1]]):
                    owner, fdef = hit
        if closure is None:
            callee_module = owner.module if owner is not None else None
        if fdef is None and rname:
            modname, _, fname = rname.rpartition(".")
            m2 = prog.modules.get(modname)
            if m2 is None and len(parts) == 1 and parts[0] in self.module.functions:
                m2, fname = self.module, parts[0]
            if m2 is not None and fname in m2.functions and fname not in known["functions"].get(m2.name if hasattr(m2, "name") else modname, [fname]):
                fdef, callee_module = m2.functions[fname], m2
        if fdef is None and len(parts) == 1 and parts[0] in self.module.functions:
            mn = getattr(self.module, "name", None)
            if mn is not None and parts[0] not in known["functions"].get(mn, [parts[0]]):
                fdef, callee_module = self.module.functions[parts[0]], self.module
        if fdef is None or _has_yield(fdef):
            return None
        decos = [dotted(d) for d in fdef.decorator_list]
        params = [a.arg for a in fdef.args.args]
        if params and params[0] in ("self", "cls") and "staticmethod" not in decos:
            params = params[1:]
        env = {k: v for k, v in path.env.items() if k.startswith(self.selfname + ".")} if closure is None else closure
        if callee_self_is_fresh:
            env = {}            # the callee's self is another object (a stateless helper instance), not the caller's
        for p_, a in zip(params, args):
            env[p_] = a
        for k, v in kwargs.items():
            env[k] = v
        sub = Evaluator(callee_module, selfname=self.selfname, call_hook=self.call_hook, noreturn=tuple(self.noreturn), max_paths=self.max_paths)
        sub.cls = owner if owner is not None else None
        sub.inline_depth = self.inline_depth - 1
        sub.loop_mode, sub.merge_ifs, sub.record = self.loop_mode, True, self.record
        sub.events, sub.loop_stack, sub.iter_tag, sub.no_thread_prefixes = self.events, self.loop_stack, self.iter_tag, self.no_thread_prefixes
        sub.loops = self.loops
        sub.local_defs = self.local_defs
        for p_, d in zip(params[len(params) - len(fdef.args.defaults):], fdef.args.defaults):
            if p_ not in env:
                env[p_] = sub.ev(d, Path({}, []))
        for p_ in params:
            if p_ not in env:
                return None
        try:
            sub.outcomes = []
            sub_path = Path(env, list(path.conds))
            live = sub.exec_block(fdef.body, [sub_path])
        except Undecided:
            return None
        outs = [o for o in sub.outcomes if o.kind == "return"]
        errs = [o for o in sub.outcomes if o.kind == "error"]
        for o in errs:
            self.outcomes.append(o)
        # what the callee assigned to attributes of self belongs to the caller's state; with exactly one normal exit it is copied back
        # (and the call is then fully represented by its inlined events and value)
        exits = [getattr(o, "env", None) for o in outs] + [p_.env for p_ in live]
        if len(exits) == 1 and exits[0] is not None and not errs and not any(o.kind == "raise" for o in sub.outcomes):
            if not callee_self_is_fresh:
                for k, v in exits[0].items():
                    if k.startswith(self.selfname + "."):
                        path.env[k] = v
            self._inlined_fully = True
        if not outs:
            return Rat.sym("None")
        base = len(path.conds)
        val = outs[-1].value
        for o in reversed(outs[:-1]):
            cond = None
            for c_, pol in o.conds[base:]:
                lit = c_ if pol else form.apply("not", [c_])
                cond = lit if cond is None else form.apply("and", [cond, lit])
            if cond is None:
                val = o.value
            elif isinstance(o.value, Rat) and isinstance(val, Rat):
                val = form.apply("ifexp", [cond, o.value, val])
            elif isinstance(o.value, list) and isinstance(val, list) and len(o.value) == len(val):
                val = [form.apply("ifexp", [cond, a, b]) if isinstance(a, Rat) and isinstance(b, Rat) else a for a, b in zip(o.value, val)]
        for o in outs:
            path.divs.extend(x for x in getattr(o, "divs", []) if x not in path.divs)
            path.logs.extend(x for x in getattr(o, "logs", []) if x not in path.logs)
        return val

    def ev_ListComp(self, node, path):
        """[f(x) for x in seq if c] -> map(f(elem(seq)), seq, c...) ; anything else is opaque."""
        if len(node.generators) != 1 or node.generators[0].is_async:
            return self._opaque(node, path)
        g = node.generators[0]
        seq = self.ev(g.iter, path)
        if isinstance(seq, list) and isinstance(node, ast.ListComp) and not g.ifs and seq and len(seq) <= 6 and all(isinstance(x, Rat) for x in seq):
            # a comprehension over a python list of known values is evaluated element by element
            out = []
            saved = dict(path.env)
            rec = self.record
            self.record = False
            try:
                for x in seq:
                    self.assign(g.target, x, path)
                    out.append(self.ev(node.elt, path))
            finally:
                path.env.clear()
                path.env.update(saved)
                self.record = rec
            if all(isinstance(x, Rat) for x in out):
                return out
        if isinstance(seq, list):
            seq = form.apply("pylist", [tuple(seq)]) if all(isinstance(x, Rat) for x in seq) else None
        if not isinstance(seq, Rat):
            return self._opaque(node, path)
        # a comprehension over a comprehension is one comprehension: [h(x) for x in [g(a) for a in A]] is [h(g(a)) for a in A]
        inner_conds = []
        elem_value = None
        sm = seq.as_atom("map")
        if sm is not None and len(sm.args) >= 2 and isinstance(g.target, ast.Name) and all(isinstance(a, Rat) for a in sm.args):
            elem_value, seq, inner_conds = sm.args[0], sm.args[1], list(sm.args[2:])
        elif sm is not None and len(sm.args) >= 2 and isinstance(g.target, (ast.Tuple, ast.List)) and all(isinstance(a, Rat) for a in sm.args):
            pl_ = sm.args[0].as_atom("pylist")
            comps_ = pl_.args[0] if pl_ is not None and pl_.args and isinstance(pl_.args[0], tuple) else None
            if comps_ is not None and len(comps_) == len(g.target.elts) and all(isinstance(c, Rat) for c in comps_):
                elem_value, seq, inner_conds = list(comps_), sm.args[1], list(sm.args[2:])
        saved = dict(path.env)
        rec = self.record
        self.record = False
        try:
            self.assign(g.target, elem_value if elem_value is not None else _loop_value_comp(g.target, seq), path)
            body = self.ev(node.elt, path)
            conds = inner_conds + [self.ev(c, path) for c in g.ifs]
        finally:
            path.env.clear()
            path.env.update(saved)
            self.record = rec
        if isinstance(body, list) and body and all(isinstance(x, Rat) for x in body):
            body = form.apply("pylist", [tuple(body)])          # [(a, b) for ...]: the element is the pair
        if not isinstance(body, Rat) or not all(isinstance(c, Rat) for c in conds):
            return self._opaque(node, path)
        return form.apply("map", [body, seq] + conds)

    ev_GeneratorExp = ev_ListComp

    def ev_Dict(self, node, path):
        items = []
        for k, v in zip(node.keys, node.values):
            if k is None:
                return self._opaque(node, path)
            kv, vv = self.ev(k, path), self.ev(v, path)
            if isinstance(vv, list):
                vv = form.apply("pylist", [tuple(vv)]) if all(isinstance(x, Rat) for x in vv) else self._opaque(v, path)
            if not isinstance(kv, Rat) or not isinstance(vv, Rat):
                return self._opaque(node, path)
            items.append((kv, vv))
        return form.apply("pydict", [tuple(x for kv in items for x in kv)])

    def _opaque(self, node, path):
        """An expression outside the modelled fragment becomes an uninterpreted function of the VALUES of the variables it mentions
        (so the atom does not depend on how local variables are called)."""
        names = []
        for n in ast.walk(node):
            if isinstance(n, ast.Name) and isinstance(n.ctx, ast.Load) and n.id in path.env and n.id not in names:
                names.append(n.id)
        bound = []
        for n in ast.walk(node):
            if isinstance(n, ast.comprehension):
                for t_ in ast.walk(n.target):
                    if isinstance(t_, ast.Name) and t_.id not in bound:
                        bound.append(t_.id)
            elif isinstance(n, ast.Lambda):
                for a_ in n.args.args:
                    if a_.arg not in bound:
                        bound.append(a_.arg)
        names = [x for x in names if x not in bound]
        if not names and not bound:
            return form.apply("expr:" + norm(node), [])
        try:
            tree = copy.deepcopy(node)
            if bound:
                bmap = {b: "_b%d" % k for k, b in enumerate(bound)}
                for n in ast.walk(tree):
                    if isinstance(n, ast.Name) and n.id in bmap:
                        n.id = bmap[n.id]
                    elif isinstance(n, ast.arg) and n.arg in bmap:
                        n.arg = bmap[n.arg]
            order = {}
            for n in ast.walk(tree):
                if isinstance(n, ast.Name) and n.id in names:
                    order.setdefault(n.id, "_v%d" % len(order))
                    n.id = order[n.id]
            vals = []
            for nm in sorted(order, key=lambda k: order[k]):
                v = path.env[nm]
                if isinstance(v, list):
                    v = form.apply("pylist", [tuple(v)]) if all(isinstance(x, Rat) for x in v) else Rat.sym("opaque_list")
                vals.append(v if isinstance(v, Rat) else Rat.sym("opaque"))
            return form.apply("expr:" + norm(tree), vals)
        except Exception:
            return form.apply("expr:" + norm(node), [])

    def ev_opaque(self, node, path):
        return self._opaque(node, path)
    ev_Lambda = ev_opaque
    ev_JoinedStr = ev_opaque
    ev_DictComp = ev_opaque
    ev_SetComp = ev_opaque

    # -- statements ----------------------------------------------------------------------
    def _event(self, kind, path, node, **kw):
        if self.record:
            e = {"kind": kind, "conds": list(path.conds), "loops": tuple(self.loop_stack), "iter": tuple(self.iter_tag),
                 "node": node}
            e.update(kw)
            self.events.append(e)

    def assign(self, target, value, path, node=None):
        if isinstance(target, ast.Name):
            path.env[target.id] = value
            self._event("assign", path, node or target, name=target.id, value=value)
        elif isinstance(target, (ast.Tuple, ast.List)):
            if isinstance(value, list) and len(value) == len(target.elts):
                for t, v in zip(target.elts, value):
                    self.assign(t, v, path, node)
            else:
                for i, t in enumerate(target.elts):
                    v = form.apply("getitem", [value, Rat.const(i)]) if isinstance(value, Rat) else \
                        form.apply("expr:unpack%d" % i, [])
                    self.assign(t, v, path, node)
        elif isinstance(target, ast.Attribute):
            d = dotted(target)
            if d:
                path.env[d] = value
                obj = None
                head = d.split(".")[0]
                if head != self.selfname and "." in d and isinstance(path.env.get(d.rsplit(".", 1)[0]), Rat):
                    obj = path.env.get(d.rsplit(".", 1)[0])
                self._event("assign", path, node or target, name=d, value=value, obj=obj)
            else:
                # attribute of a computed object (d[k].lat = v): a store into that object
                base = self.ev(target.value, path)
                self._event("store", path, node or target, root="<object>", indices=[form.apply("str:" + repr("." + target.attr), [])], value=value,
                            old=base if isinstance(base, Rat) else self._opaque(target.value, path))
        elif isinstance(target, ast.Subscript):
            # nested subscripts: root[i][j][k] = v
            idxs = []
            t = target
            while isinstance(t, ast.Subscript):
                idxs.append(self._index(t.slice, path))
                t = t.value
            idxs.reverse()
            d = dotted(t)
            if d:
                old = path.env.get(d)
                if old is None:
                    head = d.split(".")[0]
                    hv = path.env.get(head)
                    if "." in d and isinstance(hv, Rat) and hv.key() != "$" + head and head != self.selfname:
                        old = self.ev(_as_load(t), path)      # attribute of a local object: a function of the object's value
                        if not isinstance(old, Rat):
                            old = Rat.sym(d)
                    else:
                        old = Rat.sym(d)
                self._event("store", path, node or target, root=d, indices=idxs, value=value, old=old)
                if any(d.startswith(pfx) for pfx in self.no_thread_prefixes):
                    return
                if isinstance(old, Rat) and isinstance(value, Rat):
                    ix = tuple(i if isinstance(i, (Rat, tuple)) else (i,) for i in idxs)
                    path.env[d] = form.apply("setitem", [old, ix if len(ix) > 1 else ix[0], value])
                elif isinstance(old, list) and idxs:
                    # python list of values: a constant index or the index symbol of an unrolled iteration selects the element
                    pos = None
                    if isinstance(idxs[0], Rat) and idxs[0].const_value() is not None:
                        pos = int(idxs[0].const_value())
                        pos = pos if 0 <= pos < len(old) else (pos + len(old) if -len(old) <= pos < 0 else None)
                    if pos is None:
                        pos = _iter_pos(idxs[0])
                    if pos is not None and pos < len(old):
                        new_list = list(old)
                        if len(idxs) == 1:
                            new_list[pos] = value
                        elif isinstance(old[pos], Rat) and isinstance(value, Rat):
                            rest = tuple(i if isinstance(i, (Rat, tuple)) else (i,) for i in idxs[1:])
                            new_list[pos] = form.apply("setitem", [old[pos], rest if len(rest) > 1 else rest[0], value])
                        path.env[d] = new_list

    def exec_block(self, stmts, paths):
        for st in stmts:
            if not paths:
                break
            nxt = []
            for p in paths:
                if p.ctrl is not None:
                    nxt.append(p)
                else:
                    nxt.extend(self.exec_stmt(st, p))
            paths = nxt
            if len(paths) > self.max_paths:
                raise Undecided("more than %d paths" % self.max_paths)
        return paths

    def exec_stmt(self, st, path):
        if isinstance(st, ast.Expr):
            if isinstance(st.value, ast.Call):
                rname = self.module.resolve(dotted(st.value.func))
                if rname in self.noreturn:
                    self.outcomes.append(Outcome(path.conds, None, "error", st))
                    return []
                n0 = len(self.events)
                self.ev(st.value, path)
                for e in self.events[n0:]:
                    if e["kind"] == "call" and e["node"] is st.value:
                        e["stmt"] = True          # a call made for its effect (its value is discarded)
            return [path]
        if isinstance(st, ast.Assign):
            v = self.ev(st.value, path)
            # allocation sites of dictionaries get the identity of the variable they are bound to
            if isinstance(st.value, ast.Call) and dotted(st.value.func) == "dict" and not st.value.args and not st.value.keywords \
                    or isinstance(st.value, ast.Dict) and not st.value.keys:
                tname = dotted(st.targets[0]) or norm(st.targets[0])
                v = form.apply("new:dict", [form.apply("str:" + repr(tname), [])])
            for t in st.targets:
                self.assign(t, v, path, st)
            return [path]
        if isinstance(st, ast.AugAssign):
            fake = ast.BinOp(left=_as_load(st.target), op=st.op, right=st.value)
            ast.copy_location(fake, st)
            before = self.ev(_as_load(st.target), path)
            self._event("inplace", path, st, name=dotted(st.target) or norm(st.target), before=before,
                        operand=self.ev(st.value, path))
            v = self.ev(fake, path)
            self.assign(st.target, v, path, st)
            return [path]
        if isinstance(st, ast.AnnAssign):
            if st.value is not None:
                self.assign(st.target, self.ev(st.value, path), path)
            return [path]
        if isinstance(st, ast.Return):
            v = self.ev(st.value, path) if st.value is not None else Rat.sym("None")
            self.outcomes.append(Outcome(path.conds, v, "return", st))
            o = self.outcomes[-1]
            o.divs = list(path.divs)
            o.logs = list(path.logs)
            o.env = path.env
            return []
        if isinstance(st, ast.If):
            c = self.ev(st.test, path)
            cv = c.const_value() if isinstance(c, Rat) else None
            if cv is not None:
                return self.exec_block(st.body if cv != 0 else st.orelse, [path])
            if not isinstance(c, Rat):
                c = self._opaque(st.test, path)
            known = self.known_polarity(c, path)
            if known is not None:
                return self.exec_block(st.body if known else st.orelse, [path])
            p1 = path.fork()
            p1.conds.append((c, True))
            p2 = path.fork()
            p2.conds.append((c, False))
            l1 = self.exec_block(st.body, [p1])
            l2 = self.exec_block(st.orelse, [p2])
            if self.merge_ifs and len(l1) == 1 and len(l2) == 1 and l1[0].ctrl == l2[0].ctrl:
                return [self._merge(path, c, l1[0], l2[0])]
            return l1 + l2
        if isinstance(st, ast.Assert):
            if self.record:
                cv = self.ev(st.test, path)
                self._event("assert", path, st, value=cv if isinstance(cv, Rat) else self._opaque(st.test, path))
            return [path]
        if isinstance(st, (ast.Pass, ast.Import, ast.ImportFrom, ast.Global, ast.Nonlocal)):
            return [path]
        if isinstance(st, ast.Break):
            path.ctrl = "break"
            return [path]
        if isinstance(st, ast.Continue):
            path.ctrl = "continue"
            return [path]
        if isinstance(st, ast.Raise):
            if self.record and st.exc is not None:
                self._event("raise", path, st, value=self._opaque(st.exc, path))
            self.outcomes.append(Outcome(path.conds, None, "raise", st))
            return []
        if isinstance(st, ast.With):
            if self.record:
                for it_ in st.items:
                    cv = self.ev(it_.context_expr, path)
                    self._event("with", path, st, value=cv if isinstance(cv, Rat) else self._opaque(it_.context_expr, path))
                    if it_.optional_vars is not None and isinstance(cv, Rat):
                        self.assign(it_.optional_vars, cv, path, st)
            return self.exec_block(st.body, [path])
        if isinstance(st, ast.For) and not st.orelse and isinstance(st.target, ast.Name) and self.loop_mode not in ("body_once", "unroll2"):
            # a loop over range(<small constant>) is run concretely whatever the loop mode
            it0 = self.ev(st.iter, path)
            cr = _const_range(it0)
            if cr is not None:
                live, done = [path], []
                for x in cr:
                    nxt = []
                    for p in live:
                        self.assign(st.target, Rat.const(x), p, st)
                        for q_ in self.exec_block(st.body, [p]):
                            if q_.ctrl == "break":
                                q_.ctrl = None
                                done.append(q_)
                            else:
                                q_.ctrl = None
                                nxt.append(q_)
                    live = nxt
                return live + done
        if isinstance(st, ast.For) and self.loop_mode in ("body_once", "unroll2") and isinstance(st.iter, ast.Call) and not st.orelse:
            inl = self._inline_generator_loop(st, path)
            if inl is not None:
                return self.exec_block(inl, [path])
        if isinstance(st, ast.For) and (self.loop_mode in ("body_once", "unroll2") or self._is_small_known_list(st, path)):
            it = self.ev(st.iter, path)
            cr = _const_range(it) if isinstance(st.target, ast.Name) else None
            if cr is not None:
                it = [Rat.const(x) for x in cr]
            rows = isinstance(it, list) and it and len(it) <= 8 and isinstance(st.target, ast.Tuple) and not st.orelse \
                and all(isinstance(e_, ast.Name) for e_ in st.target.elts) \
                and all(isinstance(x, list) and len(x) == len(st.target.elts) and all(isinstance(y, Rat) for y in x) for x in it)
            if rows or (isinstance(it, list) and it and len(it) <= 6 and all(isinstance(x, Rat) for x in it) and isinstance(st.target, ast.Name) and not st.orelse):
                # loop over a python list of known values (typically the two results of an unrolled filling loop, or a literal table of
                # (name, value) rows): element by element; an in-place store into the loop variable is a store into the list element
                itv = form.apply("pylist", [tuple(form.apply("pylist", [tuple(x)]) for x in it)]) if rows else form.apply("pylist", [tuple(it)])
                self.loops.append({"node": st, "iter": itv, "path": path, "conds": list(path.conds), "depth": len(self.loop_stack)})
                self.loop_stack.append(st)
                live, done = [path], []
                lname = dotted(st.iter)
                for k, x in enumerate(it):
                    self.iter_tag.append(k + 1)
                    nxt = []
                    for p in live:
                        self.assign(st.target, x, p, st)
                        for q in self.exec_block(st.body, [p]):
                            if not rows and lname is not None and isinstance(q.env.get(lname), list) and k < len(q.env[lname]) and isinstance(q.env.get(st.target.id), Rat):
                                cur = q.env[st.target.id]
                                if cur.as_atom("setitem") is not None and cur.key() != x.key():
                                    lst = list(q.env[lname])
                                    lst[k] = cur
                                    q.env[lname] = lst
                            if q.ctrl == "break":
                                q.ctrl = None
                                done.append(q)
                            else:
                                q.ctrl = None
                                nxt.append(q)
                    live = nxt
                    self.iter_tag.pop()
                self.loop_stack.pop()
                return live + done
            if self.loop_mode not in ("body_once", "unroll2"):
                raise Undecided("loop at line %d" % st.lineno)
            self.loops.append({"node": st, "iter": it, "path": path, "conds": list(path.conds), "depth": len(self.loop_stack)})
            n_iter = 2 if self.loop_mode == "unroll2" else 1
            live = [path]
            done = []
            self.loop_stack.append(st)
            for k in range(n_iter):
                self.iter_tag.append(k + 1)
                nxt = []
                for p in live:
                    self.assign(st.target, _loop_value(st, it, "#%d" % (k + 1) if n_iter > 1 else ""), p, st)
                    for q in self.exec_block(st.body, [p]):
                        if q.ctrl == "break":
                            q.ctrl = None
                            done.append(q)
                        else:
                            q.ctrl = None
                            nxt.append(q)
                live = nxt
                self.iter_tag.pop()
            self.loop_stack.pop()
            return live + done
        if isinstance(st, ast.While) and self.loop_mode in ("body_once", "unroll2"):
            c = self.ev(st.test, path)
            if not isinstance(c, Rat):
                c = self._opaque(st.test, path)
            self.loops.append({"node": st, "iter": c, "path": path, "conds": list(path.conds), "depth": len(self.loop_stack)})
            marker = (c, True)
            path.conds.append(marker)
            n_iter = 2 if self.loop_mode == "unroll2" else 1
            live, done = [path], []
            self.loop_stack.append(st)
            for k in range(n_iter):
                self.iter_tag.append(k + 1)
                nxt = []
                for p in live:
                    for q_ in self.exec_block(st.body, [p]):
                        if q_.ctrl == "break":
                            q_.ctrl = None
                            done.append(q_)
                        else:
                            q_.ctrl = None
                            nxt.append(q_)
                live = nxt
                self.iter_tag.pop()
            self.loop_stack.pop()
            for p in live + done:
                if marker in p.conds:
                    p.conds.remove(marker)
            return live + done
        if isinstance(st, (ast.For, ast.While)):
            raise Undecided("loop at line %d" % st.lineno)
        if isinstance(st, ast.Try):
            self._try_count = getattr(self, "_try_count", 0) + 1
            exc = form.apply("exception", [Rat.const(self._try_count)])     # ordinal of the try statement, not its line
            pre = path.fork()
            body_live = self.exec_block(st.body + st.orelse, [path])
            h_live = []
            for h in st.handlers:
                ph = pre.fork()
                ph.conds.append((exc, True))
                for r_ in self.exec_block(h.body, [ph]):
                    if (exc, True) in r_.conds:
                        r_.conds.remove((exc, True))
                    h_live.append(r_)
            live = body_live + h_live
            if self.merge_ifs and len(body_live) == 1 and len(h_live) == 1 and body_live[0].ctrl == h_live[0].ctrl:
                live = [self._merge(pre, exc, h_live[0], body_live[0])]
            if st.finalbody:
                live = self.exec_block(st.finalbody, live)
            return live
        if isinstance(st, (ast.FunctionDef, ast.ClassDef)):
            if isinstance(st, ast.FunctionDef):
                self.local_defs[st.name] = st         # a nested helper: calls to it are evaluated in place (closure over the caller's variables)
            return [path]
        raise Undecided("statement %s" % type(st).__name__)

    def _merge(self, base, c, p1, p2):
        """Join the two branches of an if: differing values become ifexp(c, v1, v2)."""
        env = {}
        for k in set(p1.env) | set(p2.env):
            v1, v2 = p1.env.get(k), p2.env.get(k)
            if v1 is None or v2 is None:
                a = v1 if v1 is not None else Rat.sym("undef")
                b = v2 if v2 is not None else Rat.sym("undef")
                env[k] = form.apply("ifexp", [c, a, b]) if isinstance(a, Rat) and isinstance(b, Rat) else (v1 if v1 is not None else v2)
            elif isinstance(v1, Rat) and isinstance(v2, Rat):
                env[k] = v1 if (v1 is v2 or v1.key() == v2.key()) else form.apply("ifexp", [c, v1, v2])
            elif isinstance(v1, list) and isinstance(v2, list) and len(v1) == len(v2):
                env[k] = [a if (isinstance(a, Rat) and isinstance(b, Rat) and a.key() == b.key()) else
                          (form.apply("ifexp", [c, a, b]) if isinstance(a, Rat) and isinstance(b, Rat) else a)
                          for a, b in zip(v1, v2)]
            else:
                a = form.apply("pylist", [tuple(v1)]) if isinstance(v1, list) and all(isinstance(x, Rat) for x in v1) else v1
                b = form.apply("pylist", [tuple(v2)]) if isinstance(v2, list) and all(isinstance(x, Rat) for x in v2) else v2
                env[k] = form.apply("ifexp", [c, a, b]) if isinstance(a, Rat) and isinstance(b, Rat) else v1
        out = Path(env, list(base.conds), list(p1.divs) + [d for d in p2.divs if d not in p1.divs],
                   list(p1.logs) + [d for d in p2.logs if d not in p1.logs])
        # what each branch learned beyond the test itself (a nested if whose other arm left the function): the joined path
        # continues only if (c and E1) or (not c and E2)
        nb = len(base.conds) + 1
        e1, e2 = p1.conds[nb:], p2.conds[nb:]
        if e1 or e2:
            def conj(cs):
                r = None
                for cc, pol in cs:
                    if not isinstance(cc, Rat):
                        continue
                    t = cc if pol else form.apply("not", [cc])
                    r = t if r is None else form.apply("and", [r, t])
                return r
            E1, E2 = conj(e1), conj(e2)
            a = c if E1 is None else form.apply("and", [c, E1])
            nc = form.apply("not", [c])
            b = nc if E2 is None else form.apply("and", [nc, E2])
            out.conds.append((form.apply("or", [a, b]), True))
        return out

    def known_polarity(self, c, path):
        """Polarity of condition c if the path already decided it (or its negation)."""
        k = c.key()
        neg = form.apply("not", [c]).key()
        for pc, pol in path.conds:
            pk = pc.key()
            if pk == k:
                return pol
            if pk == neg:
                return not pol
        return None

    def run_stmts(self, stmts, env=None):
        """Execute a statement list from a given environment; returns the live paths."""
        self.outcomes = []
        return self.exec_block(stmts, [Path(dict(env or {}), [])])

    def run(self, fdef, env=None, skip_self=True):
        """Evaluate a function definition; parameters become symbols.  Returns outcomes."""
        self.outcomes = []
        if self.cls is None and PROGRAM is not None:
            for c in self.module.classes.values():
                if any(f is fdef for f in c.methods.values()):
                    self.cls = c
        e = {}
        for a in fdef.args.args + fdef.args.kwonlyargs:
            if skip_self and a.arg == self.selfname:
                continue
            e[a.arg] = Rat.sym(a.arg)
        e.update(env or {})
        paths = self.exec_block(fdef.body, [Path(e, [])])
        for p in paths:
            o = Outcome(p.conds, Rat.sym("None"), "fallthrough", fdef)
            o.divs = list(p.divs)
            o.logs = list(p.logs)
            o.env = p.env
            self.outcomes.append(o)
        return self.outcomes


_ATTR_STORES = {}


def _class_int_constant(prog, cls, name):
    key = id(prog)
    if key not in _ATTR_STORES:
        stored = set()
        for m_ in prog.modules.values():
            for n_ in ast.walk(m_.tree):
                if isinstance(n_, ast.Attribute) and isinstance(n_.ctx, (ast.Store, ast.Del)):
                    stored.add(n_.attr)
                elif isinstance(n_, ast.Call) and dotted(n_.func) == "setattr":
                    stored.add("*")
        _ATTR_STORES.clear()
        _ATTR_STORES[key] = stored
    stored = _ATTR_STORES[key]
    if name in stored or "*" in stored:
        return None
    try:
        v = prog.attr_const(cls, name, None)
    except Exception:
        return None
    return v if isinstance(v, int) and not isinstance(v, bool) else None


def _const_range(it):
    """range(c) / range(a, b) with small constant bounds -> the python list of its values (at most 8), else None"""
    at = it.as_atom("call:range") if isinstance(it, Rat) else None
    if at is None or not (1 <= len(at.args) <= 2) or not all(isinstance(a, Rat) and a.const_value() is not None for a in at.args):
        return None
    vals = [a.const_value() for a in at.args]
    if any(v != int(v) for v in vals):
        return None
    r = list(range(*[int(v) for v in vals]))
    return r if 0 < len(r) <= 8 else None


def _norm_index_value(v):
    """An index built with slice(...) / tuple(...) objects in the same form as one written with colons: a[tuple((slice(None),
    slice(k, None)))] is a[:, k:]."""
    if isinstance(v, list):
        return tuple(_norm_index_value(x) for x in v)
    if not isinstance(v, Rat):
        return v
    at = v.as_atom()
    if at is None:
        return v
    if at.func == "call:tuple" and len(at.args) == 1:
        inner = at.args[0]
        if isinstance(inner, tuple) and not (inner and isinstance(inner[0], str)):
            return tuple(_norm_index_value(x) for x in inner)
        pl = inner.as_atom("pylist") if isinstance(inner, Rat) else None
        if pl is not None and pl.args and isinstance(pl.args[0], tuple):
            return tuple(_norm_index_value(x) for x in pl.args[0])
    if at.func == "call:slice" and 1 <= len(at.args) <= 3 and all(isinstance(a, Rat) for a in at.args):
        def none(x):
            return "None" if x.key() == "$None" else x
        a = list(at.args)
        if len(a) == 1:
            return ("slice", "None", none(a[0]), "None")
        if len(a) == 2:
            return ("slice", none(a[0]), none(a[1]), "None")
        return ("slice", none(a[0]), none(a[1]), none(a[2]))
    return v


def _loop_value(st, it, tag=""):
    """Symbolic value of the loop variable(s) for one generic iteration."""
    def mk(t):
        if isinstance(t, ast.Name):
            return Rat.sym(t.id + tag)
        if isinstance(t, (ast.Tuple, ast.List)):
            return [mk(e) for e in t.elts]
        return Rat.sym(norm(t))
    at = it.as_atom() if isinstance(it, Rat) else None
    if at is not None and at.func == "call:enumerate" and isinstance(st.target, ast.Tuple) and len(st.target.elts) == 2 \
            and isinstance(at.args[0], Rat):
        idx = mk(st.target.elts[0])
        return [idx, form.apply("elem" + tag, [at.args[0]])]
    if at is not None and at.func == "call:zip" and isinstance(st.target, (ast.Tuple, ast.List)) and len(st.target.elts) == len(at.args) \
            and all(isinstance(a, Rat) for a in at.args) and all(isinstance(e_, ast.Name) for e_ in st.target.elts):
        pair = _consecutive_pairs(at)
        if pair is not None:
            ix = Rat.sym("i" + tag)
            return [form.apply("getitem", [pair, ix]), form.apply("getitem", [pair, ix + Rat.const(1)])]
        return [form.apply("elem" + tag, [a]) for a in at.args]
    if at is not None and at.func == "map" and len(at.args) == 2 and isinstance(st.target, (ast.Tuple, ast.List)) \
            and isinstance(at.args[0], Rat) and isinstance(at.args[1], Rat):
        # for a, b in [(f(x), g(x)) for x in S]: a and b are f and g of the same generic element of S
        pl = at.args[0].as_atom("pylist")
        comps = pl.args[0] if pl is not None and pl.args and isinstance(pl.args[0], tuple) else None
        if comps is not None and len(comps) == len(st.target.elts) and all(isinstance(c, Rat) for c in comps):
            sa = at.args[1].as_atom()
            if not tag:
                return list(comps)
            if sa is None or sa.func != "call:range":
                gen = form.apply("elem", [at.args[1]]).as_atom()
                rep = form.apply("elem" + tag, [at.args[1]])
                return [form.map_atoms(c, lambda a_: rep if a_ is gen else None) for c in comps]
    if at is not None and at.func != "call:range" and isinstance(st.target, ast.Name):
        return form.apply("elem" + tag, [it])
    return mk(st.target)


def _consecutive_pairs(zip_atom):
    """zip(X[:-1], X[1:]) -> X (the loop visits the consecutive pairs (X[i], X[i+1]), i in range(len(X) - 1)); else None."""
    if len(zip_atom.args) != 2:
        return None
    a, b = zip_atom.args
    ga, gb = a.as_atom("getitem"), b.as_atom("getitem")
    if ga is None or gb is None or len(ga.args) != 2 or len(gb.args) != 2 or not isinstance(ga.args[0], Rat) or not isinstance(gb.args[0], Rat):
        return None
    if not ga.args[0].equals(gb.args[0]):
        return None

    def sl(x):
        if isinstance(x, tuple) and len(x) == 4 and x[0] == "slice":
            return tuple((y.const_value() if isinstance(y, Rat) and y.const_value() is not None else (None if (y == "None" or (isinstance(y, Rat) and y.key() == "$None")) else "?")) for y in x[1:])
        return None
    if sl(ga.args[1]) == (None, -1, None) and sl(gb.args[1]) == (1, None, None):
        return ga.args[0]
    return None


def consecutive_pair_space(it):
    """The iteration space of `zip(X[:-1], X[1:])` as range(len(X) - 1), else `it` unchanged."""
    at = it.as_atom("call:zip") if isinstance(it, Rat) else None
    x = _consecutive_pairs(at) if at is not None else None
    if x is None:
        return it
    return form.apply("call:range", [form.apply("len", [x]) - Rat.const(1)])


def _loop_value_comp(target, seq):
    at = seq.as_atom()
    if at is not None and at.func == "call:zip" and isinstance(target, (ast.Tuple, ast.List)) and len(target.elts) == len(at.args) \
            and all(isinstance(a, Rat) for a in at.args):
        # for a, b in zip(A, B): a and b are the elements of A and B at the same position
        return [form.apply("elem", [a]) for a in at.args]
    if at is not None and at.func == "call:range" and isinstance(target, ast.Name):
        return Rat.sym(target.id)
    if isinstance(target, ast.Name):
        return form.apply("elem", [seq])
    if isinstance(target, (ast.Tuple, ast.List)):
        return [form.apply("elem%d" % i, [seq]) for i, _ in enumerate(target.elts)]
    return form.apply("elem", [seq])


def _as_load(t):
    import copy
    t2 = copy.deepcopy(t)
    for n in ast.walk(t2):
        if hasattr(n, "ctx"):
            n.ctx = ast.Load()
    return t2


def eval_expr_string(text, module=None, env=None):
    """Evaluate a reference expression written in Python syntax with the same front-end."""
    class _M(object):
        aliases = {}

        def resolve(self, name):
            if name is None:
                return None
            head = name.split(".")[0]
            if head == "np":
                return "numpy" + name[2:]
            return name
    ev = Evaluator(module or _M(), call_hook=_ref_call_hook)
    node = ast.parse(text, mode="eval").body
    return ev.ev(node, Path(dict(env or {}), []))


REF_FUNCS = {"agg", "mean", "nanmean", "sum", "nansum", "std", "var", "sqrt", "exp", "log", "log2", "abs",
             "sort", "median", "percentile", "corr", "min", "max", "spearmanr0", "kendalltau0",
             "within", "numvalid", "cumsum", "lt", "le", "masum", "isnan", "isinf", "nanmin", "nanmax", "len", "int"}


def _ref_call_hook(ev, node, rname, args, kwargs, path):
    if rname in REF_FUNCS:
        f = {"lt": "cmp_lt", "le": "cmp_le"}.get(rname, rname)
        if f in ("log", "log2"):
            path.logs.append((args[0], node))
        return form.apply(f, args, kwargs)
    return None


def zero_sets(cond, polarity):
    """For a path condition: Rats known to be ZERO-or (list) when it holds / known NONZERO when not.

    Returns (zero_alternatives, nonzero_facts): if polarity is True and cond is ``A == 0 or B == 0``
    then zero_alternatives = [A, B]; if polarity is False then nonzero_facts = [A, B].
    Conditions of other shapes yield ([], []) and are reported as opaque by callers.
    """
    at = cond.as_atom()
    if at is None:
        return [], [], False
    if at.func == "cmp_eq" and at.args[1].is_zero():
        return ([at.args[0]], [], True) if polarity else ([], [at.args[0]], True)
    if at.func == "cmp_ne" and at.args[1].is_zero():
        return ([], [at.args[0]], True) if polarity else ([at.args[0]], [], True)
    if at.func == "or":
        zs, ok = [], True
        for a in at.args:
            z, nz, k = zero_sets(a, True)
            ok = ok and k and not nz
            zs.extend(z)
        if not ok:
            return [], [], False
        return (zs, [], True) if polarity else ([], zs, True)
    if at.func == "and":
        nzs, ok = [], True
        for a in at.args:
            z, nz, k = zero_sets(a, True)
            ok = ok and k and not z
            nzs.extend(nz)
        if ok and polarity:
            return [], nzs, True
        return [], [], False
    return [], [], False
