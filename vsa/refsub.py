"""Reference substitution: functions that were refactored without changing what they compute are analysed in their verified
(reference) form.

    prog = canonical_program()     # what the rules look at

1. The current tree (/repo, or an overlay) and the reference tree (/verif/reference, the tree on which every obligation of the
   rules was confirmed) are parsed.  Functions whose syntax tree (docstrings and comments aside) differs are "changed".
2. For every changed function that exists on both sides, vsa.equiv compares the symbolic summaries.  Equal summaries: the current
   text of the function is replaced, in memory, by the reference text.  Anything else: the function is left as it is and the
   rules judge the current code (they may pass, report a violation, or fail closed).
3. The rules run on the resulting program.  Nothing is written to /repo.

What was substituted and what was not is part of the evidence (coverage.reference_substitution).
"""
import ast
import hashlib
import json
import os

from . import core, equiv, symeval
from .core import AnalysisError

HERE = os.path.dirname(os.path.dirname(os.path.abspath(__file__)))
REFERENCE_ROOT = os.path.join(HERE, "reference")
CACHE_DIR = os.environ.get("VSA_CACHE", "/tmp/vsa_equiv_cache")      # optional; results are recomputed when it is absent


def fdump(f):
    g = ast.parse(ast.unparse(f)).body[0]
    if g.body and isinstance(g.body[0], ast.Expr) and isinstance(getattr(g.body[0], "value", None), ast.Constant) and isinstance(g.body[0].value.value, str):
        g.body = g.body[1:] or [ast.Pass()]
    return ast.dump(g)


def _functions(prog):
    return {q: (m, c, f) for q, m, c, f in prog.all_functions() if q.startswith("verif.") or q.startswith("scripts.")}


def _names_used(f):
    out = set()
    for n in ast.walk(f):
        if isinstance(n, ast.Attribute) and isinstance(n.value, ast.Name) and n.value.id in ("self", "cls"):
            out.add(("self", n.attr))
        elif isinstance(n, ast.Call):
            d = core.dotted(n.func)
            if d:
                out.add(("call", d))
    return out


def _segment(module, f):
    lines = module.source.splitlines(True)
    start = min([f.lineno] + [d.lineno for d in f.decorator_list]) - 1
    return start, f.end_lineno, lines


_ENGINE_DIGEST = None


def _engine_digest():
    """Digest of the analyser's own sources and tables: cached verdicts of an older prover are never reused."""
    global _ENGINE_DIGEST
    if _ENGINE_DIGEST is None:
        h = hashlib.sha256()
        here = os.path.dirname(os.path.abspath(__file__))
        files = [os.path.join(here, n) for n in sorted(os.listdir(here)) if n.endswith(".py")]
        files.append(os.path.join(os.path.dirname(here), "tables", "known_methods.json"))
        for fn in files:
            try:
                with open(fn, "rb") as fh:
                    h.update(fh.read())
            except OSError:
                h.update(b"missing:" + fn.encode())
        _ENGINE_DIGEST = h.hexdigest()
    return _ENGINE_DIGEST


def canonical_program(root=None, overlay=None, use_cache=True):
    """-> (program for the rules, report dict)"""
    cur = core.Program(root=root, overlay=overlay)
    report = {"changed": [], "substituted": [], "not_substituted": []}
    if cur.parse_errors or not os.path.isdir(REFERENCE_ROOT):
        return cur, report
    ref = core.Program(root=REFERENCE_ROOT)
    fr, fc = _functions(ref), _functions(cur)
    changed = []
    for q, (m, c, f) in sorted(fr.items()):
        g = fc.get(q)
        if g is None:
            continue
        if f is g[2]:
            continue
        if fdump(f) != fdump(g[2]):
            changed.append(q)
    report["changed"] = changed
    if not changed:
        symeval.set_program(cur)
        return cur, report
    digest = hashlib.sha256()
    for mn in sorted(cur.modules):
        digest.update(cur.modules[mn].source.encode())
    for mn in sorted(ref.modules):
        digest.update(ref.modules[mn].source.encode())
    digest.update(_engine_digest().encode())      # a verdict is only as good as the prover that reached it
    cache_file = os.path.join(CACHE_DIR, digest.hexdigest()[:32] + ".json")
    verdicts = None
    if use_cache and os.path.exists(cache_file):
        try:
            with open(cache_file) as fh:
                verdicts = json.load(fh)
        except Exception:
            verdicts = None
    if verdicts is None:
        verdicts = {}
        for q in changed:
            try:
                r = equiv.prove(ref, cur, q)
                verdicts[q] = [r is None, r]
            except equiv.NotComparable as e:
                verdicts[q] = [None, "not comparable: %s" % e]
            except (AnalysisError, symeval.Undecided) as e:
                verdicts[q] = [None, "not comparable: %s" % e]
            except (RecursionError, MemoryError) as e:
                verdicts[q] = [None, "not comparable: %r" % e]
        if use_cache:
            try:
                os.makedirs(CACHE_DIR, exist_ok=True)
                with open(cache_file + ".tmp%d" % os.getpid(), "w") as fh:
                    json.dump(verdicts, fh)
                os.replace(cache_file + ".tmp%d" % os.getpid(), cache_file)
            except Exception:
                pass
    # splice the reference text of the equivalent functions into the current sources (bottom-up per module)
    per_module = {}
    for q in changed:
        ok, why = verdicts.get(q, [None, "?"])
        m, c, f = fc[q]
        rm, rc, rf = fr[q]
        if ok is True:
            # the reference body must not rely on names that no longer exist
            missing = []
            for kind, name in _names_used(rf):
                if kind == "self" and c is not None and rc is not None:
                    if cur.lookup_method(c, name) is None and ref.lookup_method(rc, name) is not None:
                        missing.append("self." + name)
                elif kind == "call" and "." not in name and name in rm.functions and name not in m.functions:
                    missing.append(name)
            if missing:
                report["not_substituted"].append({"function": q, "reason": "equivalent, but the reference text uses %s which no longer exist(s)" % missing})
                continue
            per_module.setdefault(m.name, []).append((q, f, rm, rf))
            report["substituted"].append(q)
        else:
            report["not_substituted"].append({"function": q, "reason": str(why)[:300]})
    new_overlay = dict(overlay or {})
    for mn, items in per_module.items():
        m = cur.modules[mn]
        lines = m.source.splitlines(True)
        for q, f, rm, rf in sorted(items, key=lambda it: -it[1].lineno):
            s0, e0, _ = _segment(m, f)
            rs0, re0, rlines = _segment(rm, rf)
            lines[s0:e0] = rlines[rs0:re0]
        new_overlay[m.relpath] = "".join(lines)
    # helpers that exist only in the current tree and are no longer referenced once their callers are in reference form are dropped
    # (so that rules which enumerate all functions do not judge dead code)
    if per_module:
        for _ in range(4):
            probe = core.Program(root=root, overlay=new_overlay)
            if probe.parse_errors:
                break
            pf = _functions(probe)
            referenced = set()
            for q, (m, c, f) in pf.items():
                own = q.rsplit(".", 1)[-1]
                for n in ast.walk(f):
                    if isinstance(n, ast.Attribute) and n.attr != own:
                        referenced.add(n.attr)
                    elif isinstance(n, ast.Name) and n.id != own:
                        referenced.add(n.id)
            for mn, m in probe.modules.items():
                for st in m.tree.body:
                    if not isinstance(st, (ast.FunctionDef, ast.ClassDef)):
                        for n in ast.walk(st):
                            if isinstance(n, ast.Name):
                                referenced.add(n.id)
                            elif isinstance(n, ast.Attribute):
                                referenced.add(n.attr)
            dead = [(q, m, f) for q, (m, c, f) in pf.items() if q not in fr and q.rsplit(".", 1)[-1] not in referenced
                    and not q.rsplit(".", 1)[-1].startswith("__") and m.name in per_module]
            if not dead:
                break
            by_mod = {}
            for q, m, f in dead:
                by_mod.setdefault(m.name, []).append(f)
                report.setdefault("dropped_helpers", []).append(q)
            for mn, fs in by_mod.items():
                m = probe.modules[mn]
                lines = m.source.splitlines(True)
                for f in sorted(fs, key=lambda f: -f.lineno):
                    s0, e0, _ = _segment(m, f)
                    lines[s0:e0] = []
                new_overlay[m.relpath] = "".join(lines)
    if per_module:
        prog = core.Program(root=root, overlay=new_overlay)
        if prog.parse_errors:
            symeval.set_program(cur)
            report["substituted"] = []
            report["not_substituted"].append({"function": "*", "reason": "spliced source does not parse: %s" % prog.parse_errors})
            return cur, report
        return prog, report
    symeval.set_program(cur)
    return cur, report
