"""Small query helpers over FORM values."""
from .form import Rat


def atoms(r, func=None, pred=None):
    out = []
    if isinstance(r, (list, tuple)):
        for x in r:
            out.extend(atoms(x, func, pred))
        return out
    if not isinstance(r, Rat):
        return out
    for a in r.atoms(deep=True):
        if (func is None or a.func == func) and (pred is None or pred(a)):
            out.append(a)
    return out


def top(r, func):
    """The atom if r is exactly one atom of this function."""
    return r.as_atom(func) if isinstance(r, Rat) else None


def leaves(r, func):
    """Flatten nested applications of an associative boolean function (and/or)."""
    at = r.as_atom(func) if isinstance(r, Rat) else None
    if at is None:
        return [r]
    out = []
    for a in at.args:
        out.extend(leaves(a, func))
    return out


def mentions(r, text):
    if isinstance(r, (list, tuple)):
        return any(mentions(x, text) for x in r)
    return isinstance(r, Rat) and text in r.key()


def has_cond(conds, pred, polarity=None):
    for c, pol in conds:
        if (polarity is None or pol == polarity) and pred(c):
            return True
    return False


def getitem_chain(r):
    """getitem(getitem(base, i), j) -> (base, [i, j]) ; otherwise (r, [])."""
    idx = []
    while isinstance(r, Rat):
        at = r.as_atom("getitem")
        if at is None:
            break
        idx.append(at.args[1])
        r = at.args[0]
    idx.reverse()
    return r, idx
