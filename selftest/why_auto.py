import ast, sys
sys.path.insert(0, "/verif"); sys.path.insert(0, "/verif/selftest")
from vsa import core, audit, equiv, symeval
import benign_auto as B
qn, tname = sys.argv[1:3]
prog = core.Program()
f = prog.func(qn) if qn.count(".") < 3 else prog.own_method(qn)
m = prog.module(".".join(qn.split(".")[:2]))
tree = ast.parse(m.source)
g = audit._locate(tree, f.lineno, f.name)
B.TRANSFORMS[tname](g); ast.fix_missing_locations(tree)
symeval.set_program(prog); s1 = equiv.summarize(prog, qn, budget=300)
cur = core.Program(overlay={m.relpath: ast.unparse(tree)})
symeval.set_program(cur); s2 = equiv.summarize(cur, qn, budget=300)
print(str(equiv.compare(s1, s2))[:200])
def show(t1, t2, name):
    a, b = sorted(set(t1) - set(t2), key=len), sorted(set(t2) - set(t1), key=len)
    print(name, len(t1), len(t2), "only-ref", len(a), "only-cur", len(b))
    for x, y in zip(a, b):
        x, y = str(x), str(y)
        i = next((k for k in range(min(len(x), len(y))) if x[k] != y[k]), min(len(x), len(y)))
        print("  DIFF at", i); print("    ref:", x[max(0, i - 120):i + 120]); print("    cur:", y[max(0, i - 120):i + 120])
show(s1.returns, s2.returns, "returns")
show({repr(k): v for k, v in s1.effects.items()}, {repr(k): v for k, v in s2.effects.items()}, "effects")
for a_ in set(s1.attrs) | set(s2.attrs):
    show(s1.attrs.get(a_, {}), s2.attrs.get(a_, {}), "attr " + a_)
