#!/usr/bin/env python3
"""Automatic false-alarm test: behaviour-preserving syntactic transformations are applied in memory, one function at a time, to the
anchor functions of every property (the AUDIT lists of the rule modules); the property's rules must stay silent.

  rename   every local variable of the function gets a new name
  invert   `if c: A else: B`  ->  `if not (c): B else: A`
  range0   range(0, n) -> range(n)
  pad      a dead local assignment and a comment-like string statement are inserted at the top of the body

usage: benign_auto.py [C01 ...]      exit 0 always; prints one line per alarm and a summary
"""
import ast, builtins, copy, importlib, json, multiprocessing, os, sys, time
sys.path.insert(0, "/verif")
from vsa import core, harness, audit, refsub, symeval
from vsa.core import AnalysisError


def locals_of(f):
    params = {a.arg for a in f.args.args + f.args.kwonlyargs} | ({f.args.vararg.arg} if f.args.vararg else set()) | ({f.args.kwarg.arg} if f.args.kwarg else set())
    assigned, bad = set(), set()
    for n in ast.walk(f):
        if isinstance(n, (ast.Global, ast.Nonlocal)):
            bad |= set(n.names)
        elif isinstance(n, ast.Name) and isinstance(n.ctx, (ast.Store, ast.Del)):
            assigned.add(n.id)
        elif isinstance(n, (ast.Import, ast.ImportFrom)):
            for a in n.names:
                bad.add((a.asname or a.name).split(".")[0])
        elif isinstance(n, (ast.FunctionDef, ast.ClassDef)) and n is not f:
            bad.add(n.name)
        elif isinstance(n, ast.ExceptHandler) and n.name:
            bad.add(n.name)
    return {x for x in assigned - params - bad if not hasattr(builtins, x)}


def t_rename(f):
    names = locals_of(f)
    if not names:
        return False
    for n in ast.walk(f):
        if isinstance(n, ast.Name) and n.id in names:
            n.id = n.id + "_rn"
    return True


def t_invert(f):
    done = False
    for n in ast.walk(f):
        if isinstance(n, ast.If) and n.orelse and not (len(n.orelse) == 1 and isinstance(n.orelse[0], ast.If)):
            n.test = ast.UnaryOp(op=ast.Not(), operand=n.test)
            n.body, n.orelse = n.orelse, n.body
            done = True
    return done


def t_range0(f):
    done = False
    for n in ast.walk(f):
        if isinstance(n, ast.Call) and isinstance(n.func, ast.Name) and n.func.id == "range" and len(n.args) == 2 and isinstance(n.args[0], ast.Constant) and n.args[0].value == 0:
            n.args = [n.args[1]]
            done = True
    return done


def t_pad(f):
    i = 1 if (f.body and isinstance(f.body[0], ast.Expr) and isinstance(getattr(f.body[0], "value", None), ast.Constant) and isinstance(f.body[0].value.value, str)) else 0
    f.body[i:i] = [ast.Assign(targets=[ast.Name(id="_unused_pad", ctx=ast.Store())], value=ast.Constant(value=0)), ast.Expr(value=ast.Constant(value="refactoring note"))]
    return True


TRANSFORMS = {"rename": t_rename, "invert": t_invert, "range0": t_range0, "pad": t_pad}


def run_one(job):
    pid, relpath, source, lineno, fname, tname, baseline = job
    try:
        tree = ast.parse(source)
        f = audit._locate(tree, lineno, fname)
        if f is None or not TRANSFORMS[tname](f):
            return "skip", None
        ast.fix_missing_locations(tree)
        new_src = ast.unparse(tree)
        prog, report = refsub.canonical_program(overlay={relpath: new_src}, use_cache=False)
        mod = importlib.import_module("vsa.rules.%s" % pid.lower())
        ctx = harness.Ctx(prog, pid, "quick", True)
        try:
            mod.run(ctx)
        except AnalysisError as e:
            return "analysis-error", str(e)[:200]
        new = sorted(set(fd.key for fd in ctx.findings) - set(baseline))
        if new:
            return "violation", new[0][:200]
        return ("quiet-by-substitution" if report["substituted"] else "quiet"), None
    except Exception as e:
        return "internal", "%s: %s" % (type(e).__name__, str(e)[:160])


def main():
    pids = [a for a in sys.argv[1:] if not a.startswith("-")] or ["C%02d" % i for i in range(1, 21)]
    prog = core.Program()
    total = {"quiet": 0, "quiet-by-substitution": 0, "violation": 0, "analysis-error": 0, "internal": 0, "skip": 0}
    out = {}
    for pid in pids:
        mod = importlib.import_module("vsa.rules.%s" % pid.lower())
        spec = getattr(mod, "AUDIT", None)
        if not spec:
            continue
        ctx = harness.Ctx(prog, pid, "quick", True)
        symeval.set_program(prog)
        mod.run(ctx)
        baseline = sorted(set(f.key for f in ctx.findings))
        jobs, meta = [], []
        for m, f, qn in audit._targets(prog, spec):
            for tname in TRANSFORMS:
                jobs.append((pid, m.relpath, m.source, f.lineno, f.name, tname, baseline))
                meta.append((qn, tname))
        with multiprocessing.get_context("fork").Pool(16, maxtasksperchild=4) as pool:
            results = pool.map(run_one, jobs, chunksize=2)
        counts = {}
        for (qn, tname), (r, why) in zip(meta, results):
            counts[r] = counts.get(r, 0) + 1
            total[r] = total.get(r, 0) + 1
            if r in ("violation", "analysis-error", "internal"):
                print("%s ALARM %-9s %-14s %s: %s" % (pid, tname, r, qn, why), flush=True)
        out[pid] = counts
        print("%s  %s" % (pid, counts), flush=True)
    print("TOTAL", total)
    json.dump({"per_property": out, "total": total}, open("/verif/selftest/benign_auto_result.json", "w"), indent=1)


if __name__ == "__main__":
    main()
