#!/bin/sh
# usage: try1.sh seeded|benign <id> <check> [more checks]   - apply the variant to a scratch copy, run the check(s) against it, keep the copy path in $T for inspection
kind=$1; id=$2; shift 2
T=$(mktemp -d /tmp/vsa_try_XXXX)
git -C /repo archive HEAD verif scripts | tar -x -C $T
(cd $T && patch -s -p1 < /verif/$kind/$id/patch.diff) || exit 3
for c in "$@"; do VSA_REPO=$T VSA_EVIDENCE_DIR=$T/ev VSA_CACHE=$T/cache /verif/check $c --tier quick; echo "rc=$?"; done
rm -rf $T
