#!/bin/sh
# usage: T=$(selftest/mk.sh seeded|benign <id>)   - scratch copy of /repo's verif+scripts with the variant applied; caller removes it
T=$(mktemp -d /tmp/vsa_try_XXXX)
git -C /repo archive HEAD verif scripts | tar -x -C $T
[ -n "$1" ] && (cd $T && patch -s -p1 < /verif/$1/$2/patch.diff >&2)
echo $T
