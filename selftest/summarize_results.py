#!/usr/bin/env python3
"""Turn the outputs of the self-test runs into the committed records: selftest/seed_matrix.txt, seed_table.md, benign_matrix.txt,
the detected_by / checks fields of the meta.json files, and a summary (selftest/summary.json) quoted in DESIGN.md.
usage: summarize_results.py <seeded matrix> <benign matrix> [<equiv-auto output>] [<try_equiv seeded output>]"""
import glob, json, os, re, sys
V = "/verif"
seeded_out, benign_out = sys.argv[1], sys.argv[2]
summary = {}
# seeded
lines = [l.rstrip("\n") for l in open(seeded_out) if re.match(r"^C\d\d[a-z]\s", l)]
open(V + "/selftest/seed_matrix.txt", "w").write("\n".join(l[:400] for l in lines) + "\n")
tot = own = viol = err = miss = 0
per_round = {}
for l in lines:
    m = re.match(r"^(C\d\d[a-z])\s+(\S+)\s*(.*)$", l)
    sid, tag, rest = m.groups()
    hits = re.findall(r"(C\d\d)\(rc=(\d)\)", rest)
    det = [h for h, rc in hits if rc == "1"]
    er = [h for h, rc in hits if rc == "2"]
    p = "%s/seeded/%s/meta.json" % (V, sid)
    if not os.path.exists(p):
        continue
    d = json.load(open(p))
    d["detected_by"] = {"violation": det, "analysis_error": er, "own_property_check_detects": d["property"] in det}
    json.dump(d, open(p, "w"), indent=1)
    tot += 1
    r = per_round.setdefault(d.get("round", 1), {"n": 0, "violation": 0, "analysis_error_only": 0, "missed": 0, "own": 0})
    r["n"] += 1
    if det:
        viol += 1; r["violation"] += 1
        if d["property"] in det:
            own += 1; r["own"] += 1
    elif er:
        err += 1; r["analysis_error_only"] += 1
    else:
        miss += 1; r["missed"] += 1
summary["seeded"] = {"total": tot, "violation": viol, "analysis_error_only": err, "missed": miss, "own_check": own, "per_round": per_round}
# seed table
rows = ["| seed | round | file(s) | checks reporting VIOLATION | own check | ANALYSIS-ERROR only from | what the change does (first line of the author's note) |", "|---|---|---|---|---|---|---|"]
for d_ in sorted(glob.glob(V + "/seeded/*")):
    m_ = json.load(open(d_ + "/meta.json"))
    patch = open(d_ + "/patch.diff").read()
    files = sorted(set(re.findall(r"^\+\+\+ b/(\S+)", patch, re.M)))
    det = m_.get("detected_by") or {}
    notes = [n for n in (m_.get("needs_to_manifest") or "").strip().split("\n") if n.strip() and not n.startswith("#")]
    rows.append("| %s | %s | %s | %s | %s | %s | %s |" % (m_["id"], m_.get("round", 1), ",".join(files), ",".join(det.get("violation", [])) or "-",
                                                       "yes" if det.get("own_property_check_detects") else "no",
                                                       ",".join(det.get("analysis_error", [])) if not det.get("violation") else "",
                                                       (notes[0] if notes else "")[:110].replace("|", "/")))
open(V + "/selftest/seed_table.md", "w").write("\n".join(rows) + "\n")
# benign
blines = [l.rstrip("\n") for l in open(benign_out) if re.match(r"^C\d\d[a-z]\s", l)]
open(V + "/selftest/benign_matrix.txt", "w").write("\n".join(l[:500] for l in blines) + "\n")
quiet = fa_v = fa_e = 0
for l in blines:
    m = re.match(r"^(C\d\d[a-z])\s+(\S+)\s*(.*)$", l)
    sid, tag, rest = m.groups()
    hits = re.findall(r"(C\d\d)\(rc=(\d)\)", rest)
    p = "%s/benign/%s/meta.json" % (V, sid)
    if os.path.exists(p):
        d = json.load(open(p))
        d["checks"] = {"quiet": tag == "quiet", "wrong_violation_from": [h for h, rc in hits if rc == "1"], "analysis_error_from": [h for h, rc in hits if rc == "2"]}
        d["confirmed_by"] = d.get("confirmed_by") or "the author's equiv.py digests (identical before/after) and test-suite run; patch applies to the current tree"
        json.dump(d, open(p, "w"), indent=1)
    if tag == "quiet":
        quiet += 1
    elif any(rc == "1" for h, rc in hits):
        fa_v += 1
    else:
        fa_e += 1
summary["benign_agent_variants"] = {"total": len(blines), "quiet": quiet, "wrong_violation": fa_v, "analysis_error_only": fa_e}
if len(sys.argv) > 3 and os.path.exists(sys.argv[3]):
    last = [l for l in open(sys.argv[3]) if l.startswith("functions")]
    summary["equiv_auto"] = last[-1].strip() if last else None
if len(sys.argv) > 4 and os.path.exists(sys.argv[4]):
    txt = open(sys.argv[4]).read()
    summary["seeds_judged_equivalent"] = len(re.findall(r"ALL-EQUIVALENT", txt))
    summary["seeds_compared"] = len(re.findall(r"^C\d\d[a-z]\s", txt, re.M))
# audit
try:
    aud = json.load(open(V + "/selftest/summary.json")).get("audit", {})      # the quick tier writes no audit: keep the last thorough run's
except Exception:
    aud = {}
for f in sorted(glob.glob(V + "/evidence/C*.json")):
    d = json.load(open(f))
    a = d.get("coverage", {}).get("sensitivity_audit")
    if a:
        aud[d["property_id"]] = {k: a.get(k) for k in ("applied", "killed", "kill_ratio", "judged_equivalent", "wall_s")}
# fallback: the one-line summaries of the last full thorough run
if os.path.exists(V + "/selftest/thorough_last_run.txt"):
    for l in open(V + "/selftest/thorough_last_run.txt"):
        m = re.match(r"^(C\d\d) rc=(\d) (\d+)s\s+sensitivity audit: (\d+) mutants applied, (\d+) killed", l)
        if m and m.group(1) not in aud:
            ap, ki = int(m.group(4)), int(m.group(5))
            aud[m.group(1)] = {"applied": ap, "killed": ki, "kill_ratio": round(ki / max(1, ap), 3), "judged_equivalent": None, "wall_s": int(m.group(3))}
summary["audit"] = dict(sorted(aud.items()))
json.dump(summary, open(V + "/selftest/summary.json", "w"), indent=1)
print(json.dumps({k: v for k, v in summary.items() if k != "audit"}, indent=1))
