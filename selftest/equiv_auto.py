#!/usr/bin/env python3
"""Does the equivalence prover see through purely syntactic, behaviour-preserving transformations of every anchor function?
(rename of locals, if/else inversion, range(0,n)->range(n), dead padding).  usage: equiv_auto.py [C01 ...]"""
import ast, importlib, multiprocessing, sys
sys.path.insert(0, "/verif"); sys.path.insert(0, "/verif/selftest")
from vsa import core, audit, equiv, symeval
import benign_auto as B


def run_one(job):
    relpath, source, lineno, fname, tname, qn = job
    try:
        tree = ast.parse(source)
        f = audit._locate(tree, lineno, fname)
        if f is None or not B.TRANSFORMS[tname](f):
            return "skip", None
        ast.fix_missing_locations(tree)
        ref = core.Program()
        cur = core.Program(overlay={relpath: ast.unparse(tree)})
        r = equiv.prove(ref, cur, qn)       # exactly what vsa/refsub does
        return ("EQ", None) if r is None else ("NE", r[:220])
    except equiv.NotComparable as e:
        return "??", str(e)[:120]
    except Exception as e:
        return "internal", "%s: %s" % (type(e).__name__, str(e)[:160])


def main():
    pids = [a for a in sys.argv[1:]] or ["C%02d" % i for i in range(1, 21)]
    prog = core.Program()
    seen, jobs, meta = set(), [], []
    for pid in pids:
        mod = importlib.import_module("vsa.rules.%s" % pid.lower())
        spec = getattr(mod, "AUDIT", None) or {}
        for m, f, qn in audit._targets(prog, spec):
            if qn in seen:
                continue
            seen.add(qn)
            for tname in B.TRANSFORMS:
                jobs.append((m.relpath, m.source, f.lineno, f.name, tname, qn))
                meta.append((qn, tname))
    with multiprocessing.get_context("fork").Pool(16, maxtasksperchild=8) as pool:
        results = pool.map(run_one, jobs, chunksize=2)
    counts = {}
    for (qn, tname), (r, why) in zip(meta, results):
        counts[r] = counts.get(r, 0) + 1
        if r not in ("EQ", "skip"):
            print("%-9s %-3s %s: %s" % (tname, r, qn, why), flush=True)
    print("functions", len(seen), counts)


if __name__ == "__main__":
    main()
