#!/usr/bin/env python3
"""Import behaviour-preserving variants written by a sub-agent: /tmp/benign_out/<prop>/<v> -> /verif/benign/<prop><v>/"""
import json, os, shutil, sys
for a in sys.argv[1:]:
    prop, var = a.split("/")
    src = "%s/%s/%s" % (os.environ.get("BENIGN_ROOT", "/tmp/benign_out"), prop, var)
    dst = "/verif/benign/%s%s" % (prop, var)
    if not os.path.exists(src + "/patch.diff"):
        print("missing", src); continue
    os.makedirs(dst, exist_ok=True)
    for f in ("patch.diff", "equiv.py", "notes.md"):
        if os.path.exists(src + "/" + f):
            shutil.copy(src + "/" + f, dst + "/" + f)
    meta = {"id": prop + var, "property": prop, "kind": "behaviour-preserving refactoring",
            "written_by": "independent sub-agent given only the property text, its anchors and a scratch worktree",
            "confirmed_by": None, "checks": None}
    json.dump(meta, open(dst + "/meta.json", "w"), indent=1)
    print("imported", dst)
