#!/usr/bin/env python3
"""Show where the summaries of one function differ: why_equiv.py <kind> <id> <qualname>"""
import sys
sys.path.insert(0, "/verif"); sys.path.insert(0, "/verif/selftest")
from overlay import program_with_patch
from vsa import core, equiv, symeval
kind, sid, q = sys.argv[1:4]
ref = core.Program(root="/verif/reference")
cur = program_with_patch("/verif/%s/%s/patch.diff" % (kind, sid))
symeval.set_program(ref); s1 = equiv.summarize(ref, q)
symeval.set_program(cur); s2 = equiv.summarize(cur, q)
print("compare:", str(equiv.compare(s1, s2))[:300])


def show(t1, t2, name):
    k1, k2 = set(t1), set(t2)
    a, b = sorted(k1 - k2, key=len), sorted(k2 - k1, key=len)
    print(name, len(k1), len(k2), "common", len(k1 & k2), "only-ref", len(a), "only-cur", len(b))
    for x, y in zip(a, b):
        x, y = str(x), str(y)
        i = next((k for k in range(min(len(x), len(y))) if x[k] != y[k]), min(len(x), len(y)))
        print("  DIFF at", i, len(x), len(y)); print("    ref:", x[max(0, i - 160):i + 160]); print("    cur:", y[max(0, i - 160):i + 160])
    for x in a[len(b):]:
        print("  ONLY-REF", str(x)[:300])
    for y in b[len(a):]:
        print("  ONLY-CUR", str(y)[:300])
show(s1.returns, s2.returns, "returns")
for at in sorted(set(s1.attrs) | set(s2.attrs)):
    show(s1.attrs.get(at, {}), s2.attrs.get(at, {}), "attr " + at)
show({repr(k): v for k, v in s1.effects.items()}, {repr(k): v for k, v in s2.effects.items()}, "effects")
