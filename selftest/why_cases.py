import sys, itertools
sys.path.insert(0, "/verif"); sys.path.insert(0, "/verif/selftest")
from overlay import program_with_patch
from vsa import core, equiv, symeval, boolq
kind, sid, q = sys.argv[1:4]
ref = core.Program(root="/verif/reference")
cur = program_with_patch("/verif/%s/%s/patch.diff" % (kind, sid))
symeval.set_program(ref); S1 = equiv.summarize(ref, q)
symeval.set_program(cur); S2 = equiv.summarize(cur, q)
import itertools
counts = {}
for S in (S1, S2):
    for cat, label, parts, pre in S.raw:
        equiv._cond_atoms(parts, counts)
names = sorted(counts, key=lambda k: (-counts[k], len(k)))[:8]
for k in names: print("SPLIT", counts[k], k[:150])
for vals in itertools.product((False, True), repeat=len(names)):
    penv = dict(zip(names, vals))
    if not boolq._feasible(penv): continue
    tabs = []
    for S in (S1, S2):
        memo = {}; tab = {}
        for cat, label, parts, pre in S.raw:
            f = boolq.partial(pre, penv)
            if f[0] == "const" and not f[1]: continue
            rp = equiv._resolve(parts, penv, memo)
            tab.setdefault(repr((cat, label, equiv._rawkey(rp))), []).append(f)
        tabs.append(tab)
    r = equiv._match_tables(tabs[0], tabs[1], {}, {}, "case")
    if r:
        print("CASE", vals, r[:200])
        a = sorted(set(tabs[0]) - set(tabs[1]), key=len); b = sorted(set(tabs[1]) - set(tabs[0]), key=len)
        print(len(tabs[0]), len(tabs[1]), "only-ref", len(a), "only-cur", len(b))
        for x, y in zip(a, b):
            i = next((k for k in range(min(len(x), len(y))) if x[k] != y[k]), min(len(x), len(y)))
            print("DIFF at", i, len(x), len(y)); print("   ref:", x[max(0, i - 200):i + 200]); print("   cur:", y[max(0, i - 200):i + 200])
        for x in a[len(b):]: print("ONLY-REF", x[:300])
        for y in b[len(a):]: print("ONLY-CUR", y[:300])
        if not a and not b:
            for k in tabs[0]:
                if sorted(map(repr, tabs[0][k])) != sorted(map(repr, tabs[1][k])):
                    print("COND DIFF for", k[:120]); print("   ref:", [repr(x)[:300] for x in tabs[0][k]]); print("   cur:", [repr(x)[:300] for x in tabs[1][k]])
        break
