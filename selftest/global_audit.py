#!/usr/bin/env python3
"""Which single-site mutants of a function are reported by NO property at all?  (blind spots of the whole checker)
usage: global_audit.py <qualified function> [max]"""
import ast, importlib, multiprocessing, random, sys
sys.path.insert(0, "/verif")
from vsa import core, audit, harness, refsub, symeval
from vsa.core import AnalysisError
PIDS = ["C%02d" % i for i in range(1, 21)]


def run_one(job):
    relpath, source, lineno, fname, k, op, baselines = job
    try:
        tree = ast.parse(source)
        f = audit._locate(tree, lineno, fname)
        if f is None or not audit._apply(f, k, op):
            return None
        ast.fix_missing_locations(tree)
        new_src = ast.unparse(tree)
        ast.parse(new_src)
        prog, rep = refsub.canonical_program(overlay={relpath: new_src}, use_cache=False)
        if rep.get("substituted"):
            return ["<judged equivalent>"]
        killers = []
        for pid in PIDS:
            mod = importlib.import_module("vsa.rules.%s" % pid.lower())
            ctx = harness.Ctx(prog, pid, "quick", True)
            try:
                symeval.set_program(prog)
                mod.run(ctx)
            except AnalysisError:
                killers.append(pid + "!")
                continue
            except Exception:
                killers.append(pid + "?")
                continue
            if set(fd.key for fd in ctx.findings) - set(baselines[pid]):
                killers.append(pid)
        return killers
    except Exception as e:
        return ["<internal %s>" % type(e).__name__]


def main():
    qn = sys.argv[1]
    mx = int(sys.argv[2]) if len(sys.argv) > 2 else 200
    prog = core.Program()
    f = prog.own_method(qn) if qn.count(".") >= 3 else prog.func(qn)
    m = prog.module(".".join(qn.split(".")[:2]))
    baselines = {}
    for pid in PIDS:
        mod = importlib.import_module("vsa.rules.%s" % pid.lower())
        ctx = harness.Ctx(prog, pid, "quick", True)
        mod.run(ctx)
        baselines[pid] = sorted(set(fd.key for fd in ctx.findings))
    sites = audit._sites(f)
    random.Random(1).shuffle(sites)
    sites = sites[:mx]
    jobs = [(m.relpath, m.source, f.lineno, f.name, k, op, baselines) for k, op, desc in sites]
    with multiprocessing.get_context("fork").Pool(16, maxtasksperchild=2) as pool:
        res = pool.map(run_one, jobs, chunksize=1)
    n = 0
    blind = []
    for (k, op, desc), r in zip(sites, res):
        if r is None:
            continue
        n += 1
        if not r:
            # locate the mutated line for the report
            tree = ast.parse(m.source); g = audit._locate(tree, f.lineno, f.name)
            node = [x for i, x in enumerate(ast.walk(g)) if i == k][0]
            blind.append((getattr(node, "lineno", 0), op, desc, ast.unparse(node)[:70]))
    print("%s: %d mutants, %d reported by no property" % (qn, n, len(blind)))
    for b in sorted(blind):
        print("   line %d %-9s %-28s %s" % b)


if __name__ == "__main__":
    main()
