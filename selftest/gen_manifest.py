#!/usr/bin/env python3
"""Regenerate /verif/MANIFEST.json from the rule modules that are armed (vsa/rules/cXX.py with READY = True
or listed below).  Properties without an armed check go to not_applicable with the reason given here."""
import importlib, json, os, sys
sys.path.insert(0, "/verif")
props = [json.loads(l) for l in open("/verif/properties.jsonl")]
NA_REASON = {}
checks, na, served = [], [], []
for p in props:
    pid = p["id"]
    path = "/verif/vsa/rules/%s.py" % pid.lower()
    mod = None
    if os.path.exists(path):
        mod = importlib.import_module("vsa.rules.%s" % pid.lower())
    if mod is None or not getattr(mod, "CLAIM", None):
        na.append({"property_id": pid, "reason": NA_REASON.get(pid) or (getattr(mod, "NOT_APPLICABLE", None) if mod else None) or
                   "check under construction in this round (structural clauses planned in DESIGN.md section 5); not claimed until its rules are armed"})
        continue
    c = mod.CLAIM
    served.append(pid)
    checks.append({
        "property_id": pid, "quick_cmd": "./check %s --tier quick" % pid, "thorough_cmd": "./check %s --tier thorough" % pid,
        "evidence_file": "/verif/evidence/%s.json" % pid, "replay_cmd_template": "./check --replay {path}", "engine": "vsa",
        "level_claimed": {"category": "other", "text": c["level"], "design_ref": "DESIGN.md section 5 %s and section 11" % pid},
        "level_note": c["note"], "technique": c["technique"]})
man = {
    "version": 1,
    "setup_cmd": "/venv/bin/python -m compileall -q /verif/vsa >/dev/null 2>&1; test -x /verif/check",
    "hooks": {"guard": "VERIF_SA_HOOKS", "enable": "none: static analysis reads /repo's sources; no instrumentation exists in /repo",
              "baseline_off_cmd": "cd /repo && /venv/bin/python -m pytest -ra -q -p no:cacheprovider --timeout=900 --continue-on-collection-errors",
              "source_commits": [], "add_only": True},
    "engines": [{"name": "vsa", "path": "/verif/vsa", "serves_properties": served,
                 "kind_free_text": "repository-specific static analysis over Python ast: program model (classes, MRO, registries), FORM "
                                   "(rational-function normal form + identity), SHAPE (interval shapes over the finite domain of order relations), "
                                   "symbolic def-use folding with an event log (loops unrolled twice, helpers unknown to the reference inlined), propositional "
                                   "equivalence of conditions by truth table (boolq), case evaluation of functions with a parameter fixed, structured "
                                   "dataflow/provenance, effect and library-API rules; function-level comparison with a verified reference tree "
                                   "(/verif/reference) by symbolic summaries, so that refactored-but-equivalent functions are analysed in reference form "
                                   "(DESIGN.md section 11.6)"}],
    "checks": checks,
    "notes": "Static analysis only (DESIGN.md). Exit 0 = every obligation discharged (KNOWN-FINDING lines for recorded defects); 1 = VIOLATION; "
             "2 = ANALYSIS-ERROR (vanished anchor / unrecognised shape / instance floor not met). Thorough tier adds the in-memory sensitivity audit "
             "(every mutant goes through the same pipeline as a real change, reference comparison included). Self-tests under /verif/selftest: "
             "matrix.py (256 seeded breaking changes and 137 behaviour-preserving refactorings on scratch copies), try_equiv.py, equiv_auto.py, global_audit.py.",
    "not_applicable": na,
}
json.dump(man, open("/verif/MANIFEST.json", "w"), indent=1)
print("claimed:", served)
