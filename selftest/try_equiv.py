#!/usr/bin/env python3
"""For each variant directory (seeded or benign): which functions changed, and which of them the equivalence prover declares
equal to the reference.  usage: try_equiv.py benign|seeded [ids...]"""
import ast, os, sys, time
sys.path.insert(0, "/verif"); sys.path.insert(0, "/verif/selftest")
from overlay import program_with_patch
from vsa import core, equiv


def fdump(f):
    g = ast.parse(ast.unparse(f)).body[0]
    if g.body and isinstance(g.body[0], ast.Expr) and isinstance(getattr(g.body[0], "value", None), ast.Constant) and isinstance(g.body[0].value.value, str):
        g.body = g.body[1:] or [ast.Pass()]
    return ast.dump(g)


def changed_functions(ref, cur):
    out = []
    curf = {q: f for q, m, c, f in cur.all_functions()}
    for q, m, c, f in ref.all_functions():
        if not (q.startswith("verif.") or q.startswith("scripts.")):
            continue
        g = curf.get(q)
        if g is None:
            out.append((q, "removed"))
        elif fdump(f) != fdump(g):
            out.append((q, "changed"))
    return out


def main():
    kind = sys.argv[1]
    ids = sys.argv[2:] or sorted(os.listdir("/verif/" + kind))
    ref = core.Program(root="/verif/reference")
    for s in ids:
        pf = "/verif/%s/%s/patch.diff" % (kind, s)
        if not os.path.exists(pf):
            continue
        t0 = time.time()
        try:
            cur = program_with_patch(pf)
        except Exception as e:
            print(s, "PATCH ERROR", str(e)[:100]); continue
        res = []
        for q, what in changed_functions(ref, cur):
            if what == "removed":
                res.append((q, None, "removed")); continue
            # the reference program must be the model while summarising the reference (helper inlining uses the latest program)
            from vsa import symeval
            try:
                r = equiv.prove(ref, cur, q)       # exactly what vsa/refsub does
                res.append((q, r is None, r))
            except equiv.NotComparable as e:
                res.append((q, None, "not comparable: %s" % e))
            except Exception as e:
                res.append((q, None, "internal: %r" % e))
        verdict = "ALL-EQUIVALENT" if res and all(r[1] is True for r in res) else ("no-change" if not res else "differs/unknown")
        print("%-6s %-15s %.1fs  %s" % (s, verdict, time.time() - t0, "; ".join("%s=%s%s" % (q.split(".", 2)[-1], {True: "EQ", False: "NE", None: "??"}[ok], "" if ok else " (%s)" % str(why)[:110]) for q, ok, why in res)), flush=True)


if __name__ == "__main__":
    main()
