#!/usr/bin/env python3
"""False-alarm test: apply each behaviour-preserving variant under /verif/benign to /repo, run every claimed check (quick tier),
undo it straight away.  Any check that does not exit 0 on such a tree is a false alarm of the machinery.
usage: run_benign.py [id ...]"""
import json, os, subprocess, sys
from concurrent.futures import ThreadPoolExecutor

VERIF = "/verif"


def sh(cmd, cwd=None):
    p = subprocess.run(cmd, shell=True, cwd=cwd, stdout=subprocess.PIPE, stderr=subprocess.STDOUT)
    return p.returncode, p.stdout.decode(errors="replace")


def main():
    ids = [a for a in sys.argv[1:] if not a.startswith("--")] or sorted(os.listdir(VERIF + "/benign"))
    rc, out = sh("git status --porcelain", cwd="/repo")
    if out.strip():
        print("refusing: /repo has uncommitted changes"); sys.exit(2)
    checks = [c["property_id"] for c in json.load(open(VERIF + "/MANIFEST.json"))["checks"]]
    bad = 0
    for s in ids:
        d = "%s/benign/%s" % (VERIF, s)
        if not os.path.isdir(d):
            continue
        try:
            rc, out = sh("git apply %s/patch.diff" % d, cwd="/repo")
            if rc != 0:
                print("%-7s PATCH DOES NOT APPLY %s" % (s, out[-200:])); continue
            with ThreadPoolExecutor(max_workers=16) as ex:
                results = list(ex.map(lambda c: (c,) + sh("./check %s --tier quick" % c, cwd=VERIF), checks))
            alarms = []
            for c, rc, out in results:
                if rc != 0:
                    lines = [l.strip() for l in out.splitlines() if (l.startswith("  ") and ("verif/" in l or "scripts/" in l)) or "ANALYSIS-ERROR" in l][:2]
                    alarms.append("%s(rc=%d) %s" % (c, rc, " | ".join(x[:260] for x in lines)))
            bad += bool(alarms)
            print("%-7s %-12s %s" % (s, "FALSE-ALARM" if alarms else "quiet", "; ".join(alarms)), flush=True)
        finally:
            sh("git checkout -q -- . && git clean -fdq -- verif scripts", cwd="/repo")
    rc, out = sh("git status --porcelain", cwd="/repo")
    assert not out.strip(), out
    print("%d of %d variants raise a false alarm" % (bad, len(ids)))


if __name__ == "__main__":
    main()
