#!/usr/bin/env python3
"""Import a seeded change written by a sub-agent into /verif/seeded/<id>/.
usage: import_seed.py [--root /tmp/seed_out2 --shift 2] C01/a C01/b ...
--shift n renames variant letters (a->c, b->d, ... for n=2) so that rounds do not collide."""
import json, os, shutil, sys
args = sys.argv[1:]
root, shift = "/tmp/seed_out", 0
while args and args[0].startswith("--"):
    if args[0] == "--root":
        root = args[1]
    elif args[0] == "--shift":
        shift = int(args[1])
    args = args[2:]
for prop, var in [a.split("/") for a in args]:
    src = "%s/%s/%s" % (root, prop, var)
    newvar = chr(ord(var) + shift)
    dst = "/verif/seeded/%s%s" % (prop, newvar)
    os.makedirs(dst, exist_ok=True)
    shutil.copy(src + "/patch.diff", dst + "/patch.diff")
    shutil.copy(src + "/demo.py", dst + "/demo.py")
    notes = open(src + "/notes.md").read() if os.path.exists(src + "/notes.md") else ""
    meta = {"id": prop + newvar, "property": prop, "round": 1 if shift == 0 else 2,
            "written_by": "independent sub-agent given only the property text and a scratch worktree",
            "needs_to_manifest": notes,
            "confirmed_by": None,
            "detected_by": None}
    json.dump(meta, open(dst + "/meta.json", "w"), indent=1)
    print("imported", dst)
