#!/usr/bin/env python3
"""Import a confirmed seeded change from /tmp/seed_out/<prop>/<variant> into /verif/seeded/<prop><variant>/."""
import json, os, shutil, sys
for prop, var in [a.split("/") for a in sys.argv[1:]]:
    src = "/tmp/seed_out/%s/%s" % (prop, var)
    dst = "/verif/seeded/%s%s" % (prop, var)
    os.makedirs(dst, exist_ok=True)
    shutil.copy(src + "/patch.diff", dst + "/patch.diff")
    shutil.copy(src + "/demo.py", dst + "/demo.py")
    notes = open(src + "/notes.md").read()
    meta = {"id": prop + var, "property": prop,
            "written_by": "independent sub-agent given only the property text and a scratch worktree",
            "needs_to_manifest": notes,
            "confirmed_by": "selftest/verify_seed.py in a scratch worktree of /repo: demo exits 0 on the clean tree, non-zero with the patch; "
                            "pytest (182 tests) passes with the patch",
            "detected_by": None}
    json.dump(meta, open(dst + "/meta.json", "w"), indent=1)
    print("imported", dst)
