"""Program model of /repo with a patch applied in memory (nothing is written to /repo)."""
import os, re, shutil, subprocess, sys, tempfile
sys.path.insert(0, "/verif")
from vsa import core


def program_with_patch(patchfile, root="/repo"):
    text = open(patchfile).read()
    files = sorted(set(re.findall(r"^\+\+\+ b/(\S+)", text, re.M)))
    d = tempfile.mkdtemp(prefix="ovl_")
    try:
        for f in files:
            os.makedirs(os.path.dirname(os.path.join(d, f)), exist_ok=True)
            if os.path.exists(os.path.join(root, f)):
                shutil.copy(os.path.join(root, f), os.path.join(d, f))
        r = subprocess.run(["patch", "-p1", "-s", "-d", d, "-i", os.path.abspath(patchfile)], stdout=subprocess.PIPE, stderr=subprocess.STDOUT)
        if r.returncode != 0:
            raise RuntimeError(r.stdout.decode())
        overlay = {f: open(os.path.join(d, f)).read() for f in files}
    finally:
        shutil.rmtree(d, ignore_errors=True)
    return core.Program(root=root, overlay=overlay)
