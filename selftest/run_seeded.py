#!/usr/bin/env python3
"""Apply each seeded change to /repo, run the checks, undo it straight away.

usage: run_seeded.py [--all-checks] [seed-id ...]     (default: every /verif/seeded/*)
For each seed: which claimed checks report a violation (exit 1) / analysis error (exit 2).
/repo is restored with `git checkout -- .` after every seed, also on errors.
"""
import json, os, subprocess, sys

VERIF = "/verif"

def sh(cmd, cwd=None):
    p = subprocess.run(cmd, shell=True, cwd=cwd, stdout=subprocess.PIPE, stderr=subprocess.STDOUT)
    return p.returncode, p.stdout.decode(errors="replace")

def claimed():
    man = json.load(open(VERIF + "/MANIFEST.json"))
    return [c["property_id"] for c in man["checks"]]

def main():
    args = [a for a in sys.argv[1:] if not a.startswith("--")]
    allchecks = "--own-check" not in sys.argv
    seeds = args or sorted(os.listdir(VERIF + "/seeded"))
    rc, out = sh("git status --porcelain", cwd="/repo")
    if out.strip():
        print("refusing: /repo has uncommitted changes"); sys.exit(2)
    checks = claimed()
    summary = {}
    for s in seeds:
        d = "%s/seeded/%s" % (VERIF, s)
        meta = json.load(open(d + "/meta.json"))
        try:
            rc, out = sh("git apply --3way %s/patch.diff 2>&1 || git apply %s/patch.diff" % (d, d), cwd="/repo")
            sh("git reset -q", cwd="/repo")
            if rc != 0:
                print(s, "PATCH DOES NOT APPLY", out[-300:]); summary[s] = "noapply"; continue
            todo = checks if allchecks else [c for c in checks if c == meta["property"]]
            hits = []
            from concurrent.futures import ThreadPoolExecutor
            with ThreadPoolExecutor(max_workers=16) as ex:
                results = list(ex.map(lambda c: (c,) + sh("./check %s --tier quick" % c, cwd=VERIF), todo))
            for c, rc, out in results:
                if rc != 0:
                    lines = [l for l in out.splitlines() if l.startswith("  ") and ("verif/" in l or "scripts/" in l)][:2]
                    hits.append((c, rc, lines or [l for l in out.splitlines() if "ANALYSIS-ERROR" in l][:1]))
            summary[s] = hits
            tag = "DETECTED" if any(h[1] == 1 for h in hits) else ("ANALYSIS-ERROR" if hits else ("MISSED" if todo else "NO-CHECK"))
            print("%-6s %-14s %s" % (s, tag, "; ".join("%s(rc=%d) %s" % (h[0], h[1], " | ".join(x.strip()[:160] for x in h[2])) for h in hits)))
        finally:
            sh("git checkout -q -- . && git clean -fdq -- verif scripts", cwd="/repo")
    rc, out = sh("git status --porcelain", cwd="/repo")
    assert not out.strip(), out
    return summary

if __name__ == "__main__":
    main()
