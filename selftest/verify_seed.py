#!/usr/bin/env python3
"""Independently confirm a seeded change: demo passes on the clean tree, fails with the patch,
and the repository's test suite still passes with the patch.  Works in a scratch worktree under
/tmp (removed afterwards).  usage: verify_seed.py <seed_dir> [<seed_dir> ...]
A seed_dir contains patch.diff and demo.py.  Prints one JSON line per seed."""
import json, os, subprocess, sys, tempfile, shutil

PY = "/venv/bin/python"

def sh(cmd, cwd=None, env=None, timeout=1800):
    p = subprocess.run(cmd, shell=True, cwd=cwd, env=env, stdout=subprocess.PIPE, stderr=subprocess.STDOUT, timeout=timeout)
    return p.returncode, p.stdout.decode(errors="replace")

def verify(seed, wt):
    env = dict(os.environ, PYTHONPATH=wt, MPLBACKEND="Agg", PYTHONDONTWRITEBYTECODE="1")
    res = {"seed": seed}
    sh("git checkout -q -- . && git clean -fdq", cwd=wt)
    rc, out = sh("%s %s/demo.py" % (PY, seed), cwd=wt, env=env)
    res["demo_clean_rc"] = rc
    if rc != 0:
        res["demo_clean_tail"] = out[-600:]
    rc, out = sh("git apply --3way %s/patch.diff || git apply %s/patch.diff" % (seed, seed), cwd=wt)
    res["apply_rc"] = rc
    if rc != 0:
        res["apply_out"] = out[-400:]
        return res
    rc, out = sh("%s %s/demo.py" % (PY, seed), cwd=wt, env=env)
    res["demo_patched_rc"] = rc
    res["demo_patched_tail"] = out[-400:]
    rc, out = sh("%s -m pytest -q -p no:cacheprovider --timeout=900 -n 4 2>&1 | tail -1" % PY, cwd=wt, env=env)
    res["tests_tail"] = out.strip()[-200:]
    res["tests_ok"] = ("182 passed" in out and "failed" not in out)
    sh("git checkout -q -- . && git reset -q && git checkout -q -- . && git clean -fdq", cwd=wt)
    res["confirmed"] = res["demo_clean_rc"] == 0 and res["demo_patched_rc"] != 0 and res["tests_ok"]
    return res

def main():
    seeds = [os.path.abspath(s) for s in sys.argv[1:]]
    wt = tempfile.mkdtemp(prefix="vseed_", dir="/tmp")
    os.rmdir(wt)
    rc, out = sh("git -C /repo worktree add -q --detach %s HEAD" % wt)
    if rc != 0:
        print(out); sys.exit(2)
    try:
        for s in seeds:
            print(json.dumps(verify(s, wt)), flush=True)
    finally:
        sh("git -C /repo worktree remove --force %s" % wt)
        shutil.rmtree(wt, ignore_errors=True)

if __name__ == "__main__":
    main()
