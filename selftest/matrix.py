#!/usr/bin/env python3
"""Parallel self-test matrix: every variant under /verif/seeded and /verif/benign is applied to its own scratch copy of
/repo's verif/ and scripts/ (under $TMPDIR, removed straight away), and every claimed check runs against that copy
(VSA_REPO, VSA_EVIDENCE_DIR) - /repo and /verif/evidence are never touched, so this can run next to anything else.

usage: matrix.py seeded|benign|all [id ...] [--checks C01,C02] [--jobs 16] [--out file]
seeded: DETECTED (some check exits 1) / ANALYSIS-ERROR (only exit 2) / MISSED;  benign: quiet / FALSE-ALARM (any non-zero exit).
"""
import json, os, shutil, subprocess, sys, tempfile
from concurrent.futures import ThreadPoolExecutor

VERIF = os.path.dirname(os.path.dirname(os.path.abspath(__file__)))
REPO = "/repo"


def sh(cmd, cwd=None, env=None):
    p = subprocess.run(cmd, shell=True, cwd=cwd, env=env, stdout=subprocess.PIPE, stderr=subprocess.STDOUT)
    return p.returncode, p.stdout.decode(errors="replace")


def one(kind, vid, checks):
    d = "%s/%s/%s" % (VERIF, kind, vid)
    tmp = tempfile.mkdtemp(prefix="vsa_mx_")
    try:
        rc, out = sh("git -C %s archive HEAD verif scripts | tar -x -C %s" % (REPO, tmp))
        if rc:
            return vid, "ERROR", out[-200:]
        rc, out = sh("git apply --unsafe-paths --directory=%s %s/patch.diff 2>&1 || patch -s -p1 -d %s < %s/patch.diff" % (tmp, d, tmp, d), cwd=tmp)
        if rc:
            return vid, "NOAPPLY", out[-200:]
        env = dict(os.environ, VSA_REPO=tmp, VSA_EVIDENCE_DIR=tmp + "/ev", VSA_CACHE=tmp + "/cache")
        hits = []
        for c in checks:
            rc, out = sh("./check %s --tier quick" % c, cwd=VERIF, env=env)
            if rc != 0:
                lines = [l.strip() for l in out.splitlines() if (l.startswith("  ") and ("verif/" in l or "scripts/" in l)) or "ANALYSIS-ERROR" in l][:2]
                hits.append((c, rc, " | ".join(x[:200] for x in lines)))
        if kind == "seeded":
            tag = "DETECTED" if any(h[1] == 1 for h in hits) else ("ANALYSIS-ERROR" if hits else "MISSED")
        else:
            tag = "FALSE-ALARM" if hits else "quiet"
        return vid, tag, "; ".join("%s(rc=%d) %s" % h for h in hits)
    finally:
        shutil.rmtree(tmp, ignore_errors=True)


def main():
    argv = sys.argv[1:]
    opts = {}
    pos = []
    i = 0
    while i < len(argv):
        if argv[i].startswith("--"):
            opts[argv[i][2:]] = argv[i + 1]; i += 2
        else:
            pos.append(argv[i]); i += 1
    kinds = ["seeded", "benign"] if pos[0] == "all" else [pos[0]]
    ids = pos[1:]
    checks = opts.get("checks", "").split(",") if opts.get("checks") else [c["property_id"] for c in json.load(open(VERIF + "/MANIFEST.json"))["checks"]]
    jobs = int(opts.get("jobs", "16"))
    outf = open(opts["out"], "w") if "out" in opts else None
    for kind in kinds:
        todo = [v for v in sorted(os.listdir("%s/%s" % (VERIF, kind))) if (not ids or v in ids) and os.path.isdir("%s/%s/%s" % (VERIF, kind, v))]
        with ThreadPoolExecutor(max_workers=jobs) as ex:
            res = list(ex.map(lambda v: one(kind, v, checks), todo))
        tally = {}
        for vid, tag, detail in res:
            tally[tag] = tally.get(tag, 0) + 1
            line = "%-7s %-14s %s" % (vid, tag, detail)
            print(line, flush=True)
            if outf:
                outf.write(line + "\n")
        line = "%s: %s of %d" % (kind, ", ".join("%s %d" % kv for kv in sorted(tally.items())), len(res))
        print(line)
        if outf:
            outf.write(line + "\n")


if __name__ == "__main__":
    main()
