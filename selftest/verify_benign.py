#!/usr/bin/env python3
"""Confirm a behaviour-preserving variant: equiv.py prints the same digest on the clean and on the patched tree and the test
suite passes with the patch.  usage: verify_benign.py <dir> [...]   (dir contains patch.diff and equiv.py)"""
import hashlib, json, os, shutil, subprocess, sys, tempfile

PY = "/venv/bin/python"


def sh(cmd, cwd=None, env=None, timeout=2400):
    p = subprocess.run(cmd, shell=True, cwd=cwd, env=env, stdout=subprocess.PIPE, stderr=subprocess.STDOUT, timeout=timeout)
    return p.returncode, p.stdout.decode(errors="replace")


def verify(d, wt):
    env = dict(os.environ, PYTHONPATH=wt, MPLBACKEND="Agg", PYTHONDONTWRITEBYTECODE="1")
    res = {"variant": d}
    sh("git checkout -q -- . && git clean -fdq", cwd=wt)
    rc0, out0 = sh("%s %s/equiv.py 2>/dev/null" % (PY, d), cwd=wt, env=env)          # stdout only: warnings carry line numbers
    rc, out = sh("git apply %s/patch.diff" % d, cwd=wt)
    res["apply_rc"] = rc
    if rc != 0:
        res["apply_out"] = out[-300:]
        return res
    rc1, out1 = sh("%s %s/equiv.py 2>/dev/null" % (PY, d), cwd=wt, env=env)
    res["equiv_rc"] = (rc0, rc1)
    res["digest_equal"] = (rc0 == 0 and rc1 == 0 and out0 == out1)
    res["digest"] = hashlib.sha256(out0.encode()).hexdigest()[:16]
    if not res["digest_equal"]:
        import difflib
        res["diff"] = "\n".join(list(difflib.unified_diff(out0.splitlines(), out1.splitlines(), lineterm="", n=0))[:12])[:800]
    rc, out = sh("%s -m pytest -q -p no:cacheprovider --timeout=900 -n 4 2>&1 | tail -1" % PY, cwd=wt, env=env)
    res["tests_tail"] = out.strip()[-120:]
    res["tests_ok"] = ("182 passed" in out and "failed" not in out)
    sh("git checkout -q -- . && git clean -fdq", cwd=wt)
    res["confirmed"] = bool(res["digest_equal"] and res["tests_ok"])
    return res


def main():
    ds = [os.path.abspath(s) for s in sys.argv[1:]]
    wt = tempfile.mkdtemp(prefix="vben_", dir="/tmp")
    os.rmdir(wt)
    rc, out = sh("git -C /repo worktree add -q --detach %s HEAD" % wt)
    if rc != 0:
        print(out); sys.exit(2)
    try:
        for d in ds:
            print(json.dumps(verify(d, wt)), flush=True)
    finally:
        sh("git -C /repo worktree remove --force %s" % wt)
        shutil.rmtree(wt, ignore_errors=True)


if __name__ == "__main__":
    main()
